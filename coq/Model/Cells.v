(* Cells.v -- hand models of the memory templates the compiler emits (MemoryBuilder), as
   stream transformers over ALL input streams, with their tick laws.            C03 C04 C05

   gated cell  (_create_standard_memory / _setup_standard_write):
     write gate: W > 0  -> copy the cell signal from its input (data on red, W on green)
     hold  gate: W = 0  -> copy the cell signal from its input (= the feedback network, which
                           carries the outputs of both gates)
   The per-blueprint tie (that an emitted pair really has these one-tick equations, with the
   data / enable the source wrote) is the verified check of Valid/CellCheck.v. *)
From Coq Require Import ZArith List Bool Lia.
From FV Require Import Base.Int32.
Import ListNotations.
Open Scope Z_scope.

Section Gated.
Variables D W : nat -> Z.       (* data and enable as seen by the gates at tick t *)

(* outputs (write gate, hold gate) shown at tick t; both are 0 when the blueprint is pasted *)
Fixpoint gates (t : nat) : Z * Z :=
  match t with
  | O => (0, 0)
  | S t' => let '(w, h) := gates t' in
            ((if W t' >? 0 then D t' else 0),
             (if W t' =? 0 then wrap32 (w + h) else 0))
  end.

(* what every reader of the cell sees: the sum on the feedback network *)
Definition V (t : nat) : Z := wrap32 (fst (gates t) + snd (gates t)).

Hypothesis D32 : forall t, in32 (D t).

Theorem gated_cell_tick t :
  V (S t) = if W t >? 0 then D t else if W t =? 0 then V t else 0.
Proof.
  unfold V. cbn [gates]. destruct (gates t) as [w h]. cbn [fst snd].
  destruct (W t >? 0) eqn:E1.
  - assert (W t =? 0 = false) as -> by (rewrite Z.gtb_ltb in E1; apply Z.ltb_lt in E1; apply Z.eqb_neq; lia).
    rewrite Z.add_0_r. apply wrap32_small, D32.
  - destruct (W t =? 0); [rewrite Z.add_0_l; apply wrap32_idem | reflexivity].
Qed.

Corollary gated_cell_initial : V 0 = 0.
Proof. reflexivity. Qed.

Corollary gated_cell_follow t : W t > 0 -> V (S t) = D t.
Proof. intros H. rewrite gated_cell_tick. replace (W t >? 0) with true; [reflexivity|]. symmetry. rewrite Z.gtb_ltb. apply Z.ltb_lt. lia. Qed.

Corollary gated_cell_hold_step t : W t = 0 -> V (S t) = V t.
Proof. intros H. rewrite gated_cell_tick, H. reflexivity. Qed.

(* while the enable stays zero the value stays what it was, whatever the data does *)
Theorem gated_cell_hold a n : (forall t, (a <= t < a + n)%nat -> W t = 0) -> V (a + n) = V a.
Proof.
  induction n as [|n IH]; intros H; [rewrite Nat.add_0_r; reflexivity|].
  rewrite Nat.add_succ_r, gated_cell_hold_step by (apply H; lia). apply IH. intros t Ht. apply H. lia.
Qed.

(* zero before the first enabled write *)
Theorem gated_cell_zero_before_first_write n : (forall t, (t < n)%nat -> W t = 0) -> V n = 0.
Proof. intros H. change n with (0 + n)%nat. rewrite gated_cell_hold; [reflexivity|]. intros t Ht. apply H. lia. Qed.

(* the last value written is kept: write at tick a, enable zero afterwards *)
Theorem gated_cell_latches a n :
  W a > 0 -> (forall t, (S a <= t < S a + n)%nat -> W t = 0) -> V (S a + n) = D a.
Proof. intros Ha H. rewrite gated_cell_hold by exact H. apply gated_cell_follow, Ha. Qed.
End Gated.

(* ---------------------------------------------------------------- feedback ring (C04)
   k combinators in a ring, stage i showing at tick t+1 the function g_i of what the previous
   stage shows at tick t.  The value at any stage after one round trip is the composition of all
   stage functions applied to its value now -- for every tick, from any state. *)
Section Ring.
Variable gs : list (Z -> Z).     (* stage functions, first stage first; the last feeds the first *)

Definition rot (x : list Z) : list Z := match rev x with [] => [] | l :: r => l :: rev r end.
(* one tick: stage i takes the previous stage's (stage 0: the last stage's) current output *)
Definition ring_step (x : list Z) : list Z := map (fun gp => fst gp (snd gp)) (combine gs (rot x)).

Fixpoint ring_run (n : nat) (x : list Z) : list Z :=
  match n with O => x | S n' => ring_step (ring_run n' x) end.

(* a single-stage ring (self feedback) iterates its function every tick *)
Theorem ring1_iterates g x0 n : gs = [g] -> ring_run n [x0] = [Nat.iter n g x0].
Proof.
  intros E. induction n as [|n IH]; [reflexivity|]. cbn [ring_run]. rewrite IH.
  unfold ring_step. rewrite E. reflexivity.
Qed.
End Ring.

(* two-stage ring, written out: the value seen at stage 2 after two ticks is g2 (g1 v) *)
Theorem ring2_iterates g1 g2 a b :
  ring_run [g1; g2] 2 [a; b] = [g1 (g2 a); g2 (g1 b)].
Proof. reflexivity. Qed.

Theorem ring3_iterates g1 g2 g3 a b c :
  ring_run [g1; g2; g3] 3 [a; b; c] = [g1 (g3 (g2 a)); g2 (g1 (g3 b)); g3 (g2 (g1 c))].
Proof. reflexivity. Qed.

(* ---------------------------------------------------------------- latches (C05), boolean level
   s, r: set / reset active; l: current latch bit *)
Definition latch_spec (set_first : bool) (l s r : bool) : bool :=
  if s && negb r then true
  else if r && negb s then false
  else if negb s && negb r then l
  else set_first.

(* SR (set priority) rows emitted by _create_sr_latch_placement: (L>0 and R=0) or S>0,
   read with `and` binding tighter than `or`; left-to-right reading gives the same *)
Definition sr_rows (l s r : bool) : bool := (l && negb r) || s.
Theorem sr_latch_table l s r : sr_rows l s r = latch_spec true l s r.
Proof. destruct l, s, r; reflexivity. Qed.

(* RS (reset priority) single condition emitted by _create_rs_latch_placement: S + L > R *)
Definition rs_row (l s r : bool) : bool := (b2z s + b2z l >? b2z r).
Theorem rs_latch_table_except_both l s r : negb (s && r) = true -> rs_row l s r = latch_spec false l s r.
Proof. destruct l, s, r; intros H; try discriminate H; reflexivity. Qed.

(* known finding S3: with both active and the latch on, S + L > R holds instead of resetting *)
Theorem rs_latch_both_active_refuted : exists l s r, rs_row l s r <> latch_spec false l s r.
Proof. exists true, true, true. discriminate. Qed.
