(* Preproc.v -- hand model of /repo/dsl_compiler/src/parsing/preprocessor.py
   (`resolve_import_path`, `preprocess_imports`) over an abstract file system.  No proofs here
   (Proofs/PreprocProofs.v); tied to the Python by the correspondence check of py/props/c17.py,
   which runs both on generated import graphs from several working directories.

   Abstractions (made by the exporter in py/props/c17.py, listed in the evidence):
   * a directory / file is the list of its path components from the root, already normalised
     (no ".", "..", symbolic links): what `Path.resolve()` returns;
   * a file is the list of its lines (`content.split("\n")`, never empty); a line is `Import r`
     when, stripped, it starts with `import "` and ends with `";` -- r being the quoted path with
     the `.facto` suffix rule applied, split at "/" -- and `Text s` otherwise;
   * FACTORIO_IMPORT_PATH is a list of entries, relative to the working directory or absolute. *)
From Coq Require Import List String Bool Arith.
Import ListNotations.

Definition dir := list string.
Definition path := list string.
Definition rel := list string.

Inductive line := Import (r : rel) | Text (s : string).
Definition fsys := list (path * list line).

Inductive sentry := Rel (d : list string) | Abs (d : dir).

Fixpoint path_eqb (p q : path) : bool :=
  match p, q with
  | [], [] => true
  | a :: p', b :: q' => String.eqb a b && path_eqb p' q'
  | _, _ => false
  end.

Fixpoint find_file (fs : fsys) (p : path) : option (list line) :=
  match fs with
  | [] => None
  | (q, c) :: fs' => if path_eqb q p then Some c else find_file fs' p
  end.

Definition exists_file (fs : fsys) (p : path) : bool :=
  match find_file fs p with Some _ => true | None => false end.

Definition mem (p : path) (l : list path) : bool := existsb (path_eqb p) l.

(* ---- resolve_import_path: the importing file's directory first, then the search path *)
Definition search_dirs (cwd : dir) (sp : list sentry) : list dir :=
  map (fun e => match e with Rel d => cwd ++ d | Abs d => d end) sp.

Definition candidates (cwd : dir) (sp : list sentry) (base : dir) (r : rel) : list path :=
  map (fun d => d ++ r) (base :: search_dirs cwd sp).

Definition resolve (fs : fsys) (cwd : dir) (sp : list sentry) (base : dir) (r : rel) : option path :=
  find (exists_file fs) (candidates cwd sp base r).

Definition dirname (p : path) : dir := removelast p.

(* ---- preprocess_imports *)
Inductive oline :=
| OText (s : string)          (* a line copied through *)
| OBegin (p : path)           (* "# --- Imported from <p> ---" *)
| OEnd (p : path)             (* "# --- End import <p> ---" *)
| OSkip (r : rel).            (* "# Skipped circular import: <r>" *)

Inductive res :=
| Ok (seen : list path) (out : list oline)   (* processed_files afterwards, emitted lines *)
| NotFound (r : rel)                         (* FileNotFoundError *)
| OutOfFuel.

Section Lines.
Variables (fs : fsys) (cwd : dir) (sp : list sentry).
(* the recursive call on the text of an imported file *)
Variable rec : dir -> list path -> list line -> res.

Fixpoint pp_lines (base : dir) (seen : list path) (ls : list line) : res :=
  match ls with
  | [] => Ok seen []
  | Text s :: r =>
      match pp_lines base seen r with Ok sn out => Ok sn (OText s :: out) | e => e end
  | Import i :: r =>
      match resolve fs cwd sp base i with
      | None => NotFound i
      | Some p =>
          if mem p seen then
            match pp_lines base seen r with Ok sn out => Ok sn (OSkip i :: out) | e => e end
          else
            match find_file fs p with
            | None => NotFound i
            | Some content =>
                match rec (dirname p) (p :: seen) content with
                | Ok sn1 out1 =>
                    match pp_lines base sn1 r with
                    | Ok sn2 out2 => Ok sn2 (OBegin p :: out1 ++ OEnd p :: out2)
                    | e => e
                    end
                | e => e
                end
            end
      end
  end.
End Lines.

(* fuel = how many files may still be entered *)
Fixpoint pp (fs : fsys) (cwd : dir) (sp : list sentry) (fuel : nat) : dir -> list path -> list line -> res :=
  match fuel with
  | O => fun _ _ _ => OutOfFuel
  | S f => pp_lines fs cwd sp (pp fs cwd sp f)
  end.

(* the entry point: `preprocess_imports(source, base_path)` with an empty processed set; the main
   text itself costs no fuel, so `fuel` bounds the nesting depth of imported files *)
Definition preprocess (fs : fsys) (cwd : dir) (sp : list sentry) (fuel : nat) (base : dir) (main : list line) : res :=
  pp fs cwd sp (S fuel) base [] main.

(* ---- the specification: plain textual paste, no processed-files set *)
Section PasteLines.
Variables (fs : fsys) (cwd : dir) (sp : list sentry).
Variable rec : dir -> list line -> option (list oline).

Fixpoint paste_lines (base : dir) (ls : list line) : option (list oline) :=
  match ls with
  | [] => Some []
  | Text s :: r =>
      match paste_lines base r with Some out => Some (OText s :: out) | None => None end
  | Import i :: r =>
      match resolve fs cwd sp base i with
      | None => None
      | Some p =>
          match find_file fs p with
          | None => None
          | Some content =>
              match rec (dirname p) content with
              | Some out1 =>
                  match paste_lines base r with
                  | Some out2 => Some (OBegin p :: out1 ++ OEnd p :: out2)
                  | None => None
                  end
              | None => None
              end
          end
      end
  end.
End PasteLines.

Fixpoint paste (fs : fsys) (cwd : dir) (sp : list sentry) (fuel : nat) : dir -> list line -> option (list oline) :=
  match fuel with
  | O => fun _ _ => None
  | S f => paste_lines fs cwd sp (paste fs cwd sp f)
  end.

(* the files whose text was included, in order of inclusion *)
Fixpoint begins (out : list oline) : list path :=
  match out with
  | [] => []
  | OBegin p :: r => p :: begins r
  | _ :: r => begins r
  end.

(* ---- comparison helpers for the correspondence check (executed by vm_compute) *)
Definition oline_eqb (a b : oline) : bool :=
  match a, b with
  | OText s, OText t => String.eqb s t
  | OBegin p, OBegin q => path_eqb p q
  | OEnd p, OEnd q => path_eqb p q
  | OSkip p, OSkip q => path_eqb p q
  | _, _ => false
  end.

Fixpoint olines_eqb (a b : list oline) : bool :=
  match a, b with
  | [], [] => true
  | x :: a', y :: b' => oline_eqb x y && olines_eqb a' b'
  | _, _ => false
  end.

(* expected outcome as observed on the real function: Some lines, or None + the missing import *)
Definition agrees (r : res) (expected : option (list oline)) (missing : rel) : bool :=
  match r, expected with
  | Ok _ out, Some e => olines_eqb out e
  | NotFound i, None => path_eqb i missing
  | _, _ => false
  end.
