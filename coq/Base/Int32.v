(* Int32.v -- specification model: Factorio 2.0 combinator arithmetic on signed
   32-bit integers.  Hand written, trusted, short.  Nothing here is derived from
   /repo.  Values are unbounded Z; every operation result is wrapped explicitly. *)
From Coq Require Import ZArith Bool Lia.
Open Scope Z_scope.

Definition two31 : Z := 2147483648.
Definition two32 : Z := 4294967296.

(* signed wrap-around: the unique representative of z modulo 2^32 in [-2^31, 2^31) *)
Definition wrap32 (z : Z) : Z := (z + two31) mod two32 - two31.

Definition in32 (z : Z) : Prop := - two31 <= z < two31.
Definition in32b (z : Z) : bool := (- two31 <=? z) && (z <? two31).

Inductive aop := Add | Sub | Mul | Div | Mod | Pow | Shl | Shr | And | Or | Xor.
Inductive cop := CLt | CGt | CEq | CGe | CLe | CNe.

(* power by repeated wrapped multiplication; only meaningful for n >= 0 *)
Definition pow32 (a n : Z) : Z := wrap32 (Z.pow a n).

(* Shift amounts outside 0..31 and negative exponents are *unspecified* in this
   model: the functions below are total (Z.shiftl etc. are), but every theorem that
   talks about Shl/Shr/Pow carries the guard [shift_ok]/[0 <= n], and the
   generators never produce such operands. *)
Definition shift_ok (n : Z) : Prop := 0 <= n < 32.
Definition shift_okb (n : Z) : bool := (0 <=? n) && (n <? 32).

Definition arith (o : aop) (a b : Z) : Z :=
  match o with
  | Add => wrap32 (a + b)
  | Sub => wrap32 (a - b)
  | Mul => wrap32 (a * b)
  | Div => if b =? 0 then 0 else wrap32 (Z.quot a b)   (* truncates toward zero *)
  | Mod => if b =? 0 then 0 else wrap32 (Z.rem a b)    (* sign of the dividend *)
  | Pow => pow32 a b
  | Shl => wrap32 (Z.shiftl a b)
  | Shr => wrap32 (Z.shiftr a b)                         (* arithmetic shift *)
  | And => wrap32 (Z.land a b)
  | Or  => wrap32 (Z.lor a b)
  | Xor => wrap32 (Z.lxor a b)
  end.

Definition cmp (o : cop) (a b : Z) : bool :=
  match o with
  | CLt => a <? b | CGt => a >? b | CEq => a =? b
  | CGe => a >=? b | CLe => a <=? b | CNe => negb (a =? b)
  end.

Definition b2z (b : bool) : Z := if b then 1 else 0.
Definition nz (z : Z) : bool := negb (z =? 0).

(* the guard under which [arith o a b] is specified *)
Definition arith_ok (o : aop) (b : Z) : Prop :=
  match o with Pow => 0 <= b | Shl | Shr => shift_ok b | _ => True end.
Definition arith_okb (o : aop) (b : Z) : bool :=
  match o with Pow => 0 <=? b | Shl | Shr => shift_okb b | _ => true end.

(* ---------------------------------------------------------------- lemmas *)

Lemma wrap32_range z : in32 (wrap32 z).
Proof. unfold in32, wrap32, two31, two32. pose proof (Z.mod_pos_bound (z + 2147483648) 4294967296). lia. Qed.

Lemma wrap32_small z : in32 z -> wrap32 z = z.
Proof. unfold in32, wrap32, two31, two32. intros H. rewrite Z.mod_small; lia. Qed.

Lemma wrap32_idem z : wrap32 (wrap32 z) = wrap32 z.
Proof. apply wrap32_small, wrap32_range. Qed.

Lemma wrap32_eqm z : (wrap32 z) mod two32 = z mod two32.
Proof.
  unfold wrap32, two31, two32.
  replace ((z + 2147483648) mod 4294967296 - 2147483648)
    with ((z + 2147483648) mod 4294967296 + (-2147483648)) by lia.
  rewrite Zplus_mod, Z.mod_mod by lia. rewrite <- Zplus_mod.
  f_equal. lia.
Qed.

Lemma wrap32_congr a b : a mod two32 = b mod two32 -> wrap32 a = wrap32 b.
Proof.
  intros H. unfold wrap32. f_equal.
  rewrite (Zplus_mod a), (Zplus_mod b), H. reflexivity.
Qed.

Lemma wrap32_add_l a b : wrap32 (wrap32 a + b) = wrap32 (a + b).
Proof. apply wrap32_congr. rewrite Zplus_mod, wrap32_eqm, <- Zplus_mod. reflexivity. Qed.
Lemma wrap32_add_r a b : wrap32 (a + wrap32 b) = wrap32 (a + b).
Proof. rewrite Z.add_comm, wrap32_add_l, Z.add_comm. reflexivity. Qed.
Lemma wrap32_sub_l a b : wrap32 (wrap32 a - b) = wrap32 (a - b).
Proof. apply wrap32_congr. rewrite Zminus_mod, wrap32_eqm, <- Zminus_mod. reflexivity. Qed.
Lemma wrap32_sub_r a b : wrap32 (a - wrap32 b) = wrap32 (a - b).
Proof. apply wrap32_congr. rewrite Zminus_mod, wrap32_eqm, <- Zminus_mod. reflexivity. Qed.
Lemma wrap32_mul_l a b : wrap32 (wrap32 a * b) = wrap32 (a * b).
Proof. apply wrap32_congr. rewrite Zmult_mod, wrap32_eqm, <- Zmult_mod. reflexivity. Qed.
Lemma wrap32_mul_r a b : wrap32 (a * wrap32 b) = wrap32 (a * b).
Proof. rewrite Z.mul_comm, wrap32_mul_l, Z.mul_comm. reflexivity. Qed.

Lemma wrap32_0 : wrap32 0 = 0. Proof. reflexivity. Qed.

Lemma in32b_spec z : in32b z = true <-> in32 z.
Proof. unfold in32b, in32. rewrite andb_true_iff, Z.leb_le, Z.ltb_lt. tauto. Qed.

Lemma arith_range o a b : in32 (arith o a b).
Proof.
  destruct o; simpl; try apply wrap32_range;
  try (destruct (b =? 0); [unfold in32, two31; lia | apply wrap32_range]).
Qed.

Lemma b2z_01 b : b2z b = 0 \/ b2z b = 1.
Proof. destruct b; simpl; auto. Qed.

Lemma b2z_in32 b : in32 (b2z b).
Proof. destruct b; unfold in32, two31; simpl; lia. Qed.
