(* Syntax.v -- the Facto source language as the generators produce it (specification
   side; hand written; independent of /repo's parser and AST classes). *)
From Coq Require Import ZArith List.
From FV Require Import Base.Int32 Factorio.Circuit.
Import ListNotations.

(* the signal type a value is carried on *)
Inductive sty :=
| YInt                 (* compile-time integer: no signal *)
| YSig (s : sig)       (* the documents fix the signal name *)
| YFree.               (* compiler-chosen (untyped value), or the documents leave it open *)

Inductive expr :=
| EInt (z : Z)                          (* integer literal *)
| ELit (ty : option sig) (v : expr)     (* ("type", v) / untyped signal literal *)
| EVar (i : nat)                        (* the i-th declaration of the program *)
| EBin (o : aop) (a b : expr)           (* + - * / % ** << >> AND OR XOR *)
| ECmp (o : cop) (a b : expr)           (* < > == >= <= != *)
| EAnd (a b : expr)                     (* && *)
| EOr (a b : expr)                      (* || *)
| ENot (a : expr)                       (* ! *)
| ENeg (a : expr)                       (* unary minus *)
| EProj (a : expr) (s : sig)            (* a | "type"   (a | x.type is resolved by the printer) *)
| ECond (c v : expr).                   (* c : v *)

Inductive decl :=
| DIn (ty : option sig) (v : var)       (* Signal a = ("type", k);  exposed as an input: ranges over int32 *)
| DSig (e : expr)                       (* Signal x = e; *)
| DInt (e : expr).                      (* int x = e;    *)
