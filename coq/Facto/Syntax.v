(* Syntax.v -- the Facto source language as the generators produce it (specification
   side; hand written; independent of /repo's parser and AST classes). *)
From Coq Require Import ZArith List.
From FV Require Import Base.Int32 Factorio.Circuit.
Import ListNotations.

(* the signal type a value is carried on *)
Inductive sty :=
| YInt                 (* compile-time integer: no signal *)
| YSig (s : sig)       (* the documents fix the signal name *)
| YFree.               (* compiler-chosen (untyped value), or the documents leave it open *)

Inductive expr :=
| EInt (z : Z)                          (* integer literal *)
| ELit (ty : option sig) (v : expr)     (* ("type", v) / untyped signal literal *)
| EVar (i : nat)                        (* the i-th declaration of the program *)
| EBin (o : aop) (a b : expr)           (* + - * / % ** << >> AND OR XOR *)
| ECmp (o : cop) (a b : expr)           (* < > == >= <= != *)
| EAnd (a b : expr)                     (* && *)
| EOr (a b : expr)                      (* || *)
| ENot (a : expr)                       (* ! *)
| ENeg (a : expr)                       (* unary minus *)
| EProj (a : expr) (s : sig)            (* a | "type"   (a | x.type is resolved by the printer) *)
| ECond (c v : expr)                    (* c : v *)
| ESel (b : nat) (s : sig)              (* bundle["type"]  (b: the b-th declaration, a Bundle) *)
| EAny (o : cop) (b : nat) (c : expr)   (* any(bundle) CMP c *)
| EAll (o : cop) (b : nat) (c : expr).  (* all(bundle) CMP c *)

(* bundle-valued expressions *)
Inductive bexpr :=
| BLit (members : list (sig * expr))    (* { ("t1", e1), ("t2", e2), ... } *)
| BRef (i : nat)                        (* an earlier Bundle declaration *)
| BMerge (a b : bexpr)                  (* { b1, b2 }: both on one wire *)
| BArith (o : aop) (b : bexpr) (x : expr)                 (* bundle OP scalar *)
| BFilter (o : cop) (b : bexpr) (x : expr) (k : option Z) (* (bundle CMP x) : bundle   /   (bundle CMP x) : k *)
| BGate (c : expr) (b : bexpr).         (* (cond) : bundle *)

Inductive decl :=
| DIn (ty : option sig) (v : var)       (* Signal a = ("type", k);  exposed as an input: ranges over int32 *)
| DSig (e : expr)                       (* Signal x = e; *)
| DInt (e : expr)                       (* int x = e;    *)
| DBundle (b : bexpr)                   (* Bundle x = b; *)
| DSource (content : list (sig * var)). (* Entity with .output: its contents range over all values *)
