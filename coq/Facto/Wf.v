(* Facto/Wf.v -- the documented static rules of Facto as one boolean function (property C14).

   Specification model: written by hand from LANGUAGE_SPEC.md / doc/*.md and the wording of
   property C14; it is NOT derived from /repo.  A small statement / expression syntax that is
   rich enough to state every rule and every context (top level, function body, loop body, any
   nesting of these), a scoped environment, and `wf`, which answers `false` as soon as one rule
   is violated anywhere.

   Rules (the clause that implements each one is marked with its tag):
     [undef-var] [undef-func] [undef-mem] [undef-entity]   use of an undefined name
     [redef]            a second definition of a name in the same scope
     [immutable]        assignment to an immutable name
     [kind-decl]        value of the wrong kind for the declared type
     [kind-param]       argument of the wrong kind for the parameter
     [arity]            wrong number of arguments
     [recursion]        a call to a function whose body is being declared (direct / nested);
                        indirect recursion is caught by [undef-func] (declare before use)
     [dup-member]       duplicate signal type in a bundle literal
     [bundle-op-bundle] Bundle OP Bundle
     [bare-bundle-cmp]  bundle comparison that is not the condition of a filter `(b > k) : v`
     [absent-member]    selection b["t"] of a member the bundle does not have
     [unknown-signal]   signal name outside the game's signal table (parameter `known`)
     [reserved]         any use of "signal-W"
     [write-type]       write whose explicit type contradicts the cell's declared type
     [second-write]     a second write to one cell
     [zero-step]        loop step 0
     [non-cmp]          `c : v` whose `c` is not a comparison                                   *)
From Coq Require Import ZArith List Bool String.
Import ListNotations.

(* ------------------------------------------------------------------ syntax *)
Inductive kind := KInt | KSignal | KBundle | KEntity.

Inductive wexpr :=
| WInt (z : Z)                              (* 42 *)
| WVar (x : string)                         (* x *)
| WLit (ty : string) (e : wexpr)            (* ("ty", e) *)
| WProj (e : wexpr) (ty : string)           (* e | "ty" *)
| WBin (a b : wexpr)                        (* a OP b, OP arithmetic / bitwise / shift / power *)
| WCmp (a b : wexpr)                        (* a CMP b *)
| WLogic (a b : wexpr)                      (* a && b, a || b *)
| WUn (a : wexpr)                           (* -a, !a *)
| WCall (f : string) (args : list wexpr)    (* f(a1, .., an) *)
| WBundle (els : list wexpr)                (* { e1, .., en } *)
| WSel (e : wexpr) (ty : string)            (* e["ty"] *)
| WAny (e : wexpr)                          (* any(e), all(e) *)
| WRead (m : string)                        (* m.read() *)
| WOut (c v : wexpr)                        (* c : v *)
| WPlace (x y : wexpr).                     (* place("proto", x, y) *)

Inductive bound := BNum (z : Z) | BVar (x : string).
Inductive witer :=
| IRange (a b : bound) (step : option bound)   (* a..b [step s] *)
| IList (vs : list Z).                         (* [v1, .., vn] *)

Inductive wstmt :=
| SDecl (k : kind) (x : string) (e : wexpr)            (* int/Signal/Bundle/Entity x = e; *)
| SMem (x : string) (ty : option string)               (* Memory x [: "ty"]; *)
| SAssign (x : string) (e : wexpr)                     (* x = e; *)
| SEnable (ent : string) (e : wexpr)                   (* ent.prop = e; *)
| SWrite (m : string) (v : wexpr) (w : option wexpr)   (* m.write(v [, when=w]); *)
| SExpr (e : wexpr)                                    (* e; *)
| SReturn (e : wexpr)                                  (* return e; *)
| SFunc (f : string) (ps : list (kind * string)) (body : list wstmt)
| SFor (it : string) (iter : witer) (body : list wstmt).

Definition program := list wstmt.

(* ------------------------------------------------------------------ static values, environment *)
Inductive vty :=
| VInt (c : option Z)                     (* int; Some z when it is a literal (usable as a loop bound) *)
| VSig (t : option string) (cmp : bool)   (* signal; explicit type if known; is it a comparison result *)
| VBundle (ms : list string)              (* bundle with its explicitly typed members *)
| VEntity
| VVoid.

Inductive entry :=
| EVal (v : vty)                              (* variable, parameter, iterator: immutable *)
| EMem (t : option string) (written : bool)   (* memory cell *)
| EFun (ps : list kind) (ret : vty).

Definition scope := list (string * entry).
Definition env := list scope.                  (* innermost scope first *)

Definition reserved : string := "signal-W".

Definition mem_str (x : string) (l : list string) : bool := existsb (String.eqb x) l.

Fixpoint disjointb (a b : list string) : bool :=
  match a with [] => true | x :: r => negb (mem_str x b) && disjointb r b end.

Fixpoint assoc (x : string) (sc : scope) : option entry :=
  match sc with
  | [] => None
  | (y, e) :: r => if String.eqb x y then Some e else assoc x r
  end.

Fixpoint lookup (G : env) (x : string) : option entry :=
  match G with
  | [] => None
  | sc :: r => match assoc x sc with Some e => Some e | None => lookup r x end
  end.

Definition in_top (G : env) (x : string) : bool :=
  match G with
  | [] => false
  | sc :: _ => match assoc x sc with Some _ => true | None => false end
  end.

Definition bind (G : env) (x : string) (e : entry) : env :=
  match G with [] => [[(x, e)]] | sc :: r => ((x, e) :: sc) :: r end.

Fixpoint update_sc (x : string) (e : entry) (sc : scope) : scope :=
  match sc with
  | [] => []
  | (y, e0) :: r => if String.eqb x y then (y, e) :: r else (y, e0) :: update_sc x e r
  end.

(* replace the entry `lookup` finds *)
Fixpoint update (G : env) (x : string) (e : entry) : env :=
  match G with
  | [] => []
  | sc :: r => match assoc x sc with
               | Some _ => update_sc x e sc :: r
               | None => sc :: update r x e
               end
  end.

Definition scalar (v : vty) : bool := match v with VInt _ | VSig _ _ => true | _ => false end.
Definition is_bundle (v : vty) : bool := match v with VBundle _ => true | _ => false end.

(* ------------------------------------------------------------------ expressions *)
Section Expr.
Variable known : list string.   (* the game's signal table *)
Variable G : env.
Variable opn : list string.     (* functions whose body is being declared *)

(* [unknown-signal] [reserved] *)
Definition sig_ok (t : string) : bool := mem_str t known && negb (String.eqb t reserved).

(* [kind-param] *)
Definition arg_ok (k : kind) (v : vty) : bool :=
  match k with
  | KInt | KSignal => scalar v
  | KEntity => match v with VEntity => true | _ => false end
  | KBundle => false
  end.

(* [arity] [kind-param] *)
Fixpoint check_args (ps : list kind) (l : list (option vty)) : bool :=
  match ps, l with
  | [], [] => true
  | p :: ps', Some v :: l' => arg_ok p v && check_args ps' l'
  | _, _ => false
  end.

(* [dup-member] *)
Fixpoint bundle_members (l : list (option vty)) (acc : list string) : option (list string) :=
  match l with
  | [] => Some acc
  | Some (VSig (Some t) _) :: r => if mem_str t acc then None else bundle_members r (t :: acc)
  | Some (VSig None _) :: r => bundle_members r acc
  | Some (VBundle ms) :: r => if disjointb ms acc then bundle_members r (ms ++ acc) else None
  | _ => None
  end.

(* [bundle-op-bundle]; the signal type is the left operand's (LANGUAGE_SPEC "Type Precedence") *)
Definition bin_ty (a b : vty) : option vty :=
  match a, b with
  | VBundle ms, (VInt _ | VSig _ _) => Some (VBundle ms)
  | VInt _, VInt _ => Some (VInt None)
  | VSig t c, (VInt _ | VSig _ _) => Some (VSig t c)
  | VInt _, VSig t c => Some (VSig t c)
  | _, _ => None
  end.

(* [bare-bundle-cmp]: a comparison is between scalars *)
Definition cmp_ty (a b : vty) : option vty :=
  if scalar a && scalar b then Some (VSig None true) else None.

Definition logic_ty (a b : vty) : option vty :=
  match a, b with
  | VInt _, VInt _ => Some (VSig None false)
  | VInt _, VSig _ c => Some (VSig None c)
  | VSig _ c, VInt _ => Some (VSig None c)
  | VSig _ c, VSig _ d => Some (VSig None (c || d))
  | _, _ => None
  end.

Definition out_ty (v : vty) : option vty :=
  match v with
  | VInt _ => Some (VSig None false)
  | VSig t c => Some (VSig t c)
  | VBundle ms => Some (VBundle ms)
  | _ => None
  end.

(* [non-cmp]: what may stand before `:` *)
Fixpoint is_cmp_expr (c : wexpr) : bool :=
  match c with
  | WCmp _ _ => true
  | WLogic a b => is_cmp_expr a && is_cmp_expr b
  | WVar x => match lookup G x with Some (EVal (VSig _ true)) => true | _ => false end
  | _ => false
  end.

Fixpoint ty_expr (e : wexpr) : option vty :=
  match e with
  | WInt z => Some (VInt (Some z))
  | WVar x =>                                               (* [undef-var] *)
      match lookup G x with Some (EVal v) => Some v | _ => None end
  | WLit t a =>                                             (* [unknown-signal] [reserved] *)
      match ty_expr a with
      | Some v => if sig_ok t && scalar v then Some (VSig (Some t) false) else None
      | None => None
      end
  | WProj a t =>
      match ty_expr a with
      | Some v => if sig_ok t && scalar v then Some (VSig (Some t) false) else None
      | None => None
      end
  | WBin a b =>
      match ty_expr a, ty_expr b with Some x, Some y => bin_ty x y | _, _ => None end
  | WCmp a b =>
      match ty_expr a, ty_expr b with Some x, Some y => cmp_ty x y | _, _ => None end
  | WLogic a b =>
      match ty_expr a, ty_expr b with Some x, Some y => logic_ty x y | _, _ => None end
  | WUn a =>
      match ty_expr a with Some v => if scalar v then Some v else None | None => None end
  | WCall f args =>                                         (* [undef-func] [recursion] [arity] *)
      match lookup G f with
      | Some (EFun ps r) =>
          if mem_str f opn then None
          else if check_args ps (map ty_expr args) then Some r else None
      | _ => None
      end
  | WBundle els =>
      match bundle_members (map ty_expr els) [] with
      | Some ms => Some (VBundle ms)
      | None => None
      end
  | WSel a t =>                                             (* [absent-member] *)
      match ty_expr a with
      | Some (VBundle ms) => if mem_str t ms then Some (VSig (Some t) false) else None
      | _ => None
      end
  | WAny a =>
      match ty_expr a with Some (VBundle _) => Some (VSig None false) | _ => None end
  | WRead m =>                                              (* [undef-mem] *)
      match lookup G m with Some (EMem t _) => Some (VSig t false) | _ => None end
  | WOut c v =>
      match c with
      | WCmp a b =>
          match ty_expr a, ty_expr b, ty_expr v with
          | Some ta, Some tb, Some tv =>
              match ta with
              | VBundle ms =>                               (* filter (bundle CMP scalar) : out *)
                  if scalar tb && (scalar tv || is_bundle tv) then Some (VBundle ms) else None
              | _ => match cmp_ty ta tb with Some _ => out_ty tv | None => None end
              end
          | _, _, _ => None
          end
      | _ =>                                                (* [non-cmp] *)
          if is_cmp_expr c
          then match ty_expr c, ty_expr v with Some _, Some tv => out_ty tv | _, _ => None end
          else None
      end
  | WPlace x y =>
      match ty_expr x, ty_expr y with
      | Some a, Some b => if scalar a && scalar b then Some VEntity else None
      | _, _ => None
      end
  end.

End Expr.

(* ------------------------------------------------------------------ statements *)
Record state := { s_env : env; s_open : list string; s_ret : option vty }.

Definition init : state := {| s_env := [[]]; s_open := []; s_ret := None |}.

Definition with_env (st : state) (G : env) : state :=
  {| s_env := G; s_open := s_open st; s_ret := s_ret st |}.

(* [redef] *)
Definition declare (st : state) (x : string) (e : entry) : option state :=
  if in_top (s_env st) x then None else Some (with_env st (bind (s_env st) x e)).

(* [kind-decl] *)
Definition coerce (k : kind) (v : vty) : option vty :=
  match k, v with
  | KInt, VInt c => Some (VInt c)
  | KSignal, VInt _ => Some (VSig None false)
  | KSignal, VSig t c => Some (VSig t c)
  | KBundle, VBundle ms => Some (VBundle ms)
  | KEntity, VEntity => Some VEntity
  | _, _ => None
  end.

Definition erase (v : vty) : vty :=
  match v with VInt _ => VInt None | VSig _ c => VSig None c | _ => v end.

Definition param_entry (k : kind) : option entry :=
  match k with
  | KInt => Some (EVal (VInt None))
  | KSignal => Some (EVal (VSig None false))
  | KEntity => Some (EVal VEntity)
  | KBundle => None
  end.

Fixpoint bind_params (ps : list (kind * string)) (st : state) : option state :=
  match ps with
  | [] => Some st
  | (k, x) :: r =>
      match param_entry k with
      | Some e => match declare st x e with Some st' => bind_params r st' | None => None end
      | None => None
      end
  end.

Definition eval_bound (G : env) (b : bound) : option Z :=
  match b with
  | BNum z => Some z
  | BVar x => match lookup G x with Some (EVal (VInt (Some z))) => Some z | _ => None end
  end.

(* Some two  <->  the header is legal; two = the loop has at least two iterations *)
Definition iter_info (G : env) (it : witer) : option bool :=
  match it with
  | IList vs => Some (match vs with _ :: _ :: _ => true | _ => false end)
  | IRange a b s =>
      match eval_bound G a, eval_bound G b with
      | Some x, Some y =>
          match s with
          | None => Some (Z.ltb (x + 1) y)           (* documented default step: 1 *)
          | Some sb =>
              match eval_bound G sb with
              | Some z =>
                  if Z.eqb z 0 then None                        (* [zero-step] *)
                  else Some (if Z.ltb 0 z then Z.ltb (x + z) y else Z.ltb y (x + z))
              | None => None
              end
          end
      | _, _ => None
      end
  end.

(* the state in which a function body is checked: the function is declared (so that its own
   name is taken), marked open, and the parameters live in a fresh scope *)
Definition enter_func (st : state) (f : string) (ps : list (kind * string)) : option state :=
  match declare st f (EFun (map fst ps) VVoid) with
  | Some st1 =>
      bind_params ps {| s_env := [] :: s_env st1; s_open := f :: s_open st1; s_ret := None |}
  | None => None
  end.

Definition leave_func (st st_out : state) (f : string) (ps : list (kind * string)) : state :=
  let r := match s_ret st_out with Some v => v | None => VVoid end in
  with_env st (update (tl (s_env st_out)) f (EFun (map fst ps) r)).

(* the state in which a loop body is checked: the iterator is an int in a fresh scope *)
Definition enter_for (st : state) (G : env) (it : string) : state :=
  with_env st ([(it, EVal (VInt None))] :: G).

Definition seq {A : Type} (f : state -> A -> option state) : list A -> state -> option state :=
  fix go (l : list A) (st : state) : option state :=
    match l with
    | [] => Some st
    | s :: r => match f st s with Some st' => go r st' | None => None end
    end.

Section Stmt.
Variable known : list string.

Definition ty (st : state) (e : wexpr) : option vty := ty_expr known (s_env st) (s_open st) e.

Fixpoint check_stmt (st : state) (s : wstmt) {struct s} : option state :=
  match s with
  | SDecl k x e =>
      match ty st e with
      | Some v => match coerce k v with
                  | Some v' => declare st x (EVal v')
                  | None => None
                  end
      | None => None
      end
  | SMem x t =>
      if match t with Some n => sig_ok known n | None => true end
      then declare st x (EMem t false) else None
  | SAssign x e =>                                          (* [immutable] *)
      match lookup (s_env st) x with
      | Some (EMem _ _) | Some (EVal VEntity) =>
          match ty st e with Some _ => Some st | None => None end
      | _ => None
      end
  | SEnable ent e =>                                        (* [undef-entity] *)
      match lookup (s_env st) ent with
      | Some (EVal VEntity) =>
          match ty st e with
          | Some v => if scalar v then Some st else None
          | None => None
          end
      | _ => None
      end
  | SWrite m v w =>                                         (* [undef-mem] [second-write] [write-type] *)
      match lookup (s_env st) m with
      | Some (EMem t false) =>
          match ty st v with
          | Some tv =>
              let wok := match w with
                         | None => true
                         | Some we => match ty st we with Some tw => scalar tw | None => false end
                         end in
              let tok := match t, tv with
                         | Some t0, VSig (Some t1) _ => String.eqb t0 t1
                         | _, _ => true
                         end in
              let t' := match t, tv with
                        | None, VSig (Some t1) _ => Some t1
                        | _, _ => t
                        end in
              if scalar tv && wok && tok
              then Some (with_env st (update (s_env st) m (EMem t' true)))
              else None
          | None => None
          end
      | _ => None
      end
  | SExpr e => match ty st e with Some _ => Some st | None => None end
  | SReturn e =>
      match ty st e with
      | Some v => Some {| s_env := s_env st; s_open := s_open st;
                          s_ret := match s_ret st with Some r => Some r | None => Some (erase v) end |}
      | None => None
      end
  | SFunc f ps body =>
      match enter_func st f ps with
      | Some st_in =>
          match seq check_stmt body st_in with
          | Some st_out => Some (leave_func st st_out f ps)
          | None => None
          end
      | None => None
      end
  | SFor it iter body =>
      match iter_info (s_env st) iter with
      | Some two =>
          match seq check_stmt body (enter_for st (s_env st) it) with
          | Some st1 =>
              if two
              then (* a second iteration sees the writes of the first *)
                   match seq check_stmt body (enter_for st (tl (s_env st1)) it) with
                   | Some st2 => Some (with_env st (tl (s_env st2)))
                   | None => None
                   end
              else Some (with_env st (tl (s_env st1)))
          | None => None
          end
      | None => None
      end
  end.

Definition check_stmts (st : state) (l : list wstmt) : option state := seq check_stmt l st.

Definition wf (p : program) : bool :=
  match check_stmts init p with Some _ => true | None => false end.

(* ------------------------------------------------------------------ contexts *)
(* A context is a program with a hole at a statement position, inside any nesting of function
   and loop bodies: a list of layers from the outside in (statements before, the enclosing
   function / loop header, statements after), then the statements before and after the hole. *)
Inductive frame :=
| FFunc (f : string) (ps : list (kind * string))
| FFor (it : string) (iter : witer).

Record layer := { l_pre : list wstmt; l_frame : frame; l_post : list wstmt }.
Record ctx := { c_layers : list layer; c_pre : list wstmt; c_post : list wstmt }.

Definition wrap (fr : frame) (body : list wstmt) : wstmt :=
  match fr with FFunc f ps => SFunc f ps body | FFor it iter => SFor it iter body end.

Fixpoint plug_layers (ls : list layer) (inner : list wstmt) : list wstmt :=
  match ls with
  | [] => inner
  | l :: ls' => l_pre l ++ wrap (l_frame l) (plug_layers ls' inner) :: l_post l
  end.

Definition plug (c : ctx) (s : wstmt) : program :=
  plug_layers (c_layers c) (c_pre c ++ s :: c_post c).

(* the state the checker is in when it enters the body of a frame *)
Definition enter (st : state) (fr : frame) : option state :=
  match fr with
  | FFunc f ps => enter_func st f ps
  | FFor it iter =>
      match iter_info (s_env st) iter with
      | Some _ => Some (enter_for st (s_env st) it)
      | None => None
      end
  end.

Fixpoint layers_state (ls : list layer) (st : state) : option state :=
  match ls with
  | [] => Some st
  | l :: ls' =>
      match check_stmts st (l_pre l) with
      | Some st1 => match enter st1 (l_frame l) with
                    | Some st2 => layers_state ls' st2
                    | None => None
                    end
      | None => None
      end
  end.

(* the environment the context provides at the hole (None: the context itself is ill-formed
   before the hole is reached) *)
Definition ctx_state (c : ctx) : option state :=
  match layers_state (c_layers c) init with
  | Some st => check_stmts st (c_pre c)
  | None => None
  end.

End Stmt.
