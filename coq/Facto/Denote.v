(* Denote.v -- what a stateless Facto program means (specification side).  Written over
   the same abstract value algebra as the circuit semantics, so that the concrete meaning
   (alg = zalg env) and the symbolic one (alg = talg) are the same function and
   [den_hom] relates them for every valuation.
   Documented operator meanings (LANGUAGE_SPEC): wrap-around int32 arithmetic, division
   truncating toward zero, remainder with the sign of the dividend, zero on division by
   zero; comparisons yield 1/0; && || ! treat non-zero as true and yield 1/0; unary minus
   is 0 - x; `c : v` is v when c is non-zero and 0 otherwise; projection keeps the value. *)
From Coq Require Import ZArith List Bool.
From FV Require Import Base.Int32 Factorio.Circuit Valid.Hom Facto.Syntax.
Import ListNotations.

Section Den.
Context {V : Type} (A : alg V).
Variable U : list sig.                 (* the signal universe of the program *)

(* a bundle is the map of its members as on a wire: a signal map, absent = 0 *)
Definition bvals_t := list (smap V).

Fixpoint den (vals : list V) (bvals : bvals_t) (e : expr) : V :=
  match e with
  | EInt z => a_const A z
  | ELit _ v => den vals bvals v
  | EVar i => nth i vals (a_const A 0)
  | EBin o a b => a_arith A o (den vals bvals a) (den vals bvals b)
  | ECmp o a b => a_cmp A o (den vals bvals a) (den vals bvals b)
  | EAnd a b => a_and A (den vals bvals a) (den vals bvals b)
  | EOr a b => a_or A (den vals bvals a) (den vals bvals b)
  | ENot a => a_not A (den vals bvals a)
  | ENeg a => a_arith A Sub (a_const A 0) (den vals bvals a)
  | EProj a _ => den vals bvals a
  | ECond c v => a_ite A (den vals bvals c) (den vals bvals v) (a_const A 0)
  | ESel b s => get A (nth b bvals []) s
  | EAny o b c =>
      let m := nth b bvals [] in let x := den vals bvals c in
      any_of A (map (fun s => let v := get A m s in a_and A v (a_cmp A o v x)) U)
  | EAll o b c =>
      let m := nth b bvals [] in let x := den vals bvals c in
      all_of A (map (fun s => let v := get A m s in a_or A (a_not A v) (a_cmp A o v x)) U)
  end.

(* bundles: member-wise, over the non-zero members only (a zero member is absent) *)
Fixpoint bden (vals : list V) (bvals : bvals_t) (b : bexpr) : smap V :=
  match b with
  | BLit ms => map (fun se => (fst se, den vals bvals (snd se))) ms
  | BRef i => nth i bvals []
  | BMerge a b' => bden vals bvals a ++ bden vals bvals b'
  | BArith o b' x =>
      let m := bden vals bvals b' in let xv := den vals bvals x in
      map (fun s => let v := get A m s in (s, a_ite A v (a_arith A o v xv) (a_const A 0))) U
  | BFilter o b' x k =>
      let m := bden vals bvals b' in let xv := den vals bvals x in
      map (fun s => let v := get A m s in
                    (s, a_ite A (a_and A v (a_cmp A o v xv))
                              (match k with None => v | Some z => a_const A z end) (a_const A 0))) U
  | BGate c b' =>
      let m := bden vals bvals b' in let cv := den vals bvals c in
      map (fun s => (s, a_ite A cv (get A m s) (a_const A 0))) U
  end.


(* every declaration has a scalar slot and a bundle slot (the unused one is 0 / empty), so that
   declaration numbers index both lists *)
Definition den_decl (vals : list V) (bvals : bvals_t) (d : decl) : V * smap V :=
  match d with
  | DIn _ v => (a_var A v, [])
  | DSig e => (den vals bvals e, [])
  | DInt e => (den vals bvals e, [])
  | DBundle b => (a_const A 0, bden vals bvals b)
  | DSource c => (a_const A 0, map (fun sv => (fst sv, a_var A (snd sv))) c)
  end.

Fixpoint den_all_aux (vals : list V) (bvals : bvals_t) (ds : list decl) : list V * bvals_t :=
  match ds with
  | [] => (vals, bvals)
  | d :: ds' => let '(v, m) := den_decl vals bvals d in den_all_aux (vals ++ [v]) (bvals ++ [m]) ds'
  end.
Definition den_all (ds : list decl) : list V * bvals_t := den_all_aux [] [] ds.

(* values of all declarations, in program order; a declaration sees the earlier ones *)
Definition den_prog (ds : list decl) : list V := fst (den_all ds).
Definition bden_prog (ds : list decl) : bvals_t := snd (den_all ds).

End Den.

(* ---- signal types the language rules assign *)
Fixpoint ety (tys : list sty) (e : expr) : sty :=
  match e with
  | EInt _ => YInt
  | ELit (Some s) _ => YSig s
  | ELit None _ => YFree
  | EVar i => nth i tys YFree
  | EBin _ a b => match ety tys a with YInt => ety tys b | t => t end     (* left operand wins *)
  | ECmp _ a b | EAnd a b | EOr a b =>
      match ety tys a, ety tys b with YInt, YInt => YInt | _, _ => YFree end
  | ENot a => match ety tys a with YInt => YInt | _ => YFree end
  | ENeg a => ety tys a
  | EProj _ s => YSig s
  | ECond _ v => match ety tys v with YInt => YFree | t => t end
  | ESel _ s => YSig s
  | EAny _ _ _ | EAll _ _ _ => YFree
  end.

Definition ety_decl (tys : list sty) (d : decl) : sty :=
  match d with
  | DIn (Some s) _ => YSig s
  | DIn None _ => YFree
  | DSig e => match ety tys e with YInt => YFree | t => t end   (* an int stored in a Signal is untyped *)
  | DInt _ => YInt
  | DBundle _ | DSource _ => YFree
  end.

Fixpoint ety_prog_aux (tys : list sty) (ds : list decl) : list sty :=
  match ds with
  | [] => tys
  | d :: ds' => ety_prog_aux (tys ++ [ety_decl tys d]) ds'
  end.
Definition ety_prog (ds : list decl) : list sty := ety_prog_aux [] ds.

(* ---- the two instances agree under every valuation *)
Section DenHom.
Context {V W : Type} (A : alg V) (B : alg W) (h : V -> W) (H : is_hom A B h).
Variable U : list sig.
Notation hmm := (hm h).

Lemma nth_hm i (bvals : list (smap V)) : hmm (nth i bvals []) = nth i (map hmm bvals) [].
Proof. change (@nil (sig * W)) with (hmm []). symmetry. apply map_nth. Qed.

Lemma den_hom vals bvals e : h (den A U vals bvals e) = den B U (map h vals) (map hmm bvals) e.
Proof.
  induction e; cbn [den];
    rewrite ?(h_const A B h H), ?(h_arith A B h H), ?(h_cmp A B h H), ?(h_and A B h H),
            ?(h_or A B h H), ?(h_not A B h H), ?(h_ite A B h H), ?(h_const A B h H);
    try congruence.
  - rewrite <- (h_const A B h H). symmetry. apply map_nth.
  - rewrite (get_hom A B h H), nth_hm. reflexivity.
  - cbv zeta. rewrite (any_of_hom A B h H), map_map. f_equal. apply map_ext. intros s.
    rewrite (h_and A B h H), (h_cmp A B h H), (get_hom A B h H), nth_hm, IHe. reflexivity.
  - cbv zeta. rewrite (all_of_hom A B h H), map_map. f_equal. apply map_ext. intros s.
    rewrite (h_or A B h H), (h_not A B h H), (h_cmp A B h H), (get_hom A B h H), nth_hm, IHe. reflexivity.
Qed.

Lemma bden_hom vals bvals b : hmm (bden A U vals bvals b) = bden B U (map h vals) (map hmm bvals) b.
Proof.
  induction b; cbn [bden].
  - unfold hm. rewrite map_map. apply map_ext. intros [s e]. cbn [fst snd]. rewrite den_hom. reflexivity.
  - apply nth_hm.
  - rewrite hm_app, IHb1, IHb2. reflexivity.
  - cbv zeta. unfold hm at 1. rewrite map_map. apply map_ext. intros s. cbn [fst snd].
    rewrite (h_ite A B h H), (h_arith A B h H), (h_const A B h H), (get_hom A B h H), IHb, den_hom. reflexivity.
  - cbv zeta. unfold hm at 1. rewrite map_map. apply map_ext. intros s. cbn [fst snd].
    rewrite (h_ite A B h H), (h_and A B h H), (h_cmp A B h H), (h_const A B h H), (get_hom A B h H), IHb, den_hom.
    destruct k; [rewrite (h_const A B h H) | rewrite (get_hom A B h H), IHb]; reflexivity.
  - cbv zeta. unfold hm at 1. rewrite map_map. apply map_ext. intros s. cbn [fst snd].
    rewrite (h_ite A B h H), (h_const A B h H), (get_hom A B h H), IHb, den_hom. reflexivity.
Qed.

Lemma den_decl_hom vals bvals d :
  (h (fst (den_decl A U vals bvals d)), hmm (snd (den_decl A U vals bvals d)))
  = den_decl B U (map h vals) (map hmm bvals) d.
Proof.
  destruct d; cbn [den_decl fst snd].
  - rewrite (h_var A B h H). reflexivity.
  - rewrite den_hom. reflexivity.
  - rewrite den_hom. reflexivity.
  - rewrite (h_const A B h H), bden_hom. reflexivity.
  - rewrite (h_const A B h H). f_equal. unfold hm. rewrite map_map. apply map_ext.
    intros [s v]. cbn [fst snd]. rewrite (h_var A B h H). reflexivity.
Qed.

Lemma den_all_aux_hom ds : forall vals bvals,
  (map h (fst (den_all_aux A U vals bvals ds)), map hmm (snd (den_all_aux A U vals bvals ds)))
  = den_all_aux B U (map h vals) (map hmm bvals) ds.
Proof.
  induction ds as [|d ds IH]; intros vals bvals; cbn [den_all_aux]; [reflexivity|].
  pose proof (den_decl_hom vals bvals d) as E.
  destruct (den_decl A U vals bvals d) as [v m]. destruct (den_decl B U (map h vals) (map hmm bvals) d) as [v' m'].
  cbn [fst snd] in E. inversion E; subst.
  rewrite IH, !map_app. reflexivity.
Qed.

Theorem den_prog_hom ds : map h (den_prog A U ds) = den_prog B U ds.
Proof. unfold den_prog, den_all. pose proof (den_all_aux_hom ds [] []) as E. apply (f_equal fst) in E. exact E. Qed.

Theorem bden_prog_hom ds : map hmm (bden_prog A U ds) = bden_prog B U ds.
Proof. unfold bden_prog, den_all. pose proof (den_all_aux_hom ds [] []) as E. apply (f_equal snd) in E. exact E. Qed.
End DenHom.
