(* Denote.v -- what a stateless Facto program means (specification side).  Written over
   the same abstract value algebra as the circuit semantics, so that the concrete meaning
   (alg = zalg env) and the symbolic one (alg = talg) are the same function and
   [den_hom] relates them for every valuation.
   Documented operator meanings (LANGUAGE_SPEC): wrap-around int32 arithmetic, division
   truncating toward zero, remainder with the sign of the dividend, zero on division by
   zero; comparisons yield 1/0; && || ! treat non-zero as true and yield 1/0; unary minus
   is 0 - x; `c : v` is v when c is non-zero and 0 otherwise; projection keeps the value. *)
From Coq Require Import ZArith List Bool.
From FV Require Import Base.Int32 Factorio.Circuit Valid.Hom Facto.Syntax.
Import ListNotations.

Section Den.
Context {V : Type} (A : alg V).

Fixpoint den (vals : list V) (e : expr) : V :=
  match e with
  | EInt z => a_const A z
  | ELit _ v => den vals v
  | EVar i => nth i vals (a_const A 0)
  | EBin o a b => a_arith A o (den vals a) (den vals b)
  | ECmp o a b => a_cmp A o (den vals a) (den vals b)
  | EAnd a b => a_and A (den vals a) (den vals b)
  | EOr a b => a_or A (den vals a) (den vals b)
  | ENot a => a_not A (den vals a)
  | ENeg a => a_arith A Sub (a_const A 0) (den vals a)
  | EProj a _ => den vals a
  | ECond c v => a_ite A (den vals c) (den vals v) (a_const A 0)
  end.

Definition den_decl (vals : list V) (d : decl) : V :=
  match d with
  | DIn _ v => a_var A v
  | DSig e => den vals e
  | DInt e => den vals e
  end.

(* values of all declarations, in program order; a declaration sees the earlier ones *)
Fixpoint den_prog_aux (vals : list V) (ds : list decl) : list V :=
  match ds with
  | [] => vals
  | d :: ds' => den_prog_aux (vals ++ [den_decl vals d]) ds'
  end.
Definition den_prog (ds : list decl) : list V := den_prog_aux [] ds.

End Den.

(* ---- signal types the language rules assign *)
Fixpoint ety (tys : list sty) (e : expr) : sty :=
  match e with
  | EInt _ => YInt
  | ELit (Some s) _ => YSig s
  | ELit None _ => YFree
  | EVar i => nth i tys YFree
  | EBin _ a b => match ety tys a with YInt => ety tys b | t => t end     (* left operand wins *)
  | ECmp _ a b | EAnd a b | EOr a b =>
      match ety tys a, ety tys b with YInt, YInt => YInt | _, _ => YFree end
  | ENot a => match ety tys a with YInt => YInt | _ => YFree end
  | ENeg a => ety tys a
  | EProj _ s => YSig s
  | ECond _ v => match ety tys v with YInt => YFree | t => t end
  end.

Definition ety_decl (tys : list sty) (d : decl) : sty :=
  match d with
  | DIn (Some s) _ => YSig s
  | DIn None _ => YFree
  | DSig e => match ety tys e with YInt => YFree | t => t end   (* an int stored in a Signal is untyped *)
  | DInt _ => YInt
  end.

Fixpoint ety_prog_aux (tys : list sty) (ds : list decl) : list sty :=
  match ds with
  | [] => tys
  | d :: ds' => ety_prog_aux (tys ++ [ety_decl tys d]) ds'
  end.
Definition ety_prog (ds : list decl) : list sty := ety_prog_aux [] ds.

(* ---- the two instances agree under every valuation *)
Section DenHom.
Context {V W : Type} (A : alg V) (B : alg W) (h : V -> W) (H : is_hom A B h).

Lemma den_hom vals e : h (den A vals e) = den B (map h vals) e.
Proof.
  induction e; cbn [den];
    rewrite ?(h_const A B h H), ?(h_arith A B h H), ?(h_cmp A B h H), ?(h_and A B h H),
            ?(h_or A B h H), ?(h_not A B h H), ?(h_ite A B h H), ?(h_const A B h H);
    try congruence.
  - rewrite <- (h_const A B h H). symmetry. apply map_nth.
Qed.

Lemma den_decl_hom vals d : h (den_decl A vals d) = den_decl B (map h vals) d.
Proof. destruct d; cbn [den_decl]; [apply (h_var A B h H) | apply den_hom | apply den_hom]. Qed.

Lemma den_prog_aux_hom ds : forall vals,
  map h (den_prog_aux A vals ds) = den_prog_aux B (map h vals) ds.
Proof.
  induction ds as [|d ds IH]; intros vals; cbn [den_prog_aux]; [reflexivity|].
  rewrite IH, map_app. cbn [map]. rewrite den_decl_hom. reflexivity.
Qed.

Theorem den_prog_hom ds : map h (den_prog A ds) = den_prog B ds.
Proof. apply den_prog_aux_hom. Qed.
End DenHom.
