(* LibCall.v -- what a library function means on concrete arguments (specification side; hand
   written).  A function `func f(p0, .., p(n-1)) { locals; return ret; }` is given as the list of
   its local declarations and its return expression, parameters being EVar 0 .. n-1 and the j-th
   local EVar (n+j) -- exactly the shape of a flat program whose first n declarations are the
   arguments (Facto/Denote.v: a declaration sees the earlier ones).  Its value on the argument
   list [args] is the documented meaning [den] of the return expression over the concrete value
   algebra [zalg]; no program input is read (env0 is never consulted: locals contain no DIn). *)
From Coq Require Import ZArith List.
From FV Require Import Base.Int32 Factorio.Circuit Facto.Syntax Facto.Denote.
Import ListNotations.
Open Scope Z_scope.

Definition env0 : var -> Z := fun _ => 0.

(* library functions are scalar: no bundle slots, empty signal universe *)
Fixpoint den_prog_aux (vals : list Z) (ds : list decl) : list Z :=
  match ds with
  | [] => vals
  | d :: ds' => den_prog_aux (vals ++ [fst (den_decl (zalg env0) [] vals [] d)]) ds'
  end.

Definition call_vals (locals : list decl) (args : list Z) : list Z :=
  den_prog_aux args locals.

Definition call_den (locals : list decl) (ret : expr) (args : list Z) : Z :=
  den (zalg env0) [] (call_vals locals args) [] ret.
