(* IO.v -- which names of a flat program are its outputs (C20): top-level Signal declarations
   that no other declaration mentions.  Specification side. *)
From Coq Require Import ZArith List Bool Arith Lia.
From FV Require Import Base.Int32 Factorio.Circuit Facto.Syntax.
Import ListNotations.
Open Scope nat_scope.

Fixpoint mentions (e : expr) (i : nat) : bool :=
  match e with
  | EInt _ => false
  | ELit _ v => mentions v i
  | EVar j => Nat.eqb j i
  | EBin _ a b | ECmp _ a b | EAnd a b | EOr a b | ECond a b => mentions a i || mentions b i
  | ENot a | ENeg a | EProj a _ => mentions a i
  | ESel b _ => Nat.eqb b i
  | EAny _ b c | EAll _ b c => Nat.eqb b i || mentions c i
  end.

Fixpoint bmentions (b : bexpr) (i : nat) : bool :=
  match b with
  | BLit ms => existsb (fun se => mentions (snd se) i) ms
  | BRef j => Nat.eqb j i
  | BMerge a c => bmentions a i || bmentions c i
  | BArith _ a x | BFilter _ a x _ => bmentions a i || mentions x i
  | BGate c a => mentions c i || bmentions a i
  end.

Definition decl_mentions (d : decl) (i : nat) : bool :=
  match d with DIn _ _ | DSource _ => false | DSig e | DInt e => mentions e i | DBundle b => bmentions b i end.

Definition is_sig_decl (d : decl) : bool := match d with DInt _ | DSource _ => false | _ => true end.

(* is the value of e a compile-time constant (no input, no signal variable)? *)
Fixpoint const_expr (ds : list decl) (fuel : nat) (e : expr) : bool :=
  match fuel with
  | O => false
  | S f =>
    match e with
    | EInt _ => true
    | ELit _ v => const_expr ds f v
    | EVar j => match nth_error ds j with
                | Some (DInt _) => true
                | Some (DSig e') => const_expr ds f e'
                | _ => false
                end
    | EBin _ a b | ECmp _ a b | EAnd a b | EOr a b | ECond a b => const_expr ds f a && const_expr ds f b
    | ENot a | ENeg a | EProj a _ => const_expr ds f a
    | ESel _ _ | EAny _ _ _ | EAll _ _ _ => false
    end
  end.

Definition consumed (ds : list decl) (i : nat) : bool := existsb (fun d => decl_mentions d i) ds.

(* outputs: signal declarations nobody mentions *)
Definition outputs (ds : list decl) : list nat :=
  filter (fun i => match nth_error ds i with
                   | Some d => is_sig_decl d && negb (consumed ds i)
                   | None => false
                   end) (seq 0 (length ds)).

Theorem outputs_spec ds i :
  In i (outputs ds) <->
  exists d, nth_error ds i = Some d /\ is_sig_decl d = true /\
            forall d', In d' ds -> decl_mentions d' i = false.
Proof.
  unfold outputs. rewrite filter_In, in_seq. split.
  - intros [[_ Hi] H]. destruct (nth_error ds i) as [d|] eqn:E; [|discriminate].
    apply andb_true_iff in H as [H1 H2]. exists d. split; [reflexivity|]. split; [exact H1|].
    apply negb_true_iff in H2. unfold consumed in H2.
    intros d' Hd'. destruct (decl_mentions d' i) eqn:M; [|reflexivity].
    assert (existsb (fun d0 => decl_mentions d0 i) ds = true) by (apply existsb_exists; eauto).
    congruence.
  - intros (d & E & H1 & H2). split.
    + split; [lia|]. cbn. apply nth_error_Some. congruence.
    + rewrite E, H1. cbn. apply negb_true_iff. unfold consumed.
      destruct (existsb _ ds) eqn:X; [|reflexivity].
      apply existsb_exists in X as (d' & Hd' & M). rewrite (H2 d' Hd') in M. discriminate.
Qed.

(* the anchor bookkeeping of a blueprint: [anchors] = declaration numbers carried by the
   "(output anchor)" combinators found.  Every output whose producer is not a constant needs
   exactly one; no declaration may have two. *)
Definition count_nat (i : nat) (l : list nat) : nat := length (filter (Nat.eqb i) l).

Definition needs_anchor (ds : list decl) (i : nat) : bool :=
  match nth_error ds i with
  | Some (DSig e) => negb (const_expr ds (S (length ds)) e)
  | _ => false
  end.

Definition check_c20 (ds : list decl) (anchors : list nat) : bool :=
  forallb (fun i => if needs_anchor ds i then Nat.eqb (count_nat i anchors) 1 else true) (outputs ds)
  && forallb (fun i => Nat.leb (count_nat i anchors) 1) anchors.

Theorem check_c20_sound ds anchors :
  check_c20 ds anchors = true ->
  (forall i, In i (outputs ds) -> needs_anchor ds i = true -> count_nat i anchors = 1) /\
  (forall i, count_nat i anchors <= 1).
Proof.
  unfold check_c20. intros H. apply andb_true_iff in H as [H1 H2]. split.
  - intros i Hi Hn. rewrite forallb_forall in H1. specialize (H1 i Hi). rewrite Hn in H1.
    apply Nat.eqb_eq, H1.
  - intros i. destruct (in_dec Nat.eq_dec i anchors) as [I|N].
    + rewrite forallb_forall in H2. apply Nat.leb_le, H2, I.
    + unfold count_nat. clear H1 H2.
      assert (E : filter (Nat.eqb i) anchors = []).
      { induction anchors as [|a l IH]; [reflexivity|]. cbn.
        destruct (Nat.eqb_spec i a) as [->|Ne]; [exfalso; apply N; left; reflexivity|].
        apply IH. intros I. apply N. right. exact I. }
      rewrite E. cbn. lia.
Qed.
