(* CheckC01.v -- verified validator for C01: the blueprint the compiler emitted for a
   stateless scalar program computes, on every declared output, the value the source
   denotes -- for every int32 valuation of the declared inputs, from some tick on. *)
From Coq Require Import ZArith List Bool PArith NArith Lia.
From FV Require Import Base.Int32 Factorio.Circuit Valid.Hom Valid.Term Valid.SymExec
                       Facto.Syntax Facto.Denote.
Import ListNotations.
Open Scope Z_scope.

(* an output of the program: declaration number, the anchor's two networks, and the signal
   the compiler says it put the value on (used only where the documents leave the type open) *)
Record out_req := { q_decl : nat; q_rn : N; q_gn : N; q_csig : sig }.

Definition exp_sig (tys : list sty) (q : out_req) : sig :=
  match nth (q_decl q) tys YFree with YSig s => s | _ => q_csig q end.

Definition q_obs (ds : list decl) (q : out_req) : obs :=
  {| o_rn := q_rn q; o_gn := q_gn q; o_sig := exp_sig (ety_prog ds) q |}.

Definition c01_outs (U : list sig) (ds : list decl) (qs : list out_req) : list (obs * term) :=
  let vals := den_prog talg U ds in
  map (fun q => (q_obs ds q, nth (q_decl q) vals (TC 0))) qs.

Definition check_c01 (b : bp) (fuel : nat) (ds : list decl) (qs : list out_req) : option nat :=
  check_settled b fuel (c01_outs (b_univ b) ds qs).

Definition ok {X} (o : option X) : bool := match o with Some _ => true | None => false end.

Theorem check_c01_sound b fuel ds qs k :
  check_c01 b fuel ds qs = Some k ->
  forall (env : var -> Z) (t : nat), (k < t)%nat ->
  forall q, In q qs ->
    observe (zalg env) b (run (zalg env) b t) (q_obs ds q)
    = nth (q_decl q) (den_prog (zalg env) (b_univ b) ds) 0.
Proof.
  intros Hc env t Ht q Hq. unfold check_c01 in Hc.
  rewrite (check_settled_sound env b fuel _ k Hc t Ht (q_obs ds q)
             (nth (q_decl q) (den_prog talg (b_univ b) ds) (TC 0))).
  - rewrite <- (den_prog_hom talg (zalg env) (eval env) (talg_hom env)).
    symmetry. apply (map_nth (eval env) (den_prog talg (b_univ b) ds) (TC 0)).
  - unfold c01_outs. apply in_map_iff. exists q. split; [reflexivity | exact Hq].
Qed.

(* ---- programs with circuit-controlled entities (C06): entity number [r_ent] of the blueprint
   must be enabled exactly when the assigned expression is positive *)
Record ent_req := { r_ent : nat; r_expr : expr }.

Definition enable_term {V} (A : alg V) (U : list sig) (ds : list decl) (e : expr) : V :=
  a_cmp A CGt (den A U (den_prog A U ds) (bden_prog A U ds) e) (a_const A 0).

Definition prog_pcs (U : list sig) (ds : list decl) (rs : list ent_req) : list (nat * term) :=
  map (fun r => (r_ent r, enable_term talg U ds (r_expr r))) rs.

(* bundle-valued outputs: the WHOLE signal map of the anchor network, over the universe *)
Record bout_req := { bq_decl : nat; bq_rn : N; bq_gn : N }.
Definition bundle_outs (U : list sig) (ds : list decl) (bqs : list bout_req) : list (obs * term) :=
  flat_map (fun q => map (fun s => ({| o_rn := bq_rn q; o_gn := bq_gn q; o_sig := s |},
                                    get talg (nth (bq_decl q) (bden_prog talg U ds) []) s)) U) bqs.

Definition check_prog (b : bp) (fuel : nat) (ds : list decl) (qs : list out_req) (rs : list ent_req)
  : option nat :=
  check_settled2 b fuel (c01_outs (b_univ b) ds qs) (prog_pcs (b_univ b) ds rs).

Definition check_progb (b : bp) (fuel : nat) (ds : list decl) (qs : list out_req) (rs : list ent_req)
           (bqs : list bout_req) : option nat :=
  check_settled2 b fuel (c01_outs (b_univ b) ds qs ++ bundle_outs (b_univ b) ds bqs) (prog_pcs (b_univ b) ds rs).

Theorem check_prog_sound b fuel ds qs rs k :
  check_prog b fuel ds qs rs = Some k ->
  forall (env : var -> Z) (t : nat), (k < t)%nat ->
  (forall q, In q qs ->
     observe (zalg env) b (run (zalg env) b t) (q_obs ds q) = nth (q_decl q) (den_prog (zalg env) (b_univ b) ds) 0) /\
  (forall r, In r rs ->
     pcond (zalg env) b (run (zalg env) b t) (r_ent r)
     = Some (b2z (den (zalg env) (b_univ b) (den_prog (zalg env) (b_univ b) ds) (bden_prog (zalg env) (b_univ b) ds) (r_expr r) >? 0))).
Proof.
  intros Hc env t Ht. unfold check_prog in Hc.
  destruct (check_settled2_sound env b fuel _ _ k Hc t Ht) as [H1 H2]. split.
  - intros q Hq.
    rewrite (H1 (q_obs ds q) (nth (q_decl q) (den_prog talg (b_univ b) ds) (TC 0))).
    + rewrite <- (den_prog_hom talg (zalg env) (eval env) (talg_hom env)).
      symmetry. apply (map_nth (eval env) (den_prog talg (b_univ b) ds) (TC 0)).
    + unfold c01_outs. apply in_map_iff. exists q. split; [reflexivity | exact Hq].
  - intros r Hr.
    rewrite (H2 (r_ent r) (enable_term talg (b_univ b) ds (r_expr r))).
    + unfold enable_term. f_equal.
      rewrite (h_cmp talg (zalg env) (eval env) (talg_hom env)), (h_const talg (zalg env) (eval env) (talg_hom env)),
              (den_hom talg (zalg env) (eval env) (talg_hom env)),
              (den_prog_hom talg (zalg env) (eval env) (talg_hom env)),
              (bden_prog_hom talg (zalg env) (eval env) (talg_hom env)).
      reflexivity.
    + unfold prog_pcs. apply in_map_iff. exists r. split; [reflexivity | exact Hr].
Qed.

(* bundles: every signal of the universe on the anchor network carries the member's value (0 for a
   non-member: nothing leaks), for all inputs *)
Theorem check_progb_sound b fuel ds qs rs bqs k :
  check_progb b fuel ds qs rs bqs = Some k ->
  forall (env : var -> Z) (t : nat), (k < t)%nat ->
  forall q, In q bqs -> forall s, In s (b_univ b) ->
    observe (zalg env) b (run (zalg env) b t) {| o_rn := bq_rn q; o_gn := bq_gn q; o_sig := s |}
    = get (zalg env) (nth (bq_decl q) (bden_prog (zalg env) (b_univ b) ds) []) s.
Proof.
  intros Hc env t Ht q Hq s Hs. unfold check_progb in Hc.
  destruct (check_settled2_sound env b fuel _ _ k Hc t Ht) as [H1 _].
  rewrite (H1 _ (get talg (nth (bq_decl q) (bden_prog talg (b_univ b) ds) []) s)).
  - rewrite (get_hom talg (zalg env) (eval env) (talg_hom env)).
    rewrite <- (bden_prog_hom talg (zalg env) (eval env) (talg_hom env)).
    f_equal. change (@nil (sig * Z)) with (hm (eval env) []). symmetry. apply map_nth.
  - apply in_or_app. right. unfold bundle_outs. apply in_flat_map. exists q. split; [exact Hq|].
    apply in_map_iff. exists s. split; [reflexivity | exact Hs].
Qed.

(* ---- diagnostics for a failing case (not part of any proof) *)
Definition debug_c01 (b : bp) (fuel : nat) (ds : list decl) (qs : list out_req)
  : option (nat * list (nat * term * term)) :=
  match find_fix b fuel (init b) O with
  | None => None
  | Some (k, st) =>
      Some (k, map (fun q => (q_decl q, observe talg b st (q_obs ds q),
                              nth (q_decl q) (den_prog talg (b_univ b) ds) (TC 0))) qs)
  end.

(* concrete evaluation for the failing-input search *)
Definition conc_c01 (b : bp) (ticks : nat) (ds : list decl) (qs : list out_req) (env : var -> Z)
  : list (Z * Z) :=
  let st := run (zalg env) b ticks in
  let vals := den_prog (zalg env) (b_univ b) ds in
  map (fun q => (observe (zalg env) b st (q_obs ds q), nth (q_decl q) vals 0)) qs.

Definition debug_prog (b : bp) (fuel : nat) (ds : list decl) (qs : list out_req) (rs : list ent_req) :=
  match find_fix b fuel (init b) O with
  | None => None
  | Some (k, st) =>
      Some (k, map (fun q => (q_decl q, observe talg b st (q_obs ds q),
                              nth (q_decl q) (den_prog talg (b_univ b) ds) (TC 0))) qs,
               map (fun r => (r_ent r, pcond talg b st (r_ent r), enable_term talg (b_univ b) ds (r_expr r))) rs)
  end.

Definition conc_prog (b : bp) (ticks : nat) (ds : list decl) (qs : list out_req) (rs : list ent_req)
  (env : var -> Z) : list (Z * Z) :=
  let st := run (zalg env) b ticks in
  let vals := den_prog (zalg env) (b_univ b) ds in
  map (fun q => (observe (zalg env) b st (q_obs ds q), nth (q_decl q) vals 0)) qs ++
  map (fun r => (match pcond (zalg env) b st (r_ent r) with Some v => v | None => -1 end,
                 enable_term (zalg env) (b_univ b) ds (r_expr r))) rs.

Definition env_of (l : list Z) : var -> Z := fun v => nth (Pos.to_nat v - 1) l 0.

(* diagnostics with bundle outputs *)
Definition debug_progb (b : bp) (fuel : nat) (ds : list decl) (qs : list out_req) (rs : list ent_req)
           (bqs : list bout_req) :=
  match find_fix b fuel (init b) O with
  | None => None
  | Some (k, st) =>
      Some (k, filter (fun x => negb (term_eqb (snd (fst x)) (snd x)))
                 (map (fun ot => (o_sig (fst ot), observe talg b st (fst ot), snd ot))
                      (c01_outs (b_univ b) ds qs ++ bundle_outs (b_univ b) ds bqs)))
  end.

Definition conc_progb (b : bp) (ticks : nat) (ds : list decl) (qs : list out_req) (rs : list ent_req)
           (bqs : list bout_req) (env : var -> Z) : list (Z * Z) :=
  conc_prog b ticks ds qs rs env ++
  let st := run (zalg env) b ticks in
  flat_map (fun q => map (fun s => (observe (zalg env) b st {| o_rn := bq_rn q; o_gn := bq_gn q; o_sig := s |},
                                    get (zalg env) (nth (bq_decl q) (bden_prog (zalg env) (b_univ b) ds) []) s))
                         (b_univ b)) bqs.
