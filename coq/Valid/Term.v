(* Term.v -- symbolic values: first-order terms over input variables, their evaluation,
   and the NORMALISING term algebra [talg].  Every smart constructor is proved to
   evaluate like the corresponding operation of the concrete algebra [zalg env]
   (theorem talg_hom), so building a term through [talg] is a sound (incomplete)
   normaliser: equal normal forms denote equal values under EVERY valuation. *)
From Coq Require Import ZArith List Bool PArith NArith Lia Permutation.
From FV Require Import Base.Int32 Factorio.Circuit Valid.Hom.
Import ListNotations.
Open Scope Z_scope.

Inductive term :=
| TC (z : Z)
| TV (v : var)
| TA (o : aop) (a b : term)
| TCmp (o : cop) (a b : term)
| TAnd (a b : term)
| TOr (a b : term)
| TNot (a : term)
| TIte (c a b : term).

Section Eval.
Variable env : var -> Z.

Fixpoint eval (t : term) : Z :=
  match t with
  | TC z => wrap32 z
  | TV v => wrap32 (env v)
  | TA o a b => arith o (eval a) (eval b)
  | TCmp o a b => b2z (cmp o (eval a) (eval b))
  | TAnd a b => b2z (nz (eval a) && nz (eval b))
  | TOr a b => b2z (nz (eval a) || nz (eval b))
  | TNot a => b2z (negb (nz (eval a)))
  | TIte c a b => if nz (eval c) then eval a else eval b
  end.

Lemma eval_in32 t : in32 (eval t).
Proof.
  induction t; cbn [eval]; try apply wrap32_range; try apply arith_range; try apply b2z_in32.
  destruct (nz (eval t1)); assumption.
Qed.

Lemma eval_wrap t : wrap32 (eval t) = eval t.
Proof. apply wrap32_small, eval_in32. Qed.
End Eval.

(* ------------------------------------------------------------ term order *)
Definition aop_n (o : aop) : N :=
  match o with Add => 0 | Sub => 1 | Mul => 2 | Div => 3 | Mod => 4 | Pow => 5
             | Shl => 6 | Shr => 7 | And => 8 | Or => 9 | Xor => 10 end%N.
Definition cop_n (o : cop) : N :=
  match o with CLt => 0 | CGt => 1 | CEq => 2 | CGe => 3 | CLe => 4 | CNe => 5 end%N.
Definition rank (t : term) : N :=
  match t with TC _ => 0 | TV _ => 1 | TA _ _ _ => 2 | TCmp _ _ _ => 3 | TAnd _ _ => 4
             | TOr _ _ => 5 | TNot _ => 6 | TIte _ _ _ => 7 end%N.

Definition lex (c d : comparison) : comparison := match c with Eq => d | _ => c end.

Fixpoint tcmp (a b : term) : comparison :=
  match a, b with
  | TC x, TC y => Z.compare x y
  | TV x, TV y => Pos.compare x y
  | TA o a1 a2, TA o' b1 b2 => lex (N.compare (aop_n o) (aop_n o')) (lex (tcmp a1 b1) (tcmp a2 b2))
  | TCmp o a1 a2, TCmp o' b1 b2 => lex (N.compare (cop_n o) (cop_n o')) (lex (tcmp a1 b1) (tcmp a2 b2))
  | TAnd a1 a2, TAnd b1 b2 => lex (tcmp a1 b1) (tcmp a2 b2)
  | TOr a1 a2, TOr b1 b2 => lex (tcmp a1 b1) (tcmp a2 b2)
  | TNot a1, TNot b1 => tcmp a1 b1
  | TIte a0 a1 a2, TIte b0 b1 b2 => lex (tcmp a0 b0) (lex (tcmp a1 b1) (tcmp a2 b2))
  | _, _ => N.compare (rank a) (rank b)
  end.

Definition term_eqb (a b : term) : bool := match tcmp a b with Eq => true | _ => false end.
Definition tleb (a b : term) : bool := match tcmp a b with Gt => false | _ => true end.

Lemma lex_eq c d : lex c d = Eq -> c = Eq /\ d = Eq.
Proof. destruct c; cbn; intros; try discriminate; auto. Qed.

Lemma aop_n_inj o o' : N.compare (aop_n o) (aop_n o') = Eq -> o = o'.
Proof. destruct o, o'; cbn; intros; try discriminate; reflexivity. Qed.
Lemma cop_n_inj o o' : N.compare (cop_n o) (cop_n o') = Eq -> o = o'.
Proof. destruct o, o'; cbn; intros; try discriminate; reflexivity. Qed.

Lemma tcmp_eq a : forall b, tcmp a b = Eq -> a = b.
Proof.
  induction a; intros [] Hc; cbn in Hc; try discriminate.
  - apply Z.compare_eq in Hc. congruence.
  - apply Pos.compare_eq in Hc. congruence.
  - apply lex_eq in Hc as [H1 H2]. apply lex_eq in H2 as [H2 H3].
    apply aop_n_inj in H1. f_equal; auto.
  - apply lex_eq in Hc as [H1 H2]. apply lex_eq in H2 as [H2 H3].
    apply cop_n_inj in H1. f_equal; auto.
  - apply lex_eq in Hc as [H1 H2]. f_equal; auto.
  - apply lex_eq in Hc as [H1 H2]. f_equal; auto.
  - f_equal; auto.
  - apply lex_eq in Hc as [H1 H2]. apply lex_eq in H2 as [H2 H3]. f_equal; auto.
Qed.

Lemma term_eqb_eq a b : term_eqb a b = true -> a = b.
Proof. unfold term_eqb. destruct (tcmp a b) eqn:E; intros; try discriminate. apply tcmp_eq, E. Qed.

(* insertion sort; only the permutation property is needed for soundness *)
Fixpoint insert (x : term) (l : list term) : list term :=
  match l with
  | [] => [x]
  | y :: l' => if tleb x y then x :: l else y :: insert x l'
  end.
Fixpoint isort (l : list term) : list term :=
  match l with [] => [] | x :: l' => insert x (isort l') end.

Lemma insert_perm x l : Permutation (insert x l) (x :: l).
Proof.
  induction l as [|y l IH]; cbn; [reflexivity|].
  destruct (tleb x y); [reflexivity|].
  rewrite IH. apply perm_swap.
Qed.
Lemma isort_perm l : Permutation (isort l) l.
Proof. induction l as [|x l IH]; cbn; [reflexivity|]. rewrite insert_perm, IH. reflexivity. Qed.

(* remove adjacent duplicates *)
Fixpoint dedupe (l : list term) : list term :=
  match l with
  | [] => []
  | x :: l' => match l' with
               | [] => [x]
               | y :: _ => if term_eqb x y then dedupe l' else x :: dedupe l'
               end
  end.

(* ------------------------------------------------------------ predicates *)
Definition as_const (t : term) : option Z := match t with TC z => Some (wrap32 z) | _ => None end.

Fixpoint is01 (t : term) : bool :=
  match t with
  | TC z => (wrap32 z =? 0) || (wrap32 z =? 1)
  | TCmp _ _ _ | TAnd _ _ | TOr _ _ | TNot _ => true
  | TIte _ a b => is01 a && is01 b
  | _ => false
  end.

(* ------------------------------------------------------------ sums *)
Fixpoint summands (t : term) : list term * Z :=
  match t with
  | TC z => ([], wrap32 z)
  | TA Add a b => let '(la, ca) := summands a in let '(lb, cb) := summands b in (la ++ lb, ca + cb)
  | _ => ([t], 0)
  end.

Fixpoint build_sum (l : list term) (c : Z) : term :=
  match l with
  | [] => TC (wrap32 c)
  | t :: l' => match l' with
               | [] => if wrap32 c =? 0 then t else TA Add t (TC (wrap32 c))
               | _ => TA Add t (build_sum l' c)
               end
  end.

Definition mk_add (a b : term) : term :=
  let '(la, ca) := summands a in let '(lb, cb) := summands b in
  build_sum (isort (la ++ lb)) (ca + cb).

(* ------------------------------------------------------------ booleans *)
Definition negc (o : cop) : cop :=
  match o with CLt => CGe | CGt => CLe | CEq => CNe | CGe => CLt | CLe => CGt | CNe => CEq end.
Definition mirror (o : cop) : cop :=
  match o with CLt => CGt | CGt => CLt | CEq => CEq | CGe => CLe | CLe => CGe | CNe => CNe end.

Definition tc01 (b : bool) : term := if b then TC 1 else TC 0.

(* comparisons are kept in positive polarity (<, <=, =); the others are their negations, so that a
   comparison and its inverse share one atom *)
Definition canon_cmp (o : cop) (a b : term) : term :=
  match o with
  | CNe => TNot (TCmp CEq a b)
  | CGe => TNot (TCmp CLt a b)
  | CGt => TNot (TCmp CLe a b)
  | _ => TCmp o a b
  end.

(* a sum of 0/1 values plus a positive constant is positive, hence non-zero *)
Definition always_pos (t : term) : bool :=
  let '(l, c) := summands t in
  (1 <=? c) && (c <? 1000000) && forallb is01 l && (Z.of_nat (length l) <? 1000).

Definition mk_not (t : term) : term :=
  match t with
  | TC z => tc01 (wrap32 z =? 0)
  | TCmp o a b => canon_cmp (negc o) a b
  | TNot a => if is01 a then a else canon_cmp CNe a (TC 0)
  | _ => if is01 t then TNot t else if always_pos t then TC 0 else TCmp CEq t (TC 0)
  end.

Definition mk_nz (t : term) : term :=
  match t with
  | TC z => tc01 (negb (wrap32 z =? 0))
  | _ => if is01 t then t else if always_pos t then TC 1 else canon_cmp CNe t (TC 0)
  end.

Fixpoint conjuncts (t : term) : list term :=
  match t with TAnd a b => conjuncts a ++ conjuncts b | _ => [t] end.
Fixpoint disjuncts (t : term) : list term :=
  match t with TOr a b => disjuncts a ++ disjuncts b | _ => [t] end.

Definition const_is (t : term) (nonzero : bool) : bool :=
  match as_const t with Some z => Bool.eqb (negb (z =? 0)) nonzero | None => false end.
Definition not_const (t : term) : bool := match t with TC _ => false | _ => true end.

Fixpoint build_and (l : list term) : term :=
  match l with
  | [] => TC 1
  | t :: l' => match l' with [] => mk_nz t | _ => TAnd t (build_and l') end
  end.
Fixpoint build_or (l : list term) : term :=
  match l with
  | [] => TC 0
  | t :: l' => match l' with [] => mk_nz t | _ => TOr t (build_or l') end
  end.

Definition mk_and (a b : term) : term :=
  let l := map mk_nz (conjuncts a ++ conjuncts b) in
  if existsb (fun t => const_is t false) l then TC 0
  else build_and (dedupe (isort (filter not_const l))).

(* x * y <> 0 implies x <> 0 (and y <> 0): next to "x is non-zero" the disjunct "x * y is non-zero" is redundant *)
Definition is_nzprod (t : term) : option (term * term) :=
  match t with
  | TNot (TCmp CEq (TA Mul a b) (TC z)) => if z =? 0 then Some (a, b) else None
  | _ => None
  end.
Definition absorbed (l : list term) (t : term) : bool :=
  match is_nzprod t with
  | Some (a, b) =>
      existsb (fun y => match is_nzprod y with
                        | Some _ => false
                        | None => term_eqb y (mk_nz a) || term_eqb y (mk_nz b)
                        end) l
  | None => false
  end.

Definition mk_or (a b : term) : term :=
  let l0 := map mk_nz (disjuncts a ++ disjuncts b) in
  let l := filter (fun t => negb (absorbed l0 t)) l0 in
  if existsb (fun t => const_is t true) l then TC 1
  else build_or (dedupe (isort (filter not_const l))).

(* ------------------------------------------------------------ comparisons *)
Definition is_gt_or_ne (o : cop) : bool := match o with CGt | CNe => true | _ => false end.

Definition mk_cmp (o : cop) (a b : term) : term :=
  match as_const a, as_const b with
  | Some x, Some y => tc01 (cmp o x y)
  | Some x, None =>
      (* constant goes to the right *)
      if is01 b then
        match cmp (mirror o) 0 x, cmp (mirror o) 1 x with
        | false, true => b | true, false => mk_not b | true, true => TC 1 | false, false => TC 0
        end
      else canon_cmp (mirror o) b a
  | None, Some y =>
      if is01 a then
        match cmp o 0 y, cmp o 1 y with
        | false, true => a | true, false => mk_not a | true, true => TC 1 | false, false => TC 0
        end
      else
        let '(l, c) := summands a in
        if (y =? 0) && (c =? 0) && is_gt_or_ne o && forallb is01 l && (2 <=? Z.of_nat (length l))
           && (Z.of_nat (length l) <? 1000)
        then fold_right mk_or (TC 0) l
        else if (y =? 0) && (1 <=? c) && (c <? 1000000) && forallb is01 l
                && (Z.of_nat (length l) <? 1000)
        then tc01 (cmp o 1 0)      (* a positive value against 0, whatever the comparison *)
        else canon_cmp o a b
  | None, None =>
      if term_eqb a b then tc01 (cmp o 0 0) else   (* x CMP x *)
      match o with
      | CGt => TCmp CLt b a
      | CGe => TCmp CLe b a
      | CEq | CNe => if tleb a b then canon_cmp o a b else canon_cmp o b a
      | _ => TCmp o a b
      end
  end.

(* ------------------------------------------------------------ arithmetic *)
Definition mk_mul (a b : term) : term :=
  match as_const a, as_const b with
  | Some x, Some y => TC (arith Mul x y)
  | Some x, None => if x =? 0 then TC 0 else if x =? 1 then b else TA Mul b a
  | None, Some y => if y =? 0 then TC 0 else if y =? 1 then a else TA Mul a b
  | None, None =>
      if is01 a && is01 b then mk_and a b
      else if tleb a b then TA Mul a b else TA Mul b a
  end.

Definition mk_sub (a b : term) : term :=
  match as_const a, as_const b with
  | Some x, Some y => TC (arith Sub x y)
  | _, Some y => mk_add a (TC (- y))
  | Some x, None => if x =? 0 then mk_mul b (TC (-1)) else TA Sub a b
  | None, None => if term_eqb a b then TC 0 else TA Sub a b   (* x - x *)
  end.

(* x o k for And / Or / Xor with a constant k *)
Definition comm_c (o : aop) (a : term) (k : Z) : term :=
  match o with
  | And => if k =? 0 then TC 0 else if k =? -1 then a else TA o a (TC k)
  | _ => if k =? 0 then a else TA o a (TC k)
  end.

Definition mk_comm (o : aop) (a b : term) : term :=      (* And / Or / Xor *)
  match as_const a, as_const b with
  | Some x, Some y => TC (arith o x y)
  | Some x, None => comm_c o b x
  | None, Some y => comm_c o a y
  | None, None => if tleb a b then TA o a b else TA o b a
  end.

(* Div Mod Pow Shl Shr with a constant on one side: the identities that hold for the total
   functions of Int32.arith (division and remainder by zero are 0) *)
Definition other_r (o : aop) (a : term) (k : Z) : term :=
  match o with
  | Div => if k =? 0 then TC 0 else if k =? 1 then a
           else if is01 a && ((2 <=? k) || (k <=? -2)) then TC 0     (* a 0/1 value divided by |k| >= 2 *)
           else TA o a (TC k)
  | Mod => if (k =? 0) || (k =? 1) || (k =? -1) then TC 0
           else if is01 a && ((2 <=? k) || (k <=? -2)) then a         (* a 0/1 value modulo |k| >= 2 *)
           else TA o a (TC k)
  | Pow => if k =? 0 then TC 1 else if k =? 1 then a else TA o a (TC k)
  | Shl | Shr => if k =? 0 then a else TA o a (TC k)
  | _ => TA o a (TC k)
  end.
Definition other_l (o : aop) (k : Z) (b : term) : term :=
  match o with
  | Div | Mod | Shl | Shr => if k =? 0 then TC 0 else TA o (TC k) b
  | _ => TA o (TC k) b
  end.

Definition mk_other (o : aop) (a b : term) : term :=
  match as_const a, as_const b with
  | Some x, Some y => TC (arith o x y)
  | None, Some y => other_r o a y
  | Some x, None => other_l o x b
  | None, None => TA o a b
  end.

Definition mk_arith (o : aop) (a b : term) : term :=
  match o with
  | Add => mk_add a b
  | Sub => mk_sub a b
  | Mul => mk_mul a b
  | And | Or | Xor => mk_comm o a b
  | _ => mk_other o a b
  end.

Definition mk_ite (c a b : term) : term :=
  match as_const c with
  | Some z => if z =? 0 then b else a
  | None =>
      if term_eqb a b then a
      else match as_const a, as_const b with
           | Some 1, Some 0 => mk_nz c
           | _, _ => TIte (mk_nz c) a b
           end
  end.

Definition talg : alg term := {|
  a_const := fun z => TC (wrap32 z);
  a_var := TV;
  a_arith := mk_arith;
  a_cmp := mk_cmp;
  a_and := mk_and;
  a_or := mk_or;
  a_not := mk_not;
  a_ite := mk_ite
|}.

(* ================================================================ soundness *)
Section Sound.
Variable env : var -> Z.
Notation ev := (eval env).

Lemma as_const_sound t z : as_const t = Some z -> ev t = z.
Proof. destruct t; cbn; intros E; try discriminate. congruence. Qed.

Lemma b2z_nz b : nz (b2z b) = b.
Proof. destruct b; reflexivity. Qed.

Lemma is01_sound t : is01 t = true -> ev t = 0 \/ ev t = 1.
Proof.
  induction t; cbn [is01 eval]; intros E; try discriminate; try apply b2z_01.
  - apply orb_true_iff in E as [E|E]; apply Z.eqb_eq in E; auto.
  - apply andb_true_iff in E as [E1 E2]. destruct (nz (ev t1)); auto.
Qed.

Lemma is01_b2z t : is01 t = true -> ev t = b2z (nz (ev t)).
Proof. intros E. destruct (is01_sound t E) as [H|H]; rewrite H; reflexivity. Qed.

Lemma tc01_eval b : ev (tc01 b) = b2z b.
Proof. destruct b; reflexivity. Qed.

(* ---- sums *)
Fixpoint sum_eval (l : list term) : Z := match l with [] => 0 | t :: l' => ev t + sum_eval l' end.

Lemma sum_eval_app l1 l2 : sum_eval (l1 ++ l2) = sum_eval l1 + sum_eval l2.
Proof. induction l1; cbn; lia. Qed.

Lemma sum_eval_perm l1 l2 : Permutation l1 l2 -> sum_eval l1 = sum_eval l2.
Proof. induction 1; cbn; lia. Qed.

Lemma summands_sound t : forall l c, summands t = (l, c) -> ev t = wrap32 (sum_eval l + c).
Proof.
  induction t; intros l c E; cbn [summands] in E;
    try (inversion E; subst; cbn [sum_eval]; rewrite Z.add_0_r, Z.add_0_r, eval_wrap; reflexivity).
  - inversion E; subst. cbn. rewrite wrap32_idem. reflexivity.
  - destruct o;
      try (inversion E; subst; cbn [sum_eval]; rewrite Z.add_0_r, Z.add_0_r, eval_wrap; reflexivity).
    destruct (summands t1) as [la ca]. destruct (summands t2) as [lb cb]. inversion E; subst.
    cbn [eval arith]. rewrite (IHt1 _ _ eq_refl), (IHt2 _ _ eq_refl), sum_eval_app.
    rewrite wrap32_add_l, wrap32_add_r. f_equal. lia.
Qed.

Lemma build_sum_sound l c : ev (build_sum l c) = wrap32 (sum_eval l + c).
Proof.
  induction l as [|t l IH]; cbn [build_sum sum_eval].
  - cbn. rewrite wrap32_idem. reflexivity.
  - destruct l as [|u l'].
    + cbn [sum_eval]. destruct (wrap32 c =? 0) eqn:E.
      * apply Z.eqb_eq in E. rewrite Z.add_0_r. rewrite <- wrap32_add_r, E, Z.add_0_r, eval_wrap. reflexivity.
      * cbn [eval arith]. rewrite wrap32_idem, wrap32_add_r. f_equal. lia.
    + cbn [eval arith]. rewrite IH, wrap32_add_r. f_equal. cbn [sum_eval]. lia.
Qed.

Lemma mk_add_sound a b : ev (mk_add a b) = arith Add (ev a) (ev b).
Proof.
  unfold mk_add. destruct (summands a) as [la ca] eqn:Ea. destruct (summands b) as [lb cb] eqn:Eb.
  rewrite build_sum_sound, (sum_eval_perm _ _ (isort_perm _)), sum_eval_app.
  cbn [arith]. rewrite (summands_sound _ _ _ Ea), (summands_sound _ _ _ Eb).
  rewrite wrap32_add_l, wrap32_add_r. f_equal. lia.
Qed.

(* ---- booleans *)
Lemma negc_sound o x y : cmp (negc o) x y = negb (cmp o x y).
Proof.
  destruct o; cbn [cmp negc]; rewrite ?negb_involutive, ?Z.geb_leb, ?Z.gtb_ltb;
    try reflexivity; try apply Z.leb_antisym; try apply Z.ltb_antisym.
Qed.

Lemma mirror_sound o x y : cmp (mirror o) y x = cmp o x y.
Proof.
  destruct o; cbn [cmp mirror]; rewrite ?Z.geb_leb, ?Z.gtb_ltb; try reflexivity;
    try (rewrite Z.eqb_sym; reflexivity).
Qed.

Lemma nz_b2z_negb b : nz (b2z b) = b. Proof. destruct b; reflexivity. Qed.

Lemma canon_cmp_sound o a b : ev (canon_cmp o a b) = b2z (cmp o (ev a) (ev b)).
Proof.
  destruct o; cbn [canon_cmp eval]; rewrite ?nz_b2z_negb; try reflexivity;
    rewrite <- negc_sound; reflexivity.
Qed.

Lemma sum01_bounds l : forallb is01 l = true -> 0 <= sum_eval l <= Z.of_nat (length l).
Proof.
  induction l as [|t l IH]; cbn [forallb sum_eval length]; intros E; [lia|].
  apply andb_true_iff in E as [E1 E2]. specialize (IH E2).
  destruct (is01_sound t E1) as [H|H]; rewrite H; lia.
Qed.

Lemma always_pos_sound t : always_pos t = true -> nz (ev t) = true.
Proof.
  unfold always_pos. destruct (summands t) as [l c] eqn:Es. intros G.
  repeat (apply andb_true_iff in G as [G ?]).
  apply Z.leb_le in G.
  match goal with H : (c <? 1000000) = true |- _ => apply Z.ltb_lt in H; rename H into C2 end.
  match goal with H : forallb is01 l = true |- _ => rename H into F end.
  match goal with H : (_ <? 1000) = true |- _ => apply Z.ltb_lt in H; rename H into L end.
  rewrite (summands_sound _ _ _ Es). pose proof (sum01_bounds l F) as B.
  rewrite wrap32_small by (unfold in32, two31; lia).
  unfold nz. apply negb_true_iff, Z.eqb_neq. lia.
Qed.

Lemma mk_not_sound t : ev (mk_not t) = b2z (negb (nz (ev t))).
Proof.
  assert (G : forall u, ev (if is01 u then TNot u else if always_pos u then TC 0 else TCmp CEq u (TC 0)) = b2z (negb (nz (ev u)))).
  { intros u. destruct (is01 u); cbn [eval cmp]; [reflexivity|].
    destruct (always_pos u) eqn:P.
    - rewrite (always_pos_sound u P). reflexivity.
    - cbn [eval cmp]. unfold nz. rewrite negb_involutive. reflexivity. }
  destruct t; try apply G.
  - cbn [mk_not eval]. rewrite tc01_eval. unfold nz. rewrite negb_involutive. reflexivity.
  - cbn [mk_not eval]. rewrite canon_cmp_sound, negc_sound, nz_b2z_negb. reflexivity.
  - cbn [mk_not]. destruct (is01 t) eqn:E.
    + cbn [eval]. rewrite nz_b2z_negb, negb_involutive. apply is01_b2z, E.
    + rewrite canon_cmp_sound. cbn [eval cmp]. rewrite nz_b2z_negb, negb_involutive. reflexivity.
Qed.

Lemma mk_nz_sound t : ev (mk_nz t) = b2z (nz (ev t)).
Proof.
  assert (G : forall u, ev (if is01 u then u else if always_pos u then TC 1 else canon_cmp CNe u (TC 0)) = b2z (nz (ev u))).
  { intros u. destruct (is01 u) eqn:E; [apply is01_b2z, E |].
    destruct (always_pos u) eqn:P; [rewrite (always_pos_sound u P); reflexivity | rewrite canon_cmp_sound; reflexivity]. }
  destruct t; try apply G.
  cbn [mk_nz eval]. rewrite tc01_eval. reflexivity.
Qed.

Definition tru (t : term) : bool := nz (ev t).

Lemma conjuncts_sound t : tru t = forallb tru (conjuncts t).
Proof.
  induction t; cbn [conjuncts forallb]; rewrite ?andb_true_r; try reflexivity.
  rewrite forallb_app, <- IHt1, <- IHt2. unfold tru. cbn [eval]. apply nz_b2z_negb.
Qed.
Lemma disjuncts_sound t : tru t = existsb tru (disjuncts t).
Proof.
  induction t; cbn [disjuncts existsb]; rewrite ?orb_false_r; try reflexivity.
  rewrite existsb_app, <- IHt1, <- IHt2. unfold tru. cbn [eval]. apply nz_b2z_negb.
Qed.

Lemma forallb_perm (f : term -> bool) l1 l2 : Permutation l1 l2 -> forallb f l1 = forallb f l2.
Proof.
  induction 1; cbn; try congruence.
  - destruct (f x), (f y); reflexivity.
Qed.
Lemma existsb_perm (f : term -> bool) l1 l2 : Permutation l1 l2 -> existsb f l1 = existsb f l2.
Proof.
  induction 1; cbn; try congruence.
  - destruct (f x), (f y); reflexivity.
Qed.

Lemma forallb_dedupe (f : term -> bool) l : forallb f (dedupe l) = forallb f l.
Proof.
  induction l as [|x l IH]; [reflexivity|]. cbn [dedupe]. destruct l as [|y l']; [reflexivity|].
  destruct (term_eqb x y) eqn:E.
  - apply term_eqb_eq in E. subst. rewrite IH. cbn [forallb]. destruct (f y); reflexivity.
  - cbn [forallb] in *. rewrite IH. reflexivity.
Qed.
Lemma existsb_dedupe (f : term -> bool) l : existsb f (dedupe l) = existsb f l.
Proof.
  induction l as [|x l IH]; [reflexivity|]. cbn [dedupe]. destruct l as [|y l']; [reflexivity|].
  destruct (term_eqb x y) eqn:E.
  - apply term_eqb_eq in E. subst. rewrite IH. cbn [existsb]. destruct (f y); reflexivity.
  - cbn [existsb] in *. rewrite IH. reflexivity.
Qed.

Lemma build_and_sound l : ev (build_and l) = b2z (forallb tru l).
Proof.
  induction l as [|t l IH]; [reflexivity|]. cbn [build_and]. destruct l as [|u l'].
  - rewrite mk_nz_sound. cbn. rewrite andb_true_r. reflexivity.
  - cbn [eval]. rewrite IH, nz_b2z_negb. reflexivity.
Qed.
Lemma build_or_sound l : ev (build_or l) = b2z (existsb tru l).
Proof.
  induction l as [|t l IH]; [reflexivity|]. cbn [build_or]. destruct l as [|u l'].
  - rewrite mk_nz_sound. cbn. rewrite orb_false_r. reflexivity.
  - cbn [eval]. rewrite IH, nz_b2z_negb. reflexivity.
Qed.

Lemma const_is_sound t b : const_is t b = true -> tru t = b.
Proof.
  unfold const_is. destruct (as_const t) as [z|] eqn:E; [|discriminate].
  intros Hb. apply eqb_prop in Hb. unfold tru, nz. rewrite (as_const_sound _ _ E). exact Hb.
Qed.

Lemma not_const_false t : not_const t = false -> exists z, as_const t = Some z.
Proof. destruct t; cbn; try discriminate. eauto. Qed.

(* dropping constants that are true does not change a conjunction, provided no constant is false *)
Lemma forallb_filter_consts l :
  existsb (fun t => const_is t false) l = false ->
  forallb tru (filter not_const l) = forallb tru l.
Proof.
  induction l as [|t l IH]; [reflexivity|]. cbn [existsb filter forallb]. intros E.
  apply orb_false_iff in E as [E1 E2]. destruct (not_const t) eqn:N.
  - cbn [forallb]. rewrite IH by assumption. reflexivity.
  - rewrite IH by assumption. destruct (not_const_false _ N) as [z Ez].
    unfold const_is in E1. rewrite Ez in E1. unfold tru, nz. rewrite (as_const_sound _ _ Ez).
    destruct (z =? 0); cbn in *; [discriminate | reflexivity].
Qed.
Lemma existsb_filter_consts l :
  existsb (fun t => const_is t true) l = false ->
  existsb tru (filter not_const l) = existsb tru l.
Proof.
  induction l as [|t l IH]; [reflexivity|]. cbn [existsb filter]. intros E.
  apply orb_false_iff in E as [E1 E2]. destruct (not_const t) eqn:N.
  - cbn [existsb]. rewrite IH by assumption. reflexivity.
  - rewrite IH by assumption. destruct (not_const_false _ N) as [z Ez].
    unfold const_is in E1. rewrite Ez in E1. unfold tru, nz. rewrite (as_const_sound _ _ Ez).
    destruct (z =? 0); cbn in *; [reflexivity | discriminate].
Qed.

Lemma existsb_true_forallb_false (f g : term -> bool) l :
  (forall t, f t = true -> g t = false) -> existsb f l = true -> forallb g l = false.
Proof.
  intros Hfg. induction l as [|t l IH]; cbn; [discriminate|]. intros E.
  apply orb_true_iff in E as [E|E]; [rewrite (Hfg _ E); reflexivity | rewrite (IH E); apply andb_false_r].
Qed.
Lemma existsb_true_existsb_true (f g : term -> bool) l :
  (forall t, f t = true -> g t = true) -> existsb f l = true -> existsb g l = true.
Proof.
  intros Hfg. induction l as [|t l IH]; cbn; [discriminate|]. intros E.
  apply orb_true_iff in E as [E|E]; [rewrite (Hfg _ E); reflexivity | rewrite (IH E); apply orb_true_r].
Qed.

Lemma tru_mk_nz t : tru (mk_nz t) = tru t.
Proof. unfold tru. rewrite mk_nz_sound. apply nz_b2z_negb. Qed.
Lemma forallb_map_nz l : forallb tru (map mk_nz l) = forallb tru l.
Proof. induction l; cbn; [reflexivity | rewrite tru_mk_nz, IHl; reflexivity]. Qed.
Lemma existsb_map_nz l : existsb tru (map mk_nz l) = existsb tru l.
Proof. induction l; cbn; [reflexivity | rewrite tru_mk_nz, IHl; reflexivity]. Qed.

Lemma mk_and_sound a b : ev (mk_and a b) = b2z (nz (ev a) && nz (ev b)).
Proof.
  unfold mk_and.
  assert (T : nz (ev a) && nz (ev b) = forallb tru (map mk_nz (conjuncts a ++ conjuncts b))).
  { rewrite forallb_map_nz, forallb_app, <- !conjuncts_sound. reflexivity. }
  rewrite T. destruct (existsb _ _) eqn:E.
  - rewrite (existsb_true_forallb_false _ tru _ (fun t => const_is_sound t false) E). reflexivity.
  - rewrite build_and_sound, forallb_dedupe, (forallb_perm _ _ _ (isort_perm _)), forallb_filter_consts by exact E.
    reflexivity.
Qed.

Lemma nzprod_implies t a b : is_nzprod t = Some (a, b) -> tru t = true -> tru a = true /\ tru b = true.
Proof.
  unfold is_nzprod. destruct t; try discriminate. destruct t; try discriminate. destruct o; try discriminate.
  destruct t1; try discriminate. destruct o; try discriminate. destruct t2; try discriminate.
  destruct (z =? 0) eqn:Z0; [|discriminate]. apply Z.eqb_eq in Z0. subst z. intros E. inversion E; subst.
  unfold tru. cbn [eval cmp]. rewrite nz_b2z_negb, wrap32_0. intros H. apply negb_true_iff in H.
  rewrite nz_b2z_negb in H. apply Z.eqb_neq in H.
  unfold nz. split; apply negb_true_iff, Z.eqb_neq; intros Q; apply H; cbn [arith]; rewrite Q.
  - rewrite Z.mul_0_l. apply wrap32_0.
  - rewrite Z.mul_0_r. apply wrap32_0.
Qed.

Lemma absorb_sound l0 : existsb tru (filter (fun t => negb (absorbed l0 t)) l0) = existsb tru l0.
Proof.
  destruct (existsb tru l0) eqn:E.
  - apply existsb_exists in E as (x & I & T).
    destruct (absorbed l0 x) eqn:A.
    + unfold absorbed in A. destruct (is_nzprod x) as [[a b]|] eqn:P; [|discriminate].
      apply existsb_exists in A as (y & Iy & Hy).
      destruct (is_nzprod y) eqn:Py; [discriminate|].
      destruct (nzprod_implies x a b P T) as [Ta Tb].
      apply existsb_exists. exists y. split.
      * apply filter_In. split; [exact Iy|]. unfold absorbed. rewrite Py. reflexivity.
      * apply orb_true_iff in Hy as [Hy|Hy]; apply term_eqb_eq in Hy; subst y; rewrite tru_mk_nz; assumption.
    + apply existsb_exists. exists x. split; [apply filter_In; split; [exact I | rewrite A; reflexivity] | exact T].
  - destruct (existsb tru (filter _ l0)) eqn:F; [|reflexivity].
    apply existsb_exists in F as (x & I & T). apply filter_In in I as [I _].
    assert (existsb tru l0 = true) by (apply existsb_exists; exists x; split; assumption). congruence.
Qed.

Lemma mk_or_sound a b : ev (mk_or a b) = b2z (nz (ev a) || nz (ev b)).
Proof.
  unfold mk_or. cbv zeta.
  assert (T : nz (ev a) || nz (ev b)
              = existsb tru (filter (fun t => negb (absorbed (map mk_nz (disjuncts a ++ disjuncts b)) t))
                                    (map mk_nz (disjuncts a ++ disjuncts b)))).
  { rewrite absorb_sound, existsb_map_nz, existsb_app, <- !disjuncts_sound. reflexivity. }
  rewrite T. destruct (existsb (fun t => const_is t true) _) eqn:E.
  - rewrite (existsb_true_existsb_true _ tru _ (fun t => const_is_sound t true) E). reflexivity.
  - rewrite build_or_sound, existsb_dedupe, (existsb_perm _ _ _ (isort_perm _)), existsb_filter_consts by exact E.
    reflexivity.
Qed.

Lemma or_list_sound l : ev (fold_right mk_or (TC 0) l) = b2z (existsb tru l).
Proof.
  induction l as [|t l IH]; [reflexivity|]. cbn [fold_right existsb].
  rewrite mk_or_sound, IH, nz_b2z_negb. reflexivity.
Qed.

(* ---- comparisons *)
Lemma cmp01_sound o (t : term) y :
  is01 t = true ->
  ev (match cmp o 0 y, cmp o 1 y with
      | false, true => t | true, false => mk_not t | true, true => TC 1 | false, false => TC 0 end)
  = b2z (cmp o (ev t) y).
Proof.
  intros E. destruct (is01_sound t E) as [H|H]; rewrite H;
    destruct (cmp o 0 y) eqn:C0, (cmp o 1 y) eqn:C1; rewrite ?mk_not_sound, ?H; try reflexivity;
    try (rewrite H; reflexivity).
Qed.

(* a sum of 0/1 values is positive (equivalently non-zero) iff one of them is 1 *)
Lemma sum01_pos l : forallb is01 l = true -> (0 <? sum_eval l) = existsb tru l.
Proof.
  induction l as [|t l IH]; cbn [forallb sum_eval existsb]; intros E; [reflexivity|].
  apply andb_true_iff in E as [E1 E2]. specialize (IH E2). pose proof (sum01_bounds l E2) as B.
  unfold tru at 1. destruct (is01_sound t E1) as [H|H]; rewrite H; cbn [nz Z.eqb negb orb].
  - rewrite <- IH. reflexivity.
  - apply Z.ltb_lt. lia.
Qed.

Lemma mk_cmp_sound o a b : ev (mk_cmp o a b) = b2z (cmp o (ev a) (ev b)).
Proof.
  unfold mk_cmp. destruct (as_const a) as [x|] eqn:Ea, (as_const b) as [y|] eqn:Eb.
  - rewrite tc01_eval, (as_const_sound _ _ Ea), (as_const_sound _ _ Eb). reflexivity.
  - rewrite (as_const_sound _ _ Ea). destruct (is01 b) eqn:E.
    + rewrite cmp01_sound by exact E. rewrite mirror_sound. reflexivity.
    + rewrite canon_cmp_sound, mirror_sound, (as_const_sound _ _ Ea). reflexivity.
  - rewrite (as_const_sound _ _ Eb). destruct (is01 a) eqn:E.
    + apply cmp01_sound, E.
    + destruct (summands a) as [l c] eqn:Es.
      destruct ((y =? 0) && (c =? 0) && is_gt_or_ne o && forallb is01 l && (2 <=? Z.of_nat (length l))
                && (Z.of_nat (length l) <? 1000)) eqn:G.
      * repeat (apply andb_true_iff in G as [G ?]).
        apply Z.eqb_eq in G. match goal with H : (c =? 0) = true |- _ => apply Z.eqb_eq in H end.
        subst y c.
        match goal with H : forallb is01 l = true |- _ => rename H into F end.
        match goal with H : (_ <? 1000) = true |- _ => apply Z.ltb_lt in H; rename H into L end.
        rewrite or_list_sound, <- sum01_pos by exact F.
        rewrite (summands_sound _ _ _ Es), Z.add_0_r.
        pose proof (sum01_bounds l F) as B.
        rewrite wrap32_small by (unfold in32, two31; lia).
        f_equal. destruct o; try discriminate; cbn [cmp].
        -- rewrite Z.gtb_ltb. reflexivity.
        -- destruct (0 <? sum_eval l) eqn:P.
           ++ apply Z.ltb_lt in P. symmetry. apply negb_true_iff, Z.eqb_neq. lia.
           ++ apply Z.ltb_ge in P. symmetry. apply negb_false_iff, Z.eqb_eq. lia.
      * destruct ((y =? 0) && (1 <=? c) && (c <? 1000000) && forallb is01 l
                  && (Z.of_nat (length l) <? 1000)) eqn:G2.
        -- repeat (apply andb_true_iff in G2 as [G2 ?]).
           apply Z.eqb_eq in G2. subst y.
           match goal with H : (1 <=? c) = true |- _ => apply Z.leb_le in H; rename H into C1 end.
           match goal with H : (c <? 1000000) = true |- _ => apply Z.ltb_lt in H; rename H into C2 end.
           match goal with H : forallb is01 l = true |- _ => rename H into F end.
           match goal with H : (_ <? 1000) = true |- _ => apply Z.ltb_lt in H; rename H into L end.
           rewrite (summands_sound _ _ _ Es).
           pose proof (sum01_bounds l F) as B.
           rewrite wrap32_small by (unfold in32, two31; lia).
           rewrite tc01_eval. f_equal.
           assert (P : 1 <= sum_eval l + c) by lia. remember (sum_eval l + c) as v eqn:Ev. clear Ev B.
           destruct o; cbn [cmp].
           ++ transitivity false; [|symmetry]; apply Z.ltb_ge; lia.
           ++ rewrite !Z.gtb_ltb. transitivity true; [|symmetry]; apply Z.ltb_lt; lia.
           ++ transitivity false; [|symmetry]; apply Z.eqb_neq; lia.
           ++ rewrite !Z.geb_leb. transitivity true; [|symmetry]; apply Z.leb_le; lia.
           ++ transitivity false; [|symmetry]; apply Z.leb_gt; lia.
           ++ f_equal. transitivity false; [|symmetry]; apply Z.eqb_neq; lia.
        -- rewrite canon_cmp_sound, (as_const_sound _ _ Eb). reflexivity.
  - destruct (term_eqb a b) eqn:Eab.
    { apply term_eqb_eq in Eab. subst b. rewrite tc01_eval. f_equal.
      destruct o; cbn [cmp]; rewrite ?Z.ltb_irrefl, ?Z.gtb_ltb, ?Z.ltb_irrefl, ?Z.eqb_refl, ?Z.geb_leb, ?Z.leb_refl; reflexivity. }
    destruct o; try reflexivity.
    + cbn [eval]. rewrite <- (mirror_sound CGt). reflexivity.
    + destruct (tleb a b); rewrite canon_cmp_sound; cbn [cmp]; [reflexivity | rewrite Z.eqb_sym; reflexivity].
    + cbn [eval]. rewrite <- (mirror_sound CGe). reflexivity.
    + destruct (tleb a b); rewrite canon_cmp_sound; cbn [cmp]; [reflexivity | rewrite Z.eqb_sym; reflexivity].
Qed.

(* ---- arithmetic *)
Lemma arith_wrap o x y : wrap32 (arith o x y) = arith o x y.
Proof. apply wrap32_small, arith_range. Qed.

Lemma mul_comm32 x y : arith Mul x y = arith Mul y x.
Proof. cbn. f_equal. lia. Qed.

Lemma mk_mul_sound a b : ev (mk_mul a b) = arith Mul (ev a) (ev b).
Proof.
  unfold mk_mul. destruct (as_const a) as [x|] eqn:Ea, (as_const b) as [y|] eqn:Eb.
  - cbn [eval]. rewrite arith_wrap, (as_const_sound _ _ Ea), (as_const_sound _ _ Eb). reflexivity.
  - rewrite (as_const_sound _ _ Ea). destruct (x =? 0) eqn:E0; [apply Z.eqb_eq in E0; subst; reflexivity|].
    destruct (x =? 1) eqn:E1.
    + apply Z.eqb_eq in E1; subst. cbn [arith]. rewrite Z.mul_1_l, eval_wrap. reflexivity.
    + cbn [eval]. rewrite (as_const_sound _ _ Ea). apply mul_comm32.
  - rewrite (as_const_sound _ _ Eb). destruct (y =? 0) eqn:E0.
    { apply Z.eqb_eq in E0; subst. cbn. rewrite Z.mul_0_r. reflexivity. }
    destruct (y =? 1) eqn:E1.
    + apply Z.eqb_eq in E1; subst. cbn [arith]. rewrite Z.mul_1_r, eval_wrap. reflexivity.
    + cbn [eval]. rewrite (as_const_sound _ _ Eb). reflexivity.
  - destruct (is01 a && is01 b) eqn:E.
    + apply andb_true_iff in E as [E1 E2]. rewrite mk_and_sound.
      destruct (is01_sound a E1) as [H1|H1], (is01_sound b E2) as [H2|H2]; rewrite H1, H2; reflexivity.
    + destruct (tleb a b); cbn [eval]; [reflexivity | apply mul_comm32].
Qed.

Lemma mk_sub_sound a b : ev (mk_sub a b) = arith Sub (ev a) (ev b).
Proof.
  assert (G : forall y, as_const b = Some y -> ev (mk_add a (TC (- y))) = arith Sub (ev a) (ev b)).
  { intros y Eb. rewrite mk_add_sound, (as_const_sound _ _ Eb). cbn [eval arith].
    rewrite wrap32_add_r. f_equal; lia. }
  unfold mk_sub. destruct (as_const a) as [x|] eqn:Ea, (as_const b) as [y|] eqn:Eb.
  - cbn [eval]. rewrite arith_wrap, (as_const_sound _ _ Ea), (as_const_sound _ _ Eb). reflexivity.
  - destruct (x =? 0) eqn:E0; [|reflexivity]. apply Z.eqb_eq in E0; subst.
    rewrite mk_mul_sound, (as_const_sound _ _ Ea). cbn [eval arith].
    rewrite wrap32_mul_r. f_equal. lia.
  - apply G; reflexivity.
  - destruct (term_eqb a b) eqn:Eab; [|reflexivity].
    apply term_eqb_eq in Eab. subst b. cbn [eval arith]. rewrite Z.sub_diag. reflexivity.
Qed.

Lemma comm_arith o x y : match o with And | Or | Xor => True | _ => False end -> arith o x y = arith o y x.
Proof.
  destruct o; intros []; cbn; f_equal; [apply Z.land_comm | apply Z.lor_comm | apply Z.lxor_comm].
Qed.

Lemma as_const_in32 t z : as_const t = Some z -> in32 z.
Proof. destruct t; cbn; intros E; try discriminate. inversion E. apply wrap32_range. Qed.

Lemma comm_c_sound o a k : in32 k ->
  match o with And | Or | Xor => True | _ => False end -> ev (comm_c o a k) = arith o (ev a) k.
Proof.
  intros Hk Ho. pose proof (eval_in32 env a) as Ha.
  assert (G : ev (TA o a (TC k)) = arith o (ev a) k).
  { cbn [eval]. rewrite (wrap32_small k Hk). reflexivity. }
  destruct o; try contradiction; cbn [comm_c].
  - destruct (k =? 0) eqn:E0; [apply Z.eqb_eq in E0; subst; cbn; rewrite Z.land_0_r; reflexivity|].
    destruct (k =? -1) eqn:E1; [|exact G]. apply Z.eqb_eq in E1; subst.
    cbn [arith]. rewrite Z.land_m1_r. symmetry. apply wrap32_small, Ha.
  - destruct (k =? 0) eqn:E0; [|exact G]. apply Z.eqb_eq in E0; subst.
    cbn [arith]. rewrite Z.lor_0_r. symmetry. apply wrap32_small, Ha.
  - destruct (k =? 0) eqn:E0; [|exact G]. apply Z.eqb_eq in E0; subst.
    cbn [arith]. rewrite Z.lxor_0_r. symmetry. apply wrap32_small, Ha.
Qed.

Lemma mk_comm_sound o a b :
  match o with And | Or | Xor => True | _ => False end -> ev (mk_comm o a b) = arith o (ev a) (ev b).
Proof.
  intros Ho. unfold mk_comm. destruct (as_const a) as [x|] eqn:Ea, (as_const b) as [y|] eqn:Eb.
  - cbn [eval]. rewrite arith_wrap, (as_const_sound _ _ Ea), (as_const_sound _ _ Eb). reflexivity.
  - rewrite comm_c_sound by (eauto using as_const_in32). rewrite (as_const_sound _ _ Ea). apply comm_arith, Ho.
  - rewrite comm_c_sound by (eauto using as_const_in32). rewrite (as_const_sound _ _ Eb). reflexivity.
  - destruct (tleb a b); cbn [eval]; [reflexivity | apply comm_arith, Ho].
Qed.

Lemma other_r_sound o a k : in32 k -> ev (other_r o a k) = arith o (ev a) k.
Proof.
  intros Hk. pose proof (eval_in32 env a) as Ha.
  assert (G : ev (TA o a (TC k)) = arith o (ev a) k).
  { cbn [eval]. rewrite (wrap32_small k Hk). reflexivity. }
  destruct o; try exact G; cbn [other_r].
  - destruct (k =? 0) eqn:E0; [apply Z.eqb_eq in E0; subst; reflexivity|].
    destruct (k =? 1) eqn:E1.
    { apply Z.eqb_eq in E1; subst. cbn. rewrite Z.quot_1_r. symmetry. apply wrap32_small, Ha. }
    destruct (is01 a && ((2 <=? k) || (k <=? -2))) eqn:E2; [|exact G].
    apply andb_true_iff in E2 as [E2 E3]. apply Z.eqb_neq in E0.
    cbn [arith]. replace (k =? 0) with false by (symmetry; apply Z.eqb_neq; exact E0).
    assert (K : 2 <= k \/ k <= -2) by (apply orb_true_iff in E3 as [E3|E3]; apply Z.leb_le in E3; auto).
    destruct (is01_sound a E2) as [H|H]; rewrite H.
    + rewrite Z.quot_0_l by exact E0. reflexivity.
    + assert (Q : Z.quot 1 k = 0) by (apply Z.quot_small_iff; lia). rewrite Q. reflexivity.
  - destruct ((k =? 0) || (k =? 1) || (k =? -1)) eqn:E.
    { apply orb_true_iff in E as [E|E]; [apply orb_true_iff in E as [E|E]|]; apply Z.eqb_eq in E; subst.
      + reflexivity.
      + cbn. rewrite Z.rem_1_r. reflexivity.
      + cbn. replace (Z.rem (ev a) (-1)) with 0; [reflexivity|].
        symmetry. change (-1) with (- (1)). rewrite Z.rem_opp_r by lia. apply Z.rem_1_r. }
    destruct (is01 a && ((2 <=? k) || (k <=? -2))) eqn:E2; [|exact G].
    apply andb_true_iff in E2 as [E2 E3].
    assert (K : 2 <= k \/ k <= -2) by (apply orb_true_iff in E3 as [E3|E3]; apply Z.leb_le in E3; auto).
    cbn [arith]. replace (k =? 0) with false by (symmetry; apply Z.eqb_neq; lia).
    destruct (is01_sound a E2) as [H|H]; rewrite H.
    + rewrite Z.rem_0_l by lia. reflexivity.
    + assert (Q : Z.rem 1 k = 1) by (apply Z.rem_small_iff; lia). rewrite Q. reflexivity.
  - destruct (k =? 0) eqn:E0; [apply Z.eqb_eq in E0; subst; reflexivity|].
    destruct (k =? 1) eqn:E1; [|exact G]. apply Z.eqb_eq in E1; subst.
    cbn [arith]. unfold pow32. rewrite Z.pow_1_r. symmetry. apply wrap32_small, Ha.
  - destruct (k =? 0) eqn:E0; [|exact G]. apply Z.eqb_eq in E0; subst.
    cbn [arith]. rewrite Z.shiftl_0_r. symmetry. apply wrap32_small, Ha.
  - destruct (k =? 0) eqn:E0; [|exact G]. apply Z.eqb_eq in E0; subst.
    cbn [arith]. rewrite Z.shiftr_0_r. symmetry. apply wrap32_small, Ha.
Qed.

Lemma other_l_sound o k b : in32 k -> ev (other_l o k b) = arith o k (ev b).
Proof.
  intros Hk.
  assert (G : ev (TA o (TC k) b) = arith o k (ev b)).
  { cbn [eval]. rewrite (wrap32_small k Hk). reflexivity. }
  destruct o; try exact G; cbn [other_l]; (destruct (k =? 0) eqn:E0; [|exact G]);
    apply Z.eqb_eq in E0; subst; cbn [eval arith].
  - destruct (ev b =? 0) eqn:Eb; [reflexivity|]. rewrite Z.quot_0_l; [reflexivity|].
    intros Hb. rewrite Hb in Eb. discriminate.
  - destruct (ev b =? 0) eqn:Eb; [reflexivity|]. rewrite Z.rem_0_l; [reflexivity|].
    intros Hb. rewrite Hb in Eb. discriminate.
  - rewrite Z.shiftl_0_l. reflexivity.
  - rewrite Z.shiftr_0_l. reflexivity.
Qed.

Lemma mk_other_sound o a b : ev (mk_other o a b) = arith o (ev a) (ev b).
Proof.
  unfold mk_other. destruct (as_const a) as [x|] eqn:Ea, (as_const b) as [y|] eqn:Eb; try reflexivity.
  - cbn [eval]. rewrite arith_wrap, (as_const_sound _ _ Ea), (as_const_sound _ _ Eb). reflexivity.
  - rewrite other_l_sound by (eauto using as_const_in32). rewrite (as_const_sound _ _ Ea). reflexivity.
  - rewrite other_r_sound by (eauto using as_const_in32). rewrite (as_const_sound _ _ Eb). reflexivity.
Qed.

Lemma mk_arith_sound o a b : ev (mk_arith o a b) = arith o (ev a) (ev b).
Proof.
  destruct o; cbn [mk_arith];
    first [apply mk_add_sound | apply mk_sub_sound | apply mk_mul_sound | apply mk_other_sound
          | apply mk_comm_sound; exact I].
Qed.

Lemma mk_ite_sound c a b : ev (mk_ite c a b) = if nz (ev c) then ev a else ev b.
Proof.
  unfold mk_ite. destruct (as_const c) as [z|] eqn:Ec.
  - unfold nz. rewrite (as_const_sound _ _ Ec). destruct (z =? 0); reflexivity.
  - destruct (term_eqb a b) eqn:E.
    + apply term_eqb_eq in E. subst. destruct (nz (ev c)); reflexivity.
    + assert (G : ev (TIte (mk_nz c) a b) = if nz (ev c) then ev a else ev b).
      { cbn [eval]. rewrite mk_nz_sound, nz_b2z_negb. reflexivity. }
      destruct (as_const a) as [x|] eqn:Ea; [|exact G].
      destruct x as [|p|p]; try exact G. destruct p; try exact G.
      destruct (as_const b) as [y|] eqn:Eb; [|exact G].
      destruct y; try exact G.
      rewrite mk_nz_sound, (as_const_sound _ _ Ea), (as_const_sound _ _ Eb).
      destruct (nz (ev c)); reflexivity.
Qed.

Theorem talg_hom : is_hom talg (zalg env) ev.
Proof.
  constructor; cbn.
  - intros z. apply wrap32_idem.
  - reflexivity.
  - apply mk_arith_sound.
  - apply mk_cmp_sound.
  - apply mk_and_sound.
  - apply mk_or_sound.
  - apply mk_not_sound.
  - apply mk_ite_sound.
Qed.

End Sound.
