(* Iso.v -- "the same logical circuit" (C19) as a checked relation between two blueprints:
   a bijection of entities under which configurations coincide and an injective renaming of
   network ids (per colour) under which every connector lies on the corresponding network.
   Positions, entity numbering and relay poles are not part of [bp] (the exporter drops poles
   after computing the networks, which contracts every relay chain). *)
From Coq Require Import ZArith List Bool PArith NArith Lia.
From FV Require Import Base.Int32 Factorio.Circuit.
Import ListNotations.
Open Scope nat_scope.

Lemma wild_eq_dec : forall a b : wild, {a = b} + {a <> b}.
Proof. decide equality. Defined.
Lemma aop_eq_dec : forall a b : aop, {a = b} + {a <> b}.
Proof. decide equality. Defined.
Lemma cop_eq_dec : forall a b : cop, {a = b} + {a <> b}.
Proof. decide equality. Defined.
Lemma operand_eq_dec : forall a b : operand, {a = b} + {a <> b}.
Proof. decide equality; try apply Z.eq_dec; try apply Pos.eq_dec; try apply bool_dec; apply wild_eq_dec. Defined.
Lemma sref_eq_dec : forall a b : sref, {a = b} + {a <> b}.
Proof. decide equality; [apply Pos.eq_dec | apply wild_eq_dec]. Defined.
Lemma dcond_eq_dec : forall a b : dcond, {a = b} + {a <> b}.
Proof. decide equality; try apply bool_dec; try apply operand_eq_dec; apply cop_eq_dec. Defined.
Lemma dout_eq_dec : forall a b : dout, {a = b} + {a <> b}.
Proof. decide equality; try apply bool_dec; try apply Z.eq_dec; apply sref_eq_dec. Defined.
Lemma cval_eq_dec : forall a b : cval, {a = b} + {a <> b}.
Proof. decide equality; [apply Z.eq_dec | apply Pos.eq_dec]. Defined.
Lemma kind_eq_dec : forall a b : kind, {a = b} + {a <> b}.
Proof.
  decide equality; try apply bool_dec; try apply operand_eq_dec; try apply aop_eq_dec; try apply sref_eq_dec.
  - apply list_eq_dec. decide equality; [apply cval_eq_dec | apply Pos.eq_dec].
  - apply list_eq_dec, dout_eq_dec.
  - apply list_eq_dec, dcond_eq_dec.
  - decide equality. apply dcond_eq_dec.
Defined.

Definition kind_eqb (a b : kind) : bool := if kind_eq_dec a b then true else false.

(* net renaming given as an association list; unmapped ids (and 0 = unconnected) map to 0 *)
Definition rho := list (N * N).
Fixpoint app_rho (r : rho) (n : N) : N :=
  match r with [] => 0%N | (a, b) :: r' => if N.eqb a n then b else app_rho r' n end.

Definition nlist_eqb (l1 l2 : list N) : bool := if list_eq_dec N.eq_dec l1 l2 then true else false.

Definition ent_match (rr rg : rho) (e1 e2 : ent) : bool :=
  kind_eqb (e_kind e1) (e_kind e2)
  && N.eqb (app_rho rr (e_ir e1)) (e_ir e2) && N.eqb (app_rho rg (e_ig e1)) (e_ig e2)
  && nlist_eqb (map (app_rho rr) (e_or e1)) (e_or e2)
  && nlist_eqb (map (app_rho rg) (e_og e1)) (e_og e2).

Fixpoint nodup_nat (l : list nat) : bool :=
  match l with [] => true | x :: l' => negb (existsb (Nat.eqb x) l') && nodup_nat l' end.
Fixpoint nodup_N (l : list N) : bool :=
  match l with [] => true | x :: l' => negb (existsb (N.eqb x) l') && nodup_N l' end.

(* pi : position i of b1 corresponds to position (nth i pi) of b2 *)
Definition iso_check (b1 b2 : bp) (pi : list nat) (rr rg : rho) : bool :=
  Nat.eqb (length (b_ents b1)) (length (b_ents b2))
  && Nat.eqb (length pi) (length (b_ents b1))
  && forallb (fun j => Nat.ltb j (length (b_ents b2))) pi
  && nodup_nat pi
  && nodup_N (map snd rr) && nodup_N (map snd rg)
  && forallb (fun b => negb (N.eqb b 0)) (map snd rr) && forallb (fun b => negb (N.eqb b 0)) (map snd rg)
  && forallb (fun ie => match nth_error (b_ents b2) (snd ie) with
                        | Some e2 => ent_match rr rg (fst ie) e2
                        | None => false
                        end) (combine (b_ents b1) pi).

(* Prop-level reading *)
Definition relabel (rr rg : rho) (e : ent) : ent :=
  {| e_kind := e_kind e; e_ir := app_rho rr (e_ir e); e_ig := app_rho rg (e_ig e);
     e_or := map (app_rho rr) (e_or e); e_og := map (app_rho rg) (e_og e) |}.

Definition same_circuit (b1 b2 : bp) (pi : list nat) (rr rg : rho) : Prop :=
  length (b_ents b1) = length (b_ents b2) /\ length pi = length (b_ents b1) /\
  NoDup pi /\ (forall j, In j pi -> j < length (b_ents b2)) /\
  NoDup (map snd rr) /\ NoDup (map snd rg) /\
  (forall i e1, nth_error (b_ents b1) i = Some e1 ->
     exists j, nth_error pi i = Some j /\ nth_error (b_ents b2) j = Some (relabel rr rg e1)).

Lemma nodup_nat_sound l : nodup_nat l = true -> NoDup l.
Proof.
  induction l as [|x l IH]; cbn; intros H; constructor.
  - apply andb_true_iff in H as [H _]. apply negb_true_iff in H. intros I.
    assert (existsb (Nat.eqb x) l = true) by (apply existsb_exists; exists x; split; [exact I | apply Nat.eqb_refl]).
    congruence.
  - apply IH. apply andb_true_iff in H as [_ H]. exact H.
Qed.
Lemma nodup_N_sound l : nodup_N l = true -> NoDup l.
Proof.
  induction l as [|x l IH]; cbn; intros H; constructor.
  - apply andb_true_iff in H as [H _]. apply negb_true_iff in H. intros I.
    assert (existsb (N.eqb x) l = true) by (apply existsb_exists; exists x; split; [exact I | apply N.eqb_refl]).
    congruence.
  - apply IH. apply andb_true_iff in H as [_ H]. exact H.
Qed.

Lemma ent_match_sound rr rg e1 e2 : ent_match rr rg e1 e2 = true -> e2 = relabel rr rg e1.
Proof.
  unfold ent_match, kind_eqb, nlist_eqb. intros H.
  repeat (apply andb_true_iff in H as [H ?]).
  destruct (kind_eq_dec (e_kind e1) (e_kind e2)) as [K|]; [|discriminate].
  repeat match goal with
  | X : N.eqb _ _ = true |- _ => apply N.eqb_eq in X
  | X : (if list_eq_dec N.eq_dec ?a ?b then true else false) = true |- _ =>
      destruct (list_eq_dec N.eq_dec a b); [|discriminate]
  end.
  destruct e2; unfold relabel; cbn in *. subst. reflexivity.
Qed.

Theorem iso_check_sound b1 b2 pi rr rg :
  iso_check b1 b2 pi rr rg = true -> same_circuit b1 b2 pi rr rg.
Proof.
  unfold iso_check. intros H. repeat (apply andb_true_iff in H as [H ?]).
  repeat match goal with X : Nat.eqb _ _ = true |- _ => apply Nat.eqb_eq in X end.
  unfold same_circuit. repeat split; try assumption.
  - apply nodup_nat_sound. assumption.
  - intros j I. match goal with X : forallb (fun j => Nat.ltb _ _) pi = true |- _ => rewrite forallb_forall in X; specialize (X j I); apply Nat.ltb_lt in X; exact X end.
  - apply nodup_N_sound. assumption.
  - apply nodup_N_sound. assumption.
  - intros i e1 E.
    match goal with X : forallb _ (combine _ _) = true |- _ => rename X into F end.
    rewrite forallb_forall in F.
    assert (Hi : i < length pi).
    { match goal with X : length pi = _ |- _ => rewrite X end. apply nth_error_Some. congruence. }
    destruct (nth_error pi i) as [j|] eqn:Ej; [|apply nth_error_None in Ej; lia].
    exists j. split; [reflexivity|].
    assert (I : In (e1, j) (combine (b_ents b1) pi)).
    { clear - E Ej. revert i pi E Ej. induction (b_ents b1) as [|x l IH]; intros [|i] [|p pi] E Ej; cbn in *; try discriminate.
      - inversion E; inversion Ej; subst. left. reflexivity.
      - right. eapply IH; eassumption. }
    specialize (F _ I). cbn [fst snd] in F.
    destruct (nth_error (b_ents b2) j) as [e2|]; [|discriminate].
    apply ent_match_sound in F. subst. reflexivity.
Qed.
