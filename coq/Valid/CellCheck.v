(* CellCheck.v -- verified validator for stateful blueprints (memory cells, latches, feedback).
   The entities in the [cut] (the state-holding combinators) are frozen: their outputs become
   free variables.  The rest of the circuit is settled symbolically around them (find_fix on
   the frozen blueprint), then ONE real tick of the original blueprint is taken symbolically.
   Soundness: for every valuation of the inputs and of the state variables, the concrete
   state [s] obtained by evaluating the settled symbolic state is a fixed point of the frozen
   circuit (everything combinational shows what it settles to for these cell contents), and
   one concrete tick of the real circuit from [s] yields exactly the evaluated next-state terms. *)
From Coq Require Import ZArith List Bool PArith NArith Lia.
From FV Require Import Base.Int32 Factorio.Circuit Valid.Hom Valid.Term Valid.SymExec
                       Facto.Syntax Facto.Denote Valid.CheckC01.
Import ListNotations.
Open Scope Z_scope.

Definition freeze_ent (e : ent) (vals : list (sig * var)) : ent :=
  {| e_kind := KConst true (map (fun sv => (fst sv, CIn (snd sv))) vals);
     e_ir := 0; e_ig := 0; e_or := e_or e; e_og := e_og e |}.

Definition cut_t := list (nat * list (sig * var)).

Fixpoint freeze_list (i : nat) (es : list ent) (cut : cut_t) : list ent :=
  match es with
  | [] => []
  | e :: es' =>
      (match find (fun c => Nat.eqb (fst c) i) cut with
       | Some c => freeze_ent e (snd c)
       | None => e
       end) :: freeze_list (S i) es' cut
  end.

Definition freeze (b : bp) (cut : cut_t) : bp :=
  {| b_ents := freeze_list 0 (b_ents b) cut; b_univ := b_univ b |}.

Definition cell_step (b : bp) (cut : cut_t) (fuel : nat) : option (nat * state term * state term) :=
  match find_fix (freeze b cut) fuel (init (freeze b cut)) O with
  | None => None
  | Some (k, st) => Some (k, st, step talg b st)
  end.

Theorem cell_step_sound b cut fuel k st st' :
  cell_step b cut fuel = Some (k, st, st') ->
  forall env : var -> Z,
    let s := map (hm (eval env)) st in
    step (zalg env) (freeze b cut) s = s /\
    step (zalg env) b s = map (hm (eval env)) st'.
Proof.
  unfold cell_step. destruct (find_fix _ fuel _ O) as [[k' st0]|] eqn:F; [|discriminate].
  intros E. inversion E. subst k' st0 st'. clear E. intros env. cbv zeta.
  change (init (freeze b cut)) with (run talg (freeze b cut) O) in F.
  apply find_fix_spec in F as [-> F].
  apply (state_eqb_sound env) in F. rewrite !(run_hom talg (zalg env) (eval env) (talg_hom env)) in F.
  split.
  - rewrite (run_hom talg (zalg env) (eval env) (talg_hom env)).
    cbn [run]. apply (step_geq env), F.
  - symmetry. apply (step_hom talg (zalg env) (eval env) (talg_hom env)).
Qed.

(* ------------------------------------------------------------ gated memory cell (C03) *)
Record cell_req := {
  g_w : nat; g_h : nat;          (* entity numbers of the write gate and the hold gate *)
  g_sig : sig;                   (* the cell's declared signal *)
  g_vw : var; g_vh : var;        (* state variables standing for the two gate outputs *)
  g_data : expr; g_when : expr   (* m.write(data, when = cond) as written in the source *)
}.

Definition only_sig (m : smap term) (s : sig) : bool :=
  forallb (fun k => Pos.eqb k s || term_eqb (get talg m k) (TC 0)) (map fst m).

(* source expressions evaluated symbolically / concretely over the program's declarations *)
Definition sden (U : list sig) (ds : list decl) (e : expr) : term :=
  den talg U (den_prog talg U ds) (bden_prog talg U ds) e.
Definition zden (env : var -> Z) (U : list sig) (ds : list decl) (e : expr) : Z :=
  den (zalg env) U (den_prog (zalg env) U ds) (bden_prog (zalg env) U ds) e.

Lemma sden_sound env U ds e : eval env (sden U ds e) = zden env U ds e.
Proof.
  unfold sden, zden.
  rewrite (den_hom talg (zalg env) (eval env) (talg_hom env)),
          (den_prog_hom talg (zalg env) (eval env) (talg_hom env)),
          (bden_prog_hom talg (zalg env) (eval env) (talg_hom env)). reflexivity.
Qed.

Definition exp_write (U : list sig) (ds : list decl) (c : cell_req) : term :=
  mk_ite (mk_cmp CGt (sden U ds (g_when c)) (TC 0)) (sden U ds (g_data c)) (TC 0).
Definition exp_hold (U : list sig) (ds : list decl) (c : cell_req) : term :=
  mk_ite (mk_not (mk_cmp CGt (sden U ds (g_when c)) (TC 0)))
         (mk_add (TV (g_vw c)) (TV (g_vh c))) (TC 0).

Definition cell_ok (U : list sig) (ds : list decl) (st' : state term) (c : cell_req) : bool :=
  let mw := nth (g_w c) st' [] in
  let mh := nth (g_h c) st' [] in
  term_eqb (get talg mw (g_sig c)) (exp_write U ds c) && only_sig mw (g_sig c) &&
  term_eqb (get talg mh (g_sig c)) (exp_hold U ds c) && only_sig mh (g_sig c).

(* the whole check of a program with gated cells: outputs and entity conditions on the
   quasi-settled state (the memory value enters the specification as vw + vh), and the
   next-state equations of every cell *)
Definition check_cells (b : bp) (cut : cut_t) (fuel : nat) (ds : list decl)
           (qs : list out_req) (rs : list ent_req) (cells : list cell_req) : option nat :=
  match cell_step b cut fuel with
  | None => None
  | Some (k, st, st') =>
      let fb := freeze b cut in
      if forallb (fun ot => term_eqb (observe talg fb st (fst ot)) (snd ot)) (c01_outs (b_univ b) ds qs)
         && forallb (pc_ok fb st) (prog_pcs (b_univ b) ds rs)
         && forallb (cell_ok (b_univ b) ds st') cells
      then Some k else None
  end.

Definition zget (env : var -> Z) (m : smap Z) (s : sig) : Z := get (zalg env) m s.

Theorem check_cells_sound b cut fuel ds qs rs cells k :
  check_cells b cut fuel ds qs rs cells = Some k ->
  exists st : state term,
  forall env : var -> Z,
    let s := map (hm (eval env)) st in
    let U := b_univ b in
    (* s is quasi-settled around the cell contents env assigns to the state variables *)
    step (zalg env) (freeze b cut) s = s /\
    (* every output shows what the source denotes, the memory value being vw + vh *)
    (forall q, In q qs ->
       observe (zalg env) (freeze b cut) s (q_obs ds q) = nth (q_decl q) (den_prog (zalg env) U ds) 0) /\
    (* one tick later each write gate shows the data iff the enable is positive, each hold gate
       shows the sum of both gates iff it is not *)
    (forall c, In c cells ->
       let s' := step (zalg env) b s in
       let en := zden env U ds (g_when c) >? 0 in
       zget env (nth (g_w c) s' []) (g_sig c) = (if en then zden env U ds (g_data c) else 0) /\
       zget env (nth (g_h c) s' []) (g_sig c)
         = (if en then 0 else wrap32 (wrap32 (env (g_vw c)) + wrap32 (env (g_vh c))))).
Proof.
  unfold check_cells. destruct (cell_step b cut fuel) as [[[k' st] st']|] eqn:CS; [|discriminate].
  destruct (forallb _ (c01_outs (b_univ b) ds qs) && forallb _ (prog_pcs (b_univ b) ds rs) && forallb _ cells) eqn:Q; [|discriminate].
  intros _. exists st. intros env. cbv zeta.
  set (s := map (hm (eval env)) st). set (U := b_univ b).
  destruct (cell_step_sound b cut fuel k' st st' CS env) as [S1 S2]. fold s in S1, S2.
  apply andb_true_iff in Q as [Q Q3]. apply andb_true_iff in Q as [Q1 Q2].
  split; [exact S1|]. split.
  - intros q Hq. rewrite forallb_forall in Q1.
    assert (I : In (q_obs ds q, nth (q_decl q) (den_prog talg U ds) (TC 0)) (c01_outs U ds qs)).
    { unfold c01_outs. apply in_map_iff. exists q. split; [reflexivity | exact Hq]. }
    specialize (Q1 _ I). cbn [fst snd] in Q1. apply term_eqb_eq in Q1.
    rewrite <- (den_prog_hom talg (zalg env) (eval env) (talg_hom env)).
    transitivity (eval env (nth (q_decl q) (den_prog talg U ds) (TC 0)));
      [|symmetry; apply (map_nth (eval env) (den_prog talg U ds) (TC 0))].
    rewrite <- Q1. unfold observe, s.
    rewrite (rd_hom talg (zalg env) (eval env) (talg_hom env)), !(netval_hom (V:=term) (W:=Z) (eval env)).
    reflexivity.
  - intros c Hc. set (s' := step (zalg env) b s). set (en := zden env U ds (g_when c) >? 0).
    rewrite forallb_forall in Q3. specialize (Q3 _ Hc).
    unfold cell_ok in Q3. repeat (apply andb_true_iff in Q3 as [Q3 ?]).
    match goal with H : term_eqb (get talg (nth (g_h c) st' []) _) _ = true |- _ => apply term_eqb_eq in H; rename H into EH end.
    apply term_eqb_eq in Q3. rename Q3 into EW.
    assert (N : forall i, nth i s' [] = hm (eval env) (nth i st' [])).
    { intros i. unfold s'. rewrite S2. change [] with (hm (eval env) []) at 1. apply map_nth. }
    unfold zget. rewrite !N, <- !(get_hom talg (zalg env) (eval env) (talg_hom env)), EW, EH.
    unfold exp_write, exp_hold.
    rewrite !mk_ite_sound, mk_not_sound, !mk_cmp_sound, mk_add_sound, !sden_sound. cbn [eval].
    rewrite wrap32_0.
    assert (NZ : forall bb : bool, nz (b2z bb) = bb) by (intros []; reflexivity).
    rewrite !NZ. cbn [cmp]. fold U. fold en. destruct en; cbn [negb]; split; reflexivity.
Qed.
