(* SymExec.v -- symbolic execution of a blueprint = the circuit semantics at V = term.
   [check_settled] is a verified validator: when it answers true, the observed signals
   of the blueprint settle -- from the all-zero state, for EVERY valuation of the input
   variables, at every tick after the one found -- to the values of the given terms. *)
From Coq Require Import ZArith List Bool PArith NArith Lia.
From FV Require Import Base.Int32 Factorio.Circuit Valid.Hom Valid.Term.
Import ListNotations.
Open Scope Z_scope.

(* ---------------------------------------------------------------- checker *)
Definition smap_eqb (m1 m2 : smap term) : bool :=
  forallb (fun s => term_eqb (get talg m1 s) (get talg m2 s)) (map fst m1 ++ map fst m2).

Fixpoint state_eqb (s1 s2 : state term) : bool :=
  match s1, s2 with
  | [], [] => true
  | m1 :: r1, m2 :: r2 => smap_eqb m1 m2 && state_eqb r1 r2
  | _, _ => false
  end.

(* size of a symbolic state: a circuit with a feedback loop (a wiring defect) never settles and its terms
   grow exponentially; the search gives up (as it does when the fuel runs out) beyond [size_cap] *)
Fixpoint tsize (t : term) : N :=
  match t with
  | TC _ | TV _ => 1
  | TA _ a b | TCmp _ a b | TAnd a b | TOr a b => 1 + tsize a + tsize b
  | TNot a => 1 + tsize a
  | TIte c a b => 1 + tsize c + tsize a + tsize b
  end%N.
Definition state_size (st : state term) : N :=
  fold_right (fun m acc => fold_right (fun kv acc' => (tsize (snd kv) + acc')%N) acc m) 0%N st.
Definition size_cap : N := 400000%N.

(* iterate the symbolic step from [st] (= run talg b k) until it repeats *)
Fixpoint find_fix (b : bp) (fuel : nat) (st : state term) (k : nat) : option (nat * state term) :=
  match fuel with
  | O => None
  | S f => let st' := step talg b st in
           if state_eqb st' st then Some (k, st')
           else if N.ltb size_cap (state_size st') then None
           else find_fix b f st' (S k)
  end.

(* an observation: signal [o_sig] on the red network [o_rn] plus the green network [o_gn] *)
Record obs := { o_rn : N; o_gn : N; o_sig : sig }.

Definition observe {V} (A : alg V) (b : bp) (st : state V) (o : obs) : V :=
  rd A (netval b st true (o_rn o)) (netval b st false (o_gn o)) (o_sig o) true true.

Definition check_settled (b : bp) (fuel : nat) (outs : list (obs * term)) : option nat :=
  match find_fix b fuel (init b) O with
  | None => None
  | Some (k, st) =>
      if forallb (fun ot => term_eqb (observe talg b st (fst ot)) (snd ot)) outs then Some k else None
  end.

(* circuit conditions of passive entities (lamps, inserters, ...): entity number i of the
   blueprint must be enabled by exactly the truth value of the given term *)
Definition dummy_ent : ent := {| e_kind := KPole; e_ir := 0; e_ig := 0; e_or := []; e_og := [] |}.

Definition pcond {V} (A : alg V) (b : bp) (st : state V) (i : nat) : option V :=
  passive_cond A b st (nth i (b_ents b) dummy_ent).

Definition pc_ok (b : bp) (st : state term) (it : nat * term) : bool :=
  match pcond talg b st (fst it) with
  | Some t => term_eqb t (snd it)
  | None => false
  end.

Definition check_settled2 (b : bp) (fuel : nat) (outs : list (obs * term)) (pcs : list (nat * term))
  : option nat :=
  match find_fix b fuel (init b) O with
  | None => None
  | Some (k, st) =>
      if forallb (fun ot => term_eqb (observe talg b st (fst ot)) (snd ot)) outs
         && forallb (pc_ok b st) pcs
      then Some k else None
  end.

(* ---------------------------------------------------------------- Z-level facts *)
Section Z.
Variable env : var -> Z.
Notation ZA := (zalg env).

Definition geq (m1 m2 : smap Z) : Prop := forall s, get ZA m1 s = get ZA m2 s.

Lemma zget_in32 m s : in32 (get ZA m s).
Proof.
  induction m as [|[k v] m IH]; cbn [get].
  - exact (wrap32_range 0).
  - destruct (Pos.eqb k s); [apply arith_range | exact IH].
Qed.

Lemma zget_app m1 m2 s : get ZA (m1 ++ m2) s = wrap32 (get ZA m1 s + get ZA m2 s).
Proof.
  induction m1 as [|[k v] m1 IH]; cbn [app get].
  - cbn [zero a_const zalg]. rewrite wrap32_0, Z.add_0_l. symmetry. apply wrap32_small, zget_in32.
  - destruct (Pos.eqb k s).
    + unfold add. cbn [a_arith zalg arith]. rewrite IH, wrap32_add_r, wrap32_add_l. f_equal. lia.
    + exact IH.
Qed.

Lemma geq_app m1 m2 n1 n2 : geq m1 n1 -> geq m2 n2 -> geq (m1 ++ m2) (n1 ++ n2).
Proof. intros H1 H2 s. rewrite !zget_app, H1, H2. reflexivity. Qed.

Lemma geq_refl m : geq m m. Proof. intros s; reflexivity. Qed.

Lemma netval_aux_geq red n es : forall st st',
  Forall2 geq st st' -> geq (netval_aux red n es st) (netval_aux red n es st').
Proof.
  induction es as [|e es IH]; intros st st' F; [intros s; destruct st, st'; reflexivity|].
  destruct F as [|m m' st st' Hm F]; [apply geq_refl|].
  cbn [netval_aux]. destruct (drives red e n).
  - apply geq_app; [exact Hm | apply IH, F].
  - apply IH, F.
Qed.

Lemma netval_geq b st st' red n : Forall2 geq st st' -> geq (netval b st red n) (netval b st' red n).
Proof. intros F. unfold netval. destruct (N.eqb n 0); [apply geq_refl | apply netval_aux_geq, F]. Qed.

(* everything an entity computes depends on its input networks only through [get] *)
Lemma rd_geq R R' G G' s r g : geq R R' -> geq G G' -> rd ZA R G s r g = rd ZA R' G' s r g.
Proof. intros HR HG. unfold rd. rewrite (HR s), (HG s). reflexivity. Qed.

Lemma opd_geq R R' G G' cur o : geq R R' -> geq G G' -> opd ZA R G cur o = opd ZA R' G' cur o.
Proof.
  intros HR HG. destruct o as [z | s r g | [ | | ] r g]; cbn [opd]; try reflexivity.
  - apply rd_geq; assumption.
  - destruct cur; [apply rd_geq; assumption | reflexivity].
Qed.

Lemma cond1_geq U R R' G G' cur c : geq R R' -> geq G G' -> cond1 ZA U R G cur c = cond1 ZA U R' G' cur c.
Proof.
  intros HR HG. unfold cond1.
  destruct (c_a c) as [z | s r g | [ | | ] r g];
    rewrite ?(opd_geq R R' G G') by assumption; try reflexivity.
  - f_equal. apply map_ext. intros s. cbv zeta. rewrite (rd_geq R R' G G') by assumption. reflexivity.
  - f_equal. apply map_ext. intros s. cbv zeta. rewrite (rd_geq R R' G G') by assumption. reflexivity.
Qed.

Lemma conds_aux_geq U R R' G G' cur cs : geq R R' -> geq G G' ->
  forall grp, conds_aux ZA U R G cur cs grp = conds_aux ZA U R' G' cur cs grp.
Proof.
  intros HR HG. induction cs as [|c cs IH]; intros grp; cbn [conds_aux]; [reflexivity|].
  rewrite (cond1_geq U R R' G G') by assumption. destruct (c_and c); rewrite IH; reflexivity.
Qed.

Lemma conds_geq U R R' G G' cur cs : geq R R' -> geq G G' -> conds ZA U R G cur cs = conds ZA U R' G' cur cs.
Proof.
  intros HR HG. destruct cs as [|c cs]; cbn [conds]; [reflexivity|].
  rewrite (cond1_geq U R R' G G') by assumption. apply conds_aux_geq; assumption.
Qed.

Lemma flat_map_ext' {X Y} (f g : X -> list Y) l : (forall x, f x = g x) -> flat_map f l = flat_map g l.
Proof. intros E. induction l; cbn; [reflexivity | rewrite E, IHl; reflexivity]. Qed.

Lemma ent_out_geq b st st' e : Forall2 geq st st' -> ent_out ZA b st e = ent_out ZA b st' e.
Proof.
  intros F. unfold ent_out.
  pose proof (netval_geq b st st' true (e_ir e) F) as HR.
  pose proof (netval_geq b st st' false (e_ig e) F) as HG.
  set (R := netval b st true (e_ir e)) in *. set (R' := netval b st' true (e_ir e)) in *.
  set (G := netval b st false (e_ig e)) in *. set (G' := netval b st' false (e_ig e)) in *.
  destruct (e_kind e) as [on vals | a o b' out | cs ds | en c | ]; try reflexivity.
  - unfold arith_out.
    destruct a as [z | s r g | [ | | ] r g]; destruct out as [t | [ | | ]]; try reflexivity;
      rewrite ?(opd_geq R R' G G') by assumption; try reflexivity;
      apply map_ext; intros s'; cbv zeta;
      rewrite (rd_geq R R' G G'), ?(opd_geq R R' G G') by assumption; reflexivity.
  - unfold decider_out. destruct (uses_each cs).
    + destruct (each_sel cs) as [r g]. apply flat_map_ext'. intros s. cbv zeta.
      rewrite (rd_geq R R' G G'), (conds_geq _ R R' G G') by assumption.
      apply flat_map_ext'. intros d. unfold dout_each.
      destruct (d_sig d) as [t | [ | | ]]; try reflexivity.
      rewrite (rd_geq R R' G G') by assumption. reflexivity.
    + cbv zeta. rewrite (conds_geq _ R R' G G') by assumption.
      apply flat_map_ext'. intros d. unfold dout1.
      destruct (d_sig d) as [t | [ | | ]]; try reflexivity.
      * rewrite (rd_geq R R' G G') by assumption. reflexivity.
      * apply map_ext. intros s. cbv zeta. rewrite (rd_geq R R' G G') by assumption. reflexivity.
Qed.

Lemma step_geq b st st' : Forall2 geq st st' -> step ZA b st = step ZA b st'.
Proof. intros F. unfold step. apply map_ext. intros e. apply ent_out_geq, F. Qed.

(* once two consecutive states are get-equivalent, the run is constant from then on *)
Lemma settle b k : Forall2 geq (run ZA b (S k)) (run ZA b k) ->
  forall t, (k < t)%nat -> run ZA b t = run ZA b (S k).
Proof.
  intros F t Ht. induction t as [|t IH]; [lia|].
  destruct (Nat.eq_dec t k) as [->|N]; [reflexivity|].
  cbn [run]. rewrite IH by lia. cbn [run]. apply step_geq, F.
Qed.

(* ---- from the syntactic check to get-equivalence *)
Notation ev := (eval env).
Notation hmz := (hm ev).

Lemma zget_absent (m : smap Z) s : ~ In s (map fst m) -> get ZA m s = 0.
Proof.
  induction m as [|[k v] m IH]; cbn [map fst In get]; intros N; [reflexivity|].
  destruct (Pos.eqb_spec k s) as [->|Ne]; [exfalso; apply N; left; reflexivity|].
  apply IH. intros I. apply N. right. exact I.
Qed.

Lemma hm_keys (m : smap term) : map fst (hmz m) = map fst m.
Proof. unfold hm. rewrite map_map. reflexivity. Qed.

Lemma smap_eqb_sound m1 m2 : smap_eqb m1 m2 = true -> geq (hmz m1) (hmz m2).
Proof.
  unfold smap_eqb. rewrite forallb_forall. intros F s.
  destruct (in_dec Pos.eq_dec s (map fst m1 ++ map fst m2)) as [I|N].
  - specialize (F s I). apply term_eqb_eq in F.
    rewrite <- !(get_hom talg ZA ev (talg_hom env)). rewrite F. reflexivity.
  - rewrite !zget_absent; [reflexivity | |]; rewrite hm_keys; intros I; apply N, in_or_app; auto.
Qed.

Lemma state_eqb_sound s1 : forall s2, state_eqb s1 s2 = true -> Forall2 geq (map hmz s1) (map hmz s2).
Proof.
  induction s1 as [|m1 r1 IH]; intros [|m2 r2] E; cbn in E; try discriminate; cbn [map]; constructor.
  - apply andb_true_iff in E as [E _]. apply smap_eqb_sound, E.
  - apply andb_true_iff in E as [_ E]. apply IH, E.
Qed.

Lemma find_fix_spec b fuel : forall k0 k st,
  find_fix b fuel (run talg b k0) k0 = Some (k, st) ->
  st = run talg b (S k) /\ state_eqb (run talg b (S k)) (run talg b k) = true.
Proof.
  induction fuel as [|f IH]; intros k0 k st E; cbn [find_fix] in E; [discriminate|].
  destruct (state_eqb (step talg b (run talg b k0)) (run talg b k0)) eqn:Q.
  - inversion E; subst. split; [reflexivity | exact Q].
  - destruct (N.ltb size_cap (state_size (step talg b (run talg b k0)))); [discriminate|].
    apply (IH (S k0)). exact E.
Qed.

Theorem check_settled_sound b fuel outs k :
  check_settled b fuel outs = Some k ->
  forall t, (k < t)%nat ->
  forall o tm, In (o, tm) outs -> observe ZA b (run ZA b t) o = ev tm.
Proof.
  unfold check_settled. destruct (find_fix b fuel (init b) O) as [[k' st]|] eqn:F; [|discriminate].
  destruct (forallb _ outs) eqn:Q; [|discriminate]. intros E; inversion E; subst k'. clear E.
  change (init b) with (run talg b O) in F.
  apply find_fix_spec in F as [-> F].
  intros t Ht o tm I.
  rewrite forallb_forall in Q. specialize (Q _ I). cbn [fst snd] in Q. apply term_eqb_eq in Q.
  apply state_eqb_sound in F. rewrite !(run_hom talg ZA ev (talg_hom env)) in F.
  rewrite (settle b k F t Ht).
  rewrite <- Q. unfold observe.
  rewrite (rd_hom talg ZA ev (talg_hom env)), !(netval_hom (V:=term) (W:=Z) ev),
          (run_hom talg ZA ev (talg_hom env)).
  reflexivity.
Qed.

Theorem check_settled2_sound b fuel outs pcs k :
  check_settled2 b fuel outs pcs = Some k ->
  forall t, (k < t)%nat ->
  (forall o tm, In (o, tm) outs -> observe ZA b (run ZA b t) o = ev tm) /\
  (forall i tm, In (i, tm) pcs -> pcond ZA b (run ZA b t) i = Some (ev tm)).
Proof.
  unfold check_settled2. destruct (find_fix b fuel (init b) O) as [[k' st]|] eqn:F; [|discriminate].
  destruct (forallb _ outs && forallb _ pcs) eqn:Q; [|discriminate]. intros E; inversion E; subst k'. clear E.
  apply andb_true_iff in Q as [Q1 Q2].
  change (init b) with (run talg b O) in F.
  apply find_fix_spec in F as [-> F].
  apply state_eqb_sound in F. rewrite !(run_hom talg ZA ev (talg_hom env)) in F.
  intros t Ht. rewrite (settle b k F t Ht). split.
  - intros o tm I. rewrite forallb_forall in Q1. specialize (Q1 _ I). cbn [fst snd] in Q1.
    apply term_eqb_eq in Q1. rewrite <- Q1. unfold observe.
    rewrite (rd_hom talg ZA ev (talg_hom env)), !(netval_hom (V:=term) (W:=Z) ev),
            (run_hom talg ZA ev (talg_hom env)). reflexivity.
  - intros i tm I. rewrite forallb_forall in Q2. specialize (Q2 _ I). unfold pc_ok in Q2. cbn [fst snd] in Q2.
    destruct (pcond talg b (run talg b (S k)) i) as [t'|] eqn:P; [|discriminate].
    apply term_eqb_eq in Q2. subst t'. unfold pcond in *.
    rewrite <- (run_hom talg ZA ev (talg_hom env)), <- (passive_cond_hom talg ZA ev (talg_hom env)), P.
    reflexivity.
Qed.

End Z.
