(* Hom.v -- the circuit semantics of Factorio/Circuit.v commutes with every
   homomorphism of value algebras.  With h = eval env : term -> Z this is the soundness
   of symbolic execution for ALL input valuations (SymExec.v). *)
From Coq Require Import ZArith List Bool PArith NArith Lia.
From FV Require Import Base.Int32 Factorio.Circuit.
Import ListNotations.

Section Hom.
Context {V W : Type} (A : alg V) (B : alg W) (h : V -> W).

Record is_hom : Prop := {
  h_const : forall z, h (a_const A z) = a_const B z;
  h_var : forall v, h (a_var A v) = a_var B v;
  h_arith : forall o x y, h (a_arith A o x y) = a_arith B o (h x) (h y);
  h_cmp : forall o x y, h (a_cmp A o x y) = a_cmp B o (h x) (h y);
  h_and : forall x y, h (a_and A x y) = a_and B (h x) (h y);
  h_or : forall x y, h (a_or A x y) = a_or B (h x) (h y);
  h_not : forall x, h (a_not A x) = a_not B (h x);
  h_ite : forall c x y, h (a_ite A c x y) = a_ite B (h c) (h x) (h y)
}.

Hypothesis H : is_hom.

Definition hm (m : smap V) : smap W := map (fun kv => (fst kv, h (snd kv))) m.

Lemma hm_app m1 m2 : hm (m1 ++ m2) = hm m1 ++ hm m2.
Proof. apply map_app. Qed.

Lemma zero_hom : h (zero A) = zero B.
Proof. apply (h_const H). Qed.

Lemma add_hom x y : h (add A x y) = add B (h x) (h y).
Proof. apply (h_arith H). Qed.

Lemma get_hom m s : h (get A m s) = get B (hm m) s.
Proof.
  induction m as [|[k v] m IH]; cbn [get hm map fst snd].
  - apply zero_hom.
  - destruct (Pos.eqb k s); [rewrite add_hom, IH; reflexivity | exact IH].
Qed.

Lemma netval_aux_hom red n es st :
  hm (netval_aux red n es st) = netval_aux red n es (map hm st).
Proof.
  revert st. induction es as [|e es IH]; intros [|m st]; cbn [netval_aux map]; try reflexivity.
  destruct (drives red e n); [rewrite hm_app, IH; reflexivity | apply IH].
Qed.

Lemma netval_hom b st red n : hm (netval b st red n) = netval b (map hm st) red n.
Proof. unfold netval. destruct (N.eqb n 0); [reflexivity | apply netval_aux_hom]. Qed.

Lemma rd_hom R G s r g : h (rd A R G s r g) = rd B (hm R) (hm G) s r g.
Proof.
  unfold rd. rewrite add_hom. f_equal.
  - destruct r; [apply get_hom | apply zero_hom].
  - destruct g; [apply get_hom | apply zero_hom].
Qed.

Lemma opd_hom R G cur o : h (opd A R G cur o) = opd B (hm R) (hm G) cur o.
Proof.
  destruct o as [z | s r g | [ | | ] r g]; cbn [opd].
  - apply (h_const H).
  - apply rd_hom.
  - destruct cur; [apply rd_hom | apply zero_hom].
  - apply zero_hom.
  - apply zero_hom.
Qed.

Lemma all_of_hom l : h (all_of A l) = all_of B (map h l).
Proof. induction l as [|x l IH]; cbn; [apply (h_const H) | rewrite (h_and H), IH; reflexivity]. Qed.

Lemma any_of_hom l : h (any_of A l) = any_of B (map h l).
Proof. induction l as [|x l IH]; cbn; [apply (h_const H) | rewrite (h_or H), IH; reflexivity]. Qed.

Lemma cond1_hom U R G cur c : h (cond1 A U R G cur c) = cond1 B U (hm R) (hm G) cur c.
Proof.
  unfold cond1. destruct (c_a c) as [z | s r g | [ | | ] r g] eqn:E.
  - rewrite (h_cmp H), !opd_hom. reflexivity.
  - rewrite (h_cmp H), !opd_hom. reflexivity.
  - rewrite (h_cmp H), !opd_hom. reflexivity.
  - rewrite any_of_hom, map_map. f_equal. apply map_ext. intros s.
    cbv zeta. rewrite (h_and H), (h_cmp H), rd_hom, opd_hom. reflexivity.
  - rewrite all_of_hom, map_map. f_equal. apply map_ext. intros s.
    cbv zeta. rewrite (h_or H), (h_not H), (h_cmp H), rd_hom, opd_hom. reflexivity.
Qed.

Lemma conds_aux_hom U R G cur cs grp :
  h (conds_aux A U R G cur cs grp) = conds_aux B U (hm R) (hm G) cur cs (h grp).
Proof.
  revert grp. induction cs as [|c cs IH]; intros grp; cbn [conds_aux]; [reflexivity|].
  destruct (c_and c).
  - rewrite IH, (h_and H), cond1_hom. reflexivity.
  - rewrite (h_or H), IH, cond1_hom. reflexivity.
Qed.

Lemma conds_hom U R G cur cs : h (conds A U R G cur cs) = conds B U (hm R) (hm G) cur cs.
Proof.
  destruct cs as [|c cs]; cbn [conds]; [apply (h_const H)|].
  rewrite conds_aux_hom, cond1_hom. reflexivity.
Qed.

Lemma hm_flat_map {X} (f : X -> smap V) (g : X -> smap W) l :
  (forall x, hm (f x) = g x) -> hm (flat_map f l) = flat_map g l.
Proof.
  intros E. induction l as [|x l IH]; cbn [flat_map]; [reflexivity|].
  rewrite hm_app, E, IH. reflexivity.
Qed.

Lemma dout1_hom U R G c d : hm (dout1 A U R G c d) = dout1 B U (hm R) (hm G) (h c) d.
Proof.
  unfold dout1. destruct (d_sig d) as [s | [ | | ]]; cbn [hm map fst snd]; try reflexivity.
  - rewrite (h_ite H), zero_hom. destruct (d_copy d); [rewrite rd_hom | rewrite (h_const H)]; reflexivity.
  - unfold hm. rewrite map_map. apply map_ext. intros s. cbn [fst snd]. cbv zeta.
    rewrite (h_ite H), zero_hom. destruct (d_copy d).
    + rewrite rd_hom. reflexivity.
    + rewrite (h_ite H), zero_hom, (h_const H), rd_hom. reflexivity.
Qed.

Lemma dout_each_hom R G s c d : hm (dout_each A R G s c d) = dout_each B (hm R) (hm G) s (h c) d.
Proof.
  unfold dout_each. destruct (d_sig d) as [t | [ | | ]]; cbn [hm map fst snd]; try reflexivity.
  rewrite (h_ite H), zero_hom. destruct (d_copy d); [rewrite rd_hom | rewrite (h_const H)]; reflexivity.
Qed.

Lemma decider_out_hom U R G cs ds :
  hm (decider_out A U R G cs ds) = decider_out B U (hm R) (hm G) cs ds.
Proof.
  unfold decider_out. destruct (uses_each cs).
  - destruct (each_sel cs) as [r g]. apply hm_flat_map. intros s. cbv zeta.
    apply hm_flat_map. intros d. rewrite dout_each_hom, (h_and H), rd_hom, conds_hom. reflexivity.
  - cbv zeta. apply hm_flat_map. intros d. rewrite dout1_hom, conds_hom. reflexivity.
Qed.

Lemma arith_out_hom U R G a o b out :
  hm (arith_out A U R G a o b out) = arith_out B U (hm R) (hm G) a o b out.
Proof.
  unfold arith_out.
  destruct a as [z | s r g | [ | | ] r g]; destruct out as [t | [ | | ]]; cbn [hm map fst snd];
    try reflexivity;
    try (rewrite (h_arith H), !opd_hom; reflexivity);
    try (unfold hm; rewrite map_map; apply map_ext; intros s'; cbn [fst snd]; cbv zeta;
         rewrite (h_ite H), (h_arith H), zero_hom, rd_hom, opd_hom; reflexivity).
Qed.

Lemma cvalv_hom c : h (cvalv A c) = cvalv B c.
Proof. destruct c; cbn; [apply (h_const H) | apply (h_var H)]. Qed.

Lemma ent_out_hom b st e : hm (ent_out A b st e) = ent_out B b (map hm st) e.
Proof.
  unfold ent_out. destruct (e_kind e) as [on vals | a o b' out | cs ds | en c | ].
  - destruct on; [|reflexivity]. unfold hm. rewrite map_map. apply map_ext.
    intros [k v]. cbn [fst snd]. rewrite cvalv_hom. reflexivity.
  - rewrite arith_out_hom, !netval_hom. reflexivity.
  - rewrite decider_out_hom, !netval_hom. reflexivity.
  - reflexivity.
  - reflexivity.
Qed.

Theorem step_hom b st : map hm (step A b st) = step B b (map hm st).
Proof. unfold step. rewrite map_map. apply map_ext. intros e. apply ent_out_hom. Qed.

Lemma init_hom b : map hm (init (V:=V) b) = init (V:=W) b.
Proof. unfold init. rewrite map_map. reflexivity. Qed.

Theorem run_hom b n : map hm (run A b n) = run B b n.
Proof. induction n as [|n IH]; cbn [run]; [apply init_hom | rewrite step_hom, IH; reflexivity]. Qed.

Lemma passive_cond_hom b st e :
  option_map h (passive_cond A b st e) = passive_cond B b (map hm st) e.
Proof.
  unfold passive_cond. destruct (e_kind e) as [ | | | [|] [c|] | ]; cbn [option_map]; try reflexivity.
  rewrite cond1_hom, !netval_hom. reflexivity.
Qed.

End Hom.
