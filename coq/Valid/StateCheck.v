(* StateCheck.v -- verified checks of the next-state terms of latches (C05) and feedback
   rings (C04), on top of CellCheck.cell_step.

   [subst a r t] replaces every occurrence of the sub-term [a] in [t] by [r], rebuilding
   through the normalising constructors.  If [a] and [r] evaluate alike, so do [t] and the
   result.  With r a constant this is the case analysis over a boolean atom (latch tables);
   with a = TV v it is the substitution of a state variable (composition around a ring). *)
From Coq Require Import ZArith List Bool PArith NArith Lia.
From FV Require Import Base.Int32 Factorio.Circuit Valid.Hom Valid.Term Valid.SymExec
                       Facto.Syntax Facto.Denote Valid.CheckC01 Valid.CellCheck.
Import ListNotations.
Open Scope Z_scope.

Fixpoint subst (a r t : term) : term :=
  if term_eqb t a then r else
  match t with
  | TC z => TC z
  | TV v => TV v
  | TA o x y => mk_arith o (subst a r x) (subst a r y)
  | TCmp o x y => mk_cmp o (subst a r x) (subst a r y)
  | TAnd x y => mk_and (subst a r x) (subst a r y)
  | TOr x y => mk_or (subst a r x) (subst a r y)
  | TNot x => mk_not (subst a r x)
  | TIte c x y => mk_ite (subst a r c) (subst a r x) (subst a r y)
  end.

Lemma subst_sound env a r : eval env a = eval env r -> forall t, eval env (subst a r t) = eval env t.
Proof.
  intros E. induction t; cbn [subst];
    match goal with |- context [term_eqb ?t a] =>
      destruct (term_eqb t a) eqn:Q; [apply term_eqb_eq in Q; rewrite Q; symmetry; exact E|] end;
    cbn [eval]; rewrite ?mk_arith_sound, ?mk_cmp_sound, ?mk_and_sound, ?mk_or_sound, ?mk_not_sound,
                        ?mk_ite_sound, ?IHt, ?IHt1, ?IHt2, ?IHt3; reflexivity.
Qed.

(* ---------------------------------------------------------------- boolean atoms *)
(* all assignments of truth values to a list of atoms *)
Fixpoint assignments (atoms : list term) : list (list (term * bool)) :=
  match atoms with
  | [] => [[]]
  | a :: rest => let r := assignments rest in
                 map (cons (a, false)) r ++ map (cons (a, true)) r
  end.

Definition apply_asg (asg : list (term * bool)) (t : term) : term :=
  fold_left (fun acc ab => subst (fst ab) (tc01 (snd ab)) acc) asg t.

(* env agrees with an assignment: every atom evaluates to the assigned 0 / 1 *)
Definition agrees (env : var -> Z) (asg : list (term * bool)) : Prop :=
  Forall (fun ab => eval env (fst ab) = b2z (snd ab)) asg.

Lemma apply_asg_sound env asg : agrees env asg -> forall t, eval env (apply_asg asg t) = eval env t.
Proof.
  unfold apply_asg. induction asg as [|[a b] asg IH]; intros Ag t; [reflexivity|].
  inversion Ag; subst. cbn [fold_left fst snd]. rewrite IH by assumption.
  apply subst_sound. cbn [fst snd] in *. rewrite tc01_eval. assumption.
Qed.

Definition equiv_on (atoms : list term) (t1 t2 : term) : bool :=
  forallb (fun asg => term_eqb (apply_asg asg t1) (apply_asg asg t2)) (assignments atoms).

Lemma assignments_complete env atoms :
  Forall (fun a => eval env a = 0 \/ eval env a = 1) atoms ->
  exists asg, In asg (assignments atoms) /\ agrees env asg.
Proof.
  induction atoms as [|a rest IH]; intros F.
  - exists []. split; [left; reflexivity | constructor].
  - inversion F as [|? ? Ha Hr]; subst. destruct (IH Hr) as (asg & I & Ag).
    destruct Ha as [Ha|Ha].
    + exists ((a, false) :: asg). split.
      * cbn [assignments]. apply in_or_app. left. apply in_map, I.
      * constructor; [exact Ha | exact Ag].
    + exists ((a, true) :: asg). split.
      * cbn [assignments]. apply in_or_app. right. apply in_map, I.
      * constructor; [exact Ha | exact Ag].
Qed.

(* two terms that agree under every assignment of the atoms are equal wherever the atoms are 0 / 1 *)
Theorem equiv_on_sound atoms t1 t2 :
  equiv_on atoms t1 t2 = true ->
  forall env, Forall (fun a => eval env a = 0 \/ eval env a = 1) atoms -> eval env t1 = eval env t2.
Proof.
  unfold equiv_on. rewrite forallb_forall. intros H env F.
  destruct (assignments_complete env atoms F) as (asg & I & Ag).
  specialize (H asg I). apply term_eqb_eq in H.
  rewrite <- (apply_asg_sound env asg Ag t1), <- (apply_asg_sound env asg Ag t2), H. reflexivity.
Qed.

(* ---------------------------------------------------------------- latches (C05) *)
Record latch_req := {
  l_ent : nat;             (* the latch decider *)
  l_sig : sig;             (* the cell's signal (the latch outputs 1 on it) *)
  l_var : var;             (* state variable standing for the latch bit *)
  l_set : expr; l_reset : expr;
  l_set_first : bool       (* `set=` written before `reset=` *)
}.

(* the specified next latch bit as a term over: the bit (vL > 0), set > 0, reset > 0 *)
Definition latch_atoms (U : list sig) (ds : list decl) (l : latch_req) : term * term * term :=
  (mk_cmp CGt (TV (l_var l)) (TC 0),
   mk_cmp CGt (sden U ds (l_set l)) (TC 0),
   mk_cmp CGt (sden U ds (l_reset l)) (TC 0)).

Definition latch_spec_term (U : list sig) (ds : list decl) (l : latch_req) : term :=
  let '(L, s, r) := latch_atoms U ds l in
  if l_set_first l then mk_or s (mk_and L (mk_not r))
  else mk_and (mk_not r) (mk_or s L).

(* the latch bit variable ranges over {0,1}: substitute both values *)
Definition latch_next (st' : state term) (l : latch_req) : term :=
  get talg (nth (l_ent l) st' []) (l_sig l).

(* the positive atom of a (possibly negated) comparison *)
Definition pos_atom (t : term) : term := match t with TNot x => x | _ => t end.

Definition latch_ok (U : list sig) (ds : list decl) (st' : state term) (l : latch_req) : bool :=
  let '(L, s, r) := latch_atoms U ds l in
  let nx := latch_next st' l in
  let sp := latch_spec_term U ds l in
  (* case split on the bit itself, then on the boolean atoms *)
  forallb (fun bit =>
     equiv_on [pos_atom s; pos_atom r] (subst (TV (l_var l)) (tc01 bit) nx) (subst (TV (l_var l)) (tc01 bit) sp))
   [false; true]
  && is01 (pos_atom s) && is01 (pos_atom r)
  && only_sig (nth (l_ent l) st' []) (l_sig l).

(* the rows in which the emitted latch differs from the specification: (bit, set, reset) *)
Definition latch_diff_rows (U : list sig) (ds : list decl) (st' : state term) (l : latch_req) : list (bool * bool * bool) :=
  let '(L, s, r) := latch_atoms U ds l in
  let nx := latch_next st' l in
  let sp := latch_spec_term U ds l in
  filter (fun row => let '(bit, sv, rv) := row in
            (* sv / rv are the truth values of set > 0 and reset > 0 themselves *)
            let sv' := match s with TNot _ => negb sv | _ => sv end in
            let rv' := match r with TNot _ => negb rv | _ => rv end in
            negb (term_eqb (apply_asg [(pos_atom s, sv'); (pos_atom r, rv')] (subst (TV (l_var l)) (tc01 bit) nx))
                           (apply_asg [(pos_atom s, sv'); (pos_atom r, rv')] (subst (TV (l_var l)) (tc01 bit) sp))))
    [(false,false,false); (false,false,true); (false,true,false); (false,true,true);
     (true,false,false); (true,false,true); (true,true,false); (true,true,true)].

Definition check_latches (b : bp) (cut : cut_t) (fuel : nat) (ds : list decl)
           (qs : list out_req) (rs : list ent_req) (ls : list latch_req) : option nat :=
  match cell_step b cut fuel with
  | None => None
  | Some (k, st, st') =>
      let fb := freeze b cut in
      if forallb (fun ot => term_eqb (observe talg fb st (fst ot)) (snd ot)) (c01_outs (b_univ b) ds qs)
         && forallb (pc_ok fb st) (prog_pcs (b_univ b) ds rs)
         && forallb (latch_ok (b_univ b) ds st') ls
      then Some k else None
  end.

Lemma is01_cmp o a b env : eval env (mk_cmp o a b) = 0 \/ eval env (mk_cmp o a b) = 1.
Proof. rewrite mk_cmp_sound. apply b2z_01. Qed.

Theorem check_latches_sound b cut fuel ds qs rs ls k :
  check_latches b cut fuel ds qs rs ls = Some k ->
  exists st : state term,
  forall env : var -> Z,
    let s := map (hm (eval env)) st in
    let U := b_univ b in
    step (zalg env) (freeze b cut) s = s /\
    (forall l, In l ls ->
       (* the latch bit is 0 or 1 *)
       (wrap32 (env (l_var l)) = 0 \/ wrap32 (env (l_var l)) = 1) ->
       let s' := step (zalg env) b s in
       let bit := wrap32 (env (l_var l)) >? 0 in
       let sa := zden env U ds (l_set l) >? 0 in
       let ra := zden env U ds (l_reset l) >? 0 in
       zget env (nth (l_ent l) s' []) (l_sig l)
       = b2z (if l_set_first l then sa || (bit && negb ra) else negb ra && (sa || bit))).
Proof.
  unfold check_latches. destruct (cell_step b cut fuel) as [[[k' st] st']|] eqn:CS; [|discriminate].
  destruct (forallb _ (c01_outs (b_univ b) ds qs) && forallb _ (prog_pcs (b_univ b) ds rs) && forallb _ ls) eqn:Q; [|discriminate].
  intros _. exists st. intros env. cbv zeta.
  set (s := map (hm (eval env)) st). set (U := b_univ b).
  destruct (cell_step_sound b cut fuel k' st st' CS env) as [S1 S2]. fold s in S1, S2.
  apply andb_true_iff in Q as [_ Q3].
  split; [exact S1|].
  intros l Hl Hbit.
  rewrite forallb_forall in Q3. specialize (Q3 _ Hl). unfold latch_ok in Q3. fold U in Q3.
  destruct (latch_atoms U ds l) as [[La sa] ra] eqn:EA.
  apply andb_true_iff in Q3 as [Q3 _]. apply andb_true_iff in Q3 as [Q3 A2]. apply andb_true_iff in Q3 as [Q3 A1].
  cbn [forallb] in Q3. apply andb_true_iff in Q3 as [Q0 Q1]. apply andb_true_iff in Q1 as [Q1 _].
  assert (N : forall i, nth i (step (zalg env) b s) [] = hm (eval env) (nth i st' [])).
  { intros i. rewrite S2. change [] with (hm (eval env) []) at 1. apply map_nth. }
  unfold latch_atoms in EA. inversion EA; subst La sa ra. clear EA.
  set (sa := mk_cmp CGt (sden U ds (l_set l)) (TC 0)) in *.
  set (ra := mk_cmp CGt (sden U ds (l_reset l)) (TC 0)) in *.
  assert (F : Forall (fun a => eval env a = 0 \/ eval env a = 1) [pos_atom sa; pos_atom ra]).
  { constructor; [apply is01_sound, A1|]. constructor; [apply is01_sound, A2|]. constructor. }
  (* pick the case of the bit *)
  assert (EQ : eval env (latch_next st' l) = eval env (latch_spec_term U ds l)).
  { destruct Hbit as [Hb|Hb].
    - pose proof (equiv_on_sound _ _ _ Q0 env F) as E.
      rewrite !subst_sound in E by (cbn [eval tc01]; rewrite Hb; reflexivity). exact E.
    - pose proof (equiv_on_sound _ _ _ Q1 env F) as E.
      rewrite !subst_sound in E by (cbn [eval tc01]; rewrite Hb; reflexivity). exact E. }
  unfold zget. rewrite N, <- (get_hom talg (zalg env) (eval env) (talg_hom env)).
  unfold latch_next in EQ. rewrite EQ.
  unfold latch_spec_term, latch_atoms. fold sa ra.
  assert (NZ : forall bb : bool, nz (b2z bb) = bb) by (intros []; reflexivity).
  destruct (l_set_first l);
    rewrite ?mk_or_sound, ?mk_and_sound, ?mk_not_sound, ?mk_or_sound, ?mk_and_sound; unfold sa, ra;
    rewrite !mk_cmp_sound, !sden_sound; cbn [eval cmp]; rewrite wrap32_0, !NZ; reflexivity.
Qed.

(* ---------------------------------------------------------------- feedback rings (C04) *)
Record stage := { sg_ent : nat; sg_sig : sig; sg_var : var }.

(* compose the next-state terms around the ring: start from the term of the first stage (in terms
   of the LAST stage's variable) and substitute it for the first stage's variable in the second
   stage's term, and so on *)
Fixpoint compose (st' : state term) (stages : list stage) (acc : option (var * term)) : option term :=
  match stages with
  | [] => match acc with Some (_, t) => Some t | None => None end
  | sg :: rest =>
      let nx := get talg (nth (sg_ent sg) st' []) (sg_sig sg) in
      let nx' := match acc with Some (v, t) => subst (TV v) t nx | None => nx end in
      compose st' rest (Some (sg_var sg, nx'))
  end.

Fixpoint mentions_var (v : var) (t : term) : bool :=
  match t with
  | TC _ => false
  | TV x => Pos.eqb x v
  | TA _ a b | TCmp _ a b | TAnd a b | TOr a b => mentions_var v a || mentions_var v b
  | TNot a => mentions_var v a
  | TIte c a b => mentions_var v c || mentions_var v a || mentions_var v b
  end.

(* stage i's next value must depend on no state variable other than the previous stage's *)
Fixpoint ring_shape (st' : state term) (all_vars : list var) (prev : var) (stages : list stage) : bool :=
  match stages with
  | [] => true
  | sg :: rest =>
      let nx := get talg (nth (sg_ent sg) st' []) (sg_sig sg) in
      forallb (fun v => Pos.eqb v prev || negb (mentions_var v nx)) all_vars
      && only_sig (nth (sg_ent sg) st' []) (sg_sig sg)
      && ring_shape st' all_vars (sg_var sg) rest
  end.

Definition last_var (stages : list stage) : var := match rev stages with sg :: _ => sg_var sg | [] => 1%positive end.

(* [fexpr] is the written expression with the read standing for the declaration whose value is the
   LAST stage's variable (what every reader sees) *)
Definition check_ring (b : bp) (cut : cut_t) (fuel : nat) (ds : list decl)
           (qs : list out_req) (rs : list ent_req) (stages : list stage) (fexpr : expr) : option nat :=
  match cell_step b cut fuel with
  | None => None
  | Some (k, st, st') =>
      let fb := freeze b cut in
      if forallb (fun ot => term_eqb (observe talg fb st (fst ot)) (snd ot)) (c01_outs (b_univ b) ds qs)
         && forallb (pc_ok fb st) (prog_pcs (b_univ b) ds rs)
         && ring_shape st' (map sg_var stages) (last_var stages) stages
         && match compose st' stages None with
            | Some t => term_eqb t (sden (b_univ b) ds fexpr)
            | None => false
            end
      then Some (length stages) else None
  end.

Theorem check_ring_sound b cut fuel ds qs rs stages fexpr L :
  check_ring b cut fuel ds qs rs stages fexpr = Some L ->
  L = length stages /\
  exists (st st' : state term) (comp : term),
    compose st' stages None = Some comp /\
    (* the composition of the stage functions around the ring is the written function of the
       value readers see, under every valuation of inputs and state *)
    (forall env : var -> Z, eval env comp = zden env (b_univ b) ds fexpr) /\
    (* and every stage's next-state term is exactly what one real tick produces *)
    (forall env : var -> Z,
       let s := map (hm (eval env)) st in
       step (zalg env) (freeze b cut) s = s /\
       forall sg, In sg stages ->
         zget env (nth (sg_ent sg) (step (zalg env) b s) []) (sg_sig sg)
         = eval env (get talg (nth (sg_ent sg) st' []) (sg_sig sg))).
Proof.
  unfold check_ring. destruct (cell_step b cut fuel) as [[[k' st] st']|] eqn:CS; [|discriminate].
  destruct (forallb _ (c01_outs (b_univ b) ds qs) && forallb _ (prog_pcs (b_univ b) ds rs) && ring_shape _ _ _ _ && _) eqn:Q; [|discriminate].
  intros E. inversion E. split; [reflexivity|].
  apply andb_true_iff in Q as [_ Q4].
  destruct (compose st' stages None) as [comp|] eqn:C; [|discriminate].
  apply term_eqb_eq in Q4.
  exists st, st', comp. split; [exact C|]. split.
  - intros env. rewrite Q4. apply sden_sound.
  - intros env. cbv zeta. destruct (cell_step_sound b cut fuel k' st st' CS env) as [S1 S2].
    split; [exact S1|]. intros sg _. unfold zget. rewrite S2.
    change [] with (hm (eval env) []) at 1. rewrite map_nth.
    symmetry. apply (get_hom talg (zalg env) (eval env) (talg_hom env)).
Qed.
