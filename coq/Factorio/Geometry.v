(* Geometry.v -- specification model for the geometry family (C08, C09, C18).

   Exact integer geometry.  Every length (centre coordinates, collision-box offsets, tile
   sizes, wire reaches, supply distances) is an integer number of one common unit; the
   layout records how many units make one tile ([l_unit]; the exporter py/geom.py uses
   1/1000 tile and refuses any number that is not an exact multiple).  Nothing here is
   derived from /repo: the numbers of a prototype come from the game data shipped with
   draftsman, the positions and wires from the blueprint JSON the compiler returned.

   The file has two halves: the MEANING of the properties as [Prop]s ([layout_valid],
   [poles_valid], [relays_only_spec], [placed_valid]) and the boolean validators that are run
   by vm_compute on every emitted blueprint ([valid_layout], [poles_ok], [relays_only],
   [placed_ok]).  Proofs/GeometryProofs.v proves that a validator answering [true] implies
   the meaning (and, for [valid_layout], the converse). *)
From Coq Require Import ZArith List Bool PArith.
Import ListNotations.
Open Scope Z_scope.

(* which connectors a prototype has: combinators with an input and an output side 1..4,
   electric poles 1, 2 and the copper connector 5, every other entity 1, 2 *)
Inductive eclass := CComb | CPole | COther.

Record entity := {
  e_id : Z;                 (* entity_number of the blueprint *)
  e_proto : positive;       (* prototype, as an index into the dumped prototype table *)
  e_x : Z; e_y : Z;         (* centre *)
  e_bx1 : Z; e_by1 : Z; e_bx2 : Z; e_by2 : Z;   (* collision box, offsets from the centre (rotated by the exporter) *)
  e_tw : Z; e_th : Z;       (* tile footprint, width and height *)
  e_class : eclass;
  e_creach : Z;             (* circuit wire reach *)
  e_kreach : Z;             (* copper wire reach (poles) *)
  e_supply : Z;             (* supply_area_distance (poles) *)
  e_elec : bool             (* the prototype has an electric energy source *)
}.

(* blueprint wire [e1, c1, e2, c2]: connector 1/3 red, 2/4 green, 5 copper *)
Record wire := { w_e1 : Z; w_c1 : Z; w_e2 : Z; w_c2 : Z }.

Record layout := { l_unit : Z; l_ents : list entity; l_wires : list wire }.

Definition is_pole (e : entity) : bool := match e_class e with CPole => true | _ => false end.

(* ------------------------------------------------------------------ meaning (Prop) *)

(* the interiors of the two collision boxes are separated along the x or the y axis *)
Definition boxes_disjoint (a b : entity) : Prop :=
  e_x a + e_bx2 a <= e_x b + e_bx1 b \/ e_x b + e_bx2 b <= e_x a + e_bx1 a \/
  e_y a + e_by2 a <= e_y b + e_by1 b \/ e_y b + e_by2 b <= e_y a + e_by1 a.

Definition has_connector (e : entity) (c : Z) : Prop :=
  match e_class e with
  | CComb => 1 <= c <= 4
  | CPole => c = 1 \/ c = 2 \/ c = 5
  | COther => c = 1 \/ c = 2
  end.

Definition red (c : Z) : Prop := c = 1 \/ c = 3.
Definition green (c : Z) : Prop := c = 2 \/ c = 4.
Definition same_colour (c d : Z) : Prop :=
  (red c /\ red d) \/ (green c /\ green d) \/ (c = 5 /\ d = 5).

(* squared Euclidean distance of the two centres *)
Definition dist2 (a b : entity) : Z :=
  (e_x a - e_x b) * (e_x a - e_x b) + (e_y a - e_y b) * (e_y a - e_y b).

Definition ent_with (l : layout) (i : Z) (e : entity) : Prop := In e (l_ents l) /\ e_id e = i.

Definition within_circuit_reach (a b : entity) : Prop :=
  dist2 a b <= e_creach a * e_creach a /\ dist2 a b <= e_creach b * e_creach b.

Definition within_copper_reach (a b : entity) : Prop :=
  dist2 a b <= e_kreach a * e_kreach a /\ dist2 a b <= e_kreach b * e_kreach b.

(* a wire can be pasted: both ends exist, have that connector, same colour class, and a
   circuit (non-copper) wire is no longer than the reach of either end *)
Definition wire_valid (l : layout) (w : wire) : Prop :=
  exists a b, ent_with l (w_e1 w) a /\ ent_with l (w_e2 w) b /\
    has_connector a (w_c1 w) /\ has_connector b (w_c2 w) /\
    same_colour (w_c1 w) (w_c2 w) /\
    (w_c1 w <> 5 -> within_circuit_reach a b).

(* C08, geometric part *)
Definition layout_valid (l : layout) : Prop :=
  NoDup (map e_id (l_ents l)) /\
  (forall a b, In a (l_ents l) -> In b (l_ents l) -> e_id a <> e_id b -> boxes_disjoint a b) /\
  (forall w, In w (l_wires l) -> wire_valid l w).

(* the supply square of pole [p] (centre +- supply distance) and the tile footprint of [e]
   (centre +- half the tile size) share interior points; stated with doubled coordinates so
   that half tiles stay integers *)
Definition supply_meets (p e : entity) : Prop :=
  2 * e_x e - e_tw e < 2 * e_x p + 2 * e_supply p /\ 2 * e_x p - 2 * e_supply p < 2 * e_x e + e_tw e /\
  2 * e_y e - e_th e < 2 * e_y p + 2 * e_supply p /\ 2 * e_y p - 2 * e_supply p < 2 * e_y e + e_th e.

Definition copper_adj (l : layout) (i j : Z) : Prop :=
  exists w, In w (l_wires l) /\ w_c1 w = 5 /\ w_c2 w = 5 /\
    ((w_e1 w = i /\ w_e2 w = j) \/ (w_e1 w = j /\ w_e2 w = i)).

(* joined by a chain of copper wires *)
Inductive copper_conn (l : layout) : Z -> Z -> Prop :=
| cc_refl : forall i, copper_conn l i i
| cc_step : forall i j k, copper_conn l i j -> copper_adj l j k -> copper_conn l i k.

(* C18, geometric part, for the requested pole prototype [t] *)
Definition poles_valid (t : positive) (l : layout) : Prop :=
  (forall e, In e (l_ents l) -> e_elec e = true ->
     exists p, In p (l_ents l) /\ is_pole p = true /\ e_proto p = t /\ supply_meets p e) /\
  (forall w, In w (l_wires l) -> w_c1 w = 5 ->
     exists a b, ent_with l (w_e1 w) a /\ ent_with l (w_e2 w) b /\
       is_pole a = true /\ is_pole b = true /\ within_copper_reach a b) /\
  (forall p q, In p (l_ents l) -> In q (l_ents l) -> is_pole p = true -> is_pole q = true ->
     copper_conn l (e_id p) (e_id q)).

(* C18 without the option: every pole of the blueprint carries a circuit wire, i.e. is a relay *)
Definition relays_only_spec (l : layout) : Prop :=
  forall p, In p (l_ents l) -> is_pole p = true ->
    exists w, In w (l_wires l) /\ w_c1 w <> 5 /\ (w_e1 w = e_id p \/ w_e2 w = e_id p).

(* C09: what the program places: prototype and top-left tile *)
Record placed := { p_proto : positive; p_tx : Z; p_ty : Z }.

(* entity [e] has prototype and top-left tile [p] (doubled coordinates, [u] units per tile) *)
Definition at_tile (u : Z) (p : placed) (e : entity) : Prop :=
  e_proto e = p_proto p /\ 2 * e_x e - e_tw e = 2 * u * p_tx p /\ 2 * e_y e - e_th e = 2 * u * p_ty p.

(* [e] is the one and only entity of the list that is at [p] *)
Definition exactly_one (u : Z) (p : placed) (es : list entity) : Prop :=
  exists l1 e l2, es = l1 ++ e :: l2 /\ at_tile u p e /\
    (forall x, In x l1 -> ~ at_tile u p x) /\ (forall x, In x l2 -> ~ at_tile u p x).

(* the entities of the user prototypes [ups] are exactly the expected placements, each once *)
Definition placed_valid (ups : list positive) (exp : list placed) (l : layout) : Prop :=
  NoDup exp /\
  (forall p, In p exp -> exactly_one (l_unit l) p (l_ents l)) /\
  (forall e, In e (l_ents l) -> In (e_proto e) ups -> exists p, In p exp /\ at_tile (l_unit l) p e).

(* ------------------------------------------------------------------ validators (bool) *)

Definition boxes_disjointb (a b : entity) : bool :=
  (e_x a + e_bx2 a <=? e_x b + e_bx1 b) || (e_x b + e_bx2 b <=? e_x a + e_bx1 a) ||
  (e_y a + e_by2 a <=? e_y b + e_by1 b) || (e_y b + e_by2 b <=? e_y a + e_by1 a).

Fixpoint all_pairs {A} (r : A -> A -> bool) (l : list A) : bool :=
  match l with
  | [] => true
  | x :: t => forallb (r x) t && all_pairs r t
  end.

Fixpoint nodupb {A} (eqb : A -> A -> bool) (l : list A) : bool :=
  match l with
  | [] => true
  | x :: t => negb (existsb (eqb x) t) && nodupb eqb t
  end.

Definition has_connectorb (e : entity) (c : Z) : bool :=
  match e_class e with
  | CComb => (1 <=? c) && (c <=? 4)
  | CPole => (c =? 1) || (c =? 2) || (c =? 5)
  | COther => (c =? 1) || (c =? 2)
  end.

Definition redb (c : Z) : bool := (c =? 1) || (c =? 3).
Definition greenb (c : Z) : bool := (c =? 2) || (c =? 4).
Definition same_colourb (c d : Z) : bool :=
  (redb c && redb d) || (greenb c && greenb d) || ((c =? 5) && (d =? 5)).

Definition lookup_ent (l : layout) (i : Z) : option entity := find (fun e => e_id e =? i) (l_ents l).

Definition creachb (a b : entity) : bool :=
  (dist2 a b <=? e_creach a * e_creach a) && (dist2 a b <=? e_creach b * e_creach b).

Definition kreachb (a b : entity) : bool :=
  (dist2 a b <=? e_kreach a * e_kreach a) && (dist2 a b <=? e_kreach b * e_kreach b).

Definition wire_ok (l : layout) (w : wire) : bool :=
  match lookup_ent l (w_e1 w), lookup_ent l (w_e2 w) with
  | Some a, Some b =>
      has_connectorb a (w_c1 w) && has_connectorb b (w_c2 w) && same_colourb (w_c1 w) (w_c2 w) &&
      ((w_c1 w =? 5) || creachb a b)
  | _, _ => false
  end.

Definition valid_layout (l : layout) : bool :=
  nodupb Z.eqb (map e_id (l_ents l)) && all_pairs boxes_disjointb (l_ents l) && forallb (wire_ok l) (l_wires l).

Definition suppliesb (p e : entity) : bool :=
  (2 * e_x e - e_tw e <? 2 * e_x p + 2 * e_supply p) && (2 * e_x p - 2 * e_supply p <? 2 * e_x e + e_tw e) &&
  (2 * e_y e - e_th e <? 2 * e_y p + 2 * e_supply p) && (2 * e_y p - 2 * e_supply p <? 2 * e_y e + e_th e).

Definition coveredb (t : positive) (l : layout) (e : entity) : bool :=
  existsb (fun p => is_pole p && Pos.eqb (e_proto p) t && suppliesb p e) (l_ents l).

Definition copper_ok (l : layout) (w : wire) : bool :=
  if w_c1 w =? 5 then
    match lookup_ent l (w_e1 w), lookup_ent l (w_e2 w) with
    | Some a, Some b => is_pole a && is_pole b && kreachb a b
    | _, _ => false
    end
  else true.

Definition memz (i : Z) (s : list Z) : bool := existsb (Z.eqb i) s.

(* one sweep over the wires: add the far end of every copper wire that has one end in [s] *)
Fixpoint expand (ws : list wire) (s : list Z) : list Z :=
  match ws with
  | [] => s
  | w :: t =>
      let s' :=
        if (w_c1 w =? 5) && (w_c2 w =? 5) then
          if memz (w_e1 w) s && negb (memz (w_e2 w) s) then w_e2 w :: s
          else if memz (w_e2 w) s && negb (memz (w_e1 w) s) then w_e1 w :: s
          else s
        else s in
      expand t s'
  end.

(* fuelled reachability: sweep until nothing is added or the fuel is used up *)
Fixpoint grow (fuel : nat) (ws : list wire) (s : list Z) : list Z :=
  match fuel with
  | O => s
  | S n => let s' := expand ws s in
           if (length s' =? length s)%nat then s else grow n ws s'
  end.

Definition pole_ids (l : layout) : list Z := map e_id (filter is_pole (l_ents l)).

Definition grid_connected (l : layout) : bool :=
  match pole_ids l with
  | [] => true
  | p0 :: rest => let r := grow (length rest) (l_wires l) [p0] in forallb (fun p => memz p r) rest
  end.

Definition poles_ok (t : positive) (l : layout) : bool :=
  forallb (fun e => negb (e_elec e) || coveredb t l e) (l_ents l) &&
  forallb (copper_ok l) (l_wires l) &&
  grid_connected l.

Definition relays_only (l : layout) : bool :=
  forallb (fun p => negb (is_pole p) ||
                    existsb (fun w => negb (w_c1 w =? 5) && ((w_e1 w =? e_id p) || (w_e2 w =? e_id p))) (l_wires l))
          (l_ents l).

Definition placed_eqb (p q : placed) : bool :=
  Pos.eqb (p_proto p) (p_proto q) && (p_tx p =? p_tx q) && (p_ty p =? p_ty q).

Definition at_tileb (u : Z) (p : placed) (e : entity) : bool :=
  Pos.eqb (e_proto e) (p_proto p) && (2 * e_x e - e_tw e =? 2 * u * p_tx p) && (2 * e_y e - e_th e =? 2 * u * p_ty p).

Definition countb {A} (f : A -> bool) (l : list A) : nat := length (filter f l).

Definition placed_ok (ups : list positive) (exp : list placed) (l : layout) : bool :=
  nodupb placed_eqb exp &&
  forallb (fun p => (countb (at_tileb (l_unit l) p) (l_ents l) =? 1)%nat) exp &&
  forallb (fun e => negb (existsb (Pos.eqb (e_proto e)) ups) || existsb (fun p => at_tileb (l_unit l) p e) exp) (l_ents l).
