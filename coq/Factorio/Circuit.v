(* Circuit.v -- specification model of the Factorio 2.0 circuit network, written ONCE
   over an abstract value algebra.  Instantiated with V = Z (alg [zalg env]) it is the
   concrete tick semantics the properties' "observe_at" refers to; instantiated with
   V = term it is the symbolic executor (Valid/SymExec.v).  No proofs here.

   Rules modelled (trusted, see DESIGN.md section 5):
   - a network = connectors joined by wires of one colour; its value is the signal-wise
     wrapped sum of what every driver on it outputs;
   - arithmetic / decider combinators read the sum of the selected input networks (red,
     green or both per operand) at tick t and show their result at tick t+1;
   - constant combinators (and content sources such as chests, modelled as constants whose
     values are input variables) output their signals at every tick;
   - decider conditions are in disjunctive form: `and` binds tighter than `or`;
   - wildcards: `each` ranges over the non-zero signals of the selected input networks,
     `everything` is true iff all non-zero input signals pass (vacuously true on an empty
     input), `anything` iff some non-zero input signal passes;
   - a decider output either emits a constant or copies the input count of the signal
     from the selected networks; output `everything` forwards every non-zero input signal.
   Signals range over a finite universe [b_univ] fixed per blueprint (every name that
   occurs anywhere in it plus the contents universe of its sources). *)
From Coq Require Import ZArith List Bool PArith NArith.
From FV Require Import Base.Int32.
Import ListNotations.
Open Scope Z_scope.

Definition sig := positive.
Definition var := positive.

(* ------------------------------------------------------------------ syntax *)
Inductive wild := WEach | WAny | WEvery.

Inductive operand :=
| OC (z : Z)                          (* constant *)
| OS (s : sig) (r g : bool)           (* signal read from red and/or green input *)
| OW (w : wild) (r g : bool).         (* wildcard *)

Inductive sref := RS (s : sig) | RW (w : wild).

Record dcond := { c_a : operand; c_op : cop; c_b : operand; c_and : bool (* joined to the previous row by `and` *) }.
Record dout := { d_sig : sref; d_copy : bool; d_const : Z; d_r : bool; d_g : bool }.

Inductive cval := CK (z : Z) | CIn (v : var).

Inductive kind :=
| KConst (on : bool) (vals : list (sig * cval))
| KArith (a : operand) (o : aop) (b : operand) (out : sref)
| KDecider (conds : list dcond) (outs : list dout)
| KPassive (enabled : bool) (cond : option dcond)   (* lamp, inserter, ...: reads, never drives *)
| KPole.

(* net ids: 0 = not connected.  Red and green ids live in separate name spaces.  In a real
   blueprint an output connector lies on at most one network per colour ([e_or], [e_og] have
   at most one element); the lists allow the idealised "private network per consumer"
   circuits used only to classify failures. *)
Record ent := { e_kind : kind; e_ir : N; e_ig : N; e_or : list N; e_og : list N }.

Record bp := { b_ents : list ent; b_univ : list sig }.

(* ------------------------------------------------------------------ algebra *)
Record alg (V : Type) := {
  a_const : Z -> V;
  a_var : var -> V;
  a_arith : aop -> V -> V -> V;
  a_cmp : cop -> V -> V -> V;         (* 0 / 1 *)
  a_and : V -> V -> V;                (* on truth values (non-zero = true); result 0 / 1 *)
  a_or : V -> V -> V;
  a_not : V -> V;
  a_ite : V -> V -> V -> V            (* first argument non-zero ? second : third *)
}.
Arguments a_const {V}. Arguments a_var {V}. Arguments a_arith {V}. Arguments a_cmp {V}.
Arguments a_and {V}. Arguments a_or {V}. Arguments a_not {V}. Arguments a_ite {V}.

Definition zalg (env : var -> Z) : alg Z := {|
  a_const := fun z => wrap32 z;    (* blueprint constants are int32; wrapping makes every value int32 *)
  a_var := fun v => wrap32 (env v);
  a_arith := arith;
  a_cmp := fun o a b => b2z (cmp o a b);
  a_and := fun a b => b2z (nz a && nz b);
  a_or := fun a b => b2z (nz a || nz b);
  a_not := fun a => b2z (negb (nz a));
  a_ite := fun c a b => if nz c then a else b
|}.

Section Step.
Context {V : Type} (A : alg V).

(* a signal map is a list of (signal, value) entries; the value of a signal is the
   wrapped sum of all its entries, so that merging maps is list concatenation *)
Definition smap := list (sig * V).

Definition zero : V := a_const A 0.
Definition add (x y : V) : V := a_arith A Add x y.

Fixpoint get (m : smap) (s : sig) : V :=
  match m with
  | [] => zero
  | (k, v) :: m' => if Pos.eqb k s then add v (get m' s) else get m' s
  end.

Definition state := list smap.          (* output of entity i at the current tick *)

(* what entity e puts on the network of colour [red] at this tick *)
Definition out_nets (red : bool) (e : ent) : list N := if red then e_or e else e_og e.
Definition drives (red : bool) (e : ent) (n : N) : bool := existsb (N.eqb n) (out_nets red e).

Fixpoint netval_aux (red : bool) (n : N) (es : list ent) (st : state) : smap :=
  match es, st with
  | e :: es', m :: st' =>
      if drives red e n then m ++ netval_aux red n es' st' else netval_aux red n es' st'
  | _, _ => []
  end.

Definition netval (b : bp) (st : state) (red : bool) (n : N) : smap :=
  if N.eqb n 0 then [] else netval_aux red n (b_ents b) st.

(* reading signal s from the selected input networks R (red) and G (green) *)
Definition rd (R G : smap) (s : sig) (r g : bool) : V :=
  add (if r then get R s else zero) (if g then get G s else zero).

Definition nzv (x : V) : V := a_not A (a_not A x).       (* truth value of x as 0 / 1 *)

(* operand value; [cur] is the signal `each` currently stands for *)
Definition opd (R G : smap) (cur : option sig) (o : operand) : V :=
  match o with
  | OC z => a_const A z
  | OS s r g => rd R G s r g
  | OW WEach r g => match cur with Some s => rd R G s r g | None => zero end
  | OW _ _ _ => zero
  end.

Fixpoint all_of (l : list V) : V := match l with [] => a_const A 1 | x :: l' => a_and A x (all_of l') end.
Fixpoint any_of (l : list V) : V := match l with [] => a_const A 0 | x :: l' => a_or A x (any_of l') end.

(* one condition row *)
Definition cond1 (U : list sig) (R G : smap) (cur : option sig) (c : dcond) : V :=
  match c_a c with
  | OW WEvery r g =>
      all_of (map (fun s => let v := rd R G s r g in
                            a_or A (a_not A v) (a_cmp A (c_op c) v (opd R G cur (c_b c)))) U)
  | OW WAny r g =>
      any_of (map (fun s => let v := rd R G s r g in
                            a_and A v (a_cmp A (c_op c) v (opd R G cur (c_b c)))) U)
  | a => a_cmp A (c_op c) (opd R G cur a) (opd R G cur (c_b c))
  end.

(* rows in disjunctive form: acc_and is the conjunction of the current group *)
Fixpoint conds_aux (U : list sig) (R G : smap) (cur : option sig) (cs : list dcond) (grp : V) : V :=
  match cs with
  | [] => grp
  | c :: cs' =>
      if c_and c then conds_aux U R G cur cs' (a_and A grp (cond1 U R G cur c))
      else a_or A grp (conds_aux U R G cur cs' (cond1 U R G cur c))
  end.

Definition conds (U : list sig) (R G : smap) (cur : option sig) (cs : list dcond) : V :=
  match cs with
  | [] => a_const A 1
  | c :: cs' => conds_aux U R G cur cs' (cond1 U R G cur c)
  end.

Definition is_each (o : operand) : bool := match o with OW WEach _ _ => true | _ => false end.
Definition uses_each (cs : list dcond) : bool :=
  existsb (fun c => is_each (c_a c) || is_each (c_b c)) cs.

(* outputs of a decider whose conditions hold with truth value c (0 / 1) *)
Definition dout1 (U : list sig) (R G : smap) (c : V) (d : dout) : smap :=
  match d_sig d with
  | RS s => [(s, a_ite A c (if d_copy d then rd R G s (d_r d) (d_g d) else a_const A (d_const d)) zero)]
  | RW WEvery =>
      map (fun s => let v := rd R G s (d_r d) (d_g d) in
                    (s, a_ite A c (if d_copy d then v else a_ite A v (a_const A (d_const d)) zero) zero)) U
  | RW _ => []
  end.

(* `each` decider: evaluated once per signal of the universe that is non-zero on the
   networks the each-operand selects; only `each` outputs are modelled *)
Definition each_sel (cs : list dcond) : bool * bool :=
  match find (fun c => is_each (c_a c)) cs with
  | Some c => match c_a c with OW _ r g => (r, g) | _ => (true, true) end
  | None => (true, true)
  end.

Definition dout_each (R G : smap) (s : sig) (c : V) (d : dout) : smap :=
  match d_sig d with
  | RW WEach => [(s, a_ite A c (if d_copy d then rd R G s (d_r d) (d_g d) else a_const A (d_const d)) zero)]
  | _ => []
  end.

Definition decider_out (U : list sig) (R G : smap) (cs : list dcond) (ds : list dout) : smap :=
  if uses_each cs then
    let '(r, g) := each_sel cs in
    flat_map (fun s =>
      let c := a_and A (rd R G s r g) (conds U R G (Some s) cs) in
      flat_map (dout_each R G s c) ds) U
  else
    let c := conds U R G None cs in
    flat_map (dout1 U R G c) ds.

Definition arith_out (U : list sig) (R G : smap) (a : operand) (o : aop) (b : operand) (out : sref) : smap :=
  match a, out with
  | OW WEach r g, RW WEach =>
      map (fun s => let v := rd R G s r g in
                    (s, a_ite A v (a_arith A o v (opd R G (Some s) b)) zero)) U
  | OW WEach r g, RS t =>
      map (fun s => let v := rd R G s r g in
                    (t, a_ite A v (a_arith A o v (opd R G (Some s) b)) zero)) U
  | _, RS t => [(t, a_arith A o (opd R G None a) (opd R G None b))]
  | _, _ => []
  end.

Definition cvalv (c : cval) : V := match c with CK z => a_const A z | CIn v => a_var A v end.

Definition ent_out (b : bp) (st : state) (e : ent) : smap :=
  match e_kind e with
  | KConst on vals => if on then map (fun kv => (fst kv, cvalv (snd kv))) vals else []
  | KArith a o b' out =>
      arith_out (b_univ b) (netval b st true (e_ir e)) (netval b st false (e_ig e)) a o b' out
  | KDecider cs ds =>
      decider_out (b_univ b) (netval b st true (e_ir e)) (netval b st false (e_ig e)) cs ds
  | KPassive _ _ => []
  | KPole => []
  end.

Definition step (b : bp) (st : state) : state := map (ent_out b st) (b_ents b).

Definition init (b : bp) : state := map (fun _ => []) (b_ents b).

Fixpoint run (b : bp) (n : nat) : state :=
  match n with O => init b | S n' => step b (run b n') end.

(* truth value (0 / 1) of the circuit condition of a passive entity on its two networks *)
Definition passive_cond (b : bp) (st : state) (e : ent) : option V :=
  match e_kind e with
  | KPassive true (Some c) =>
      Some (cond1 (b_univ b) (netval b st true (e_ir e)) (netval b st false (e_ig e)) None c)
  | _ => None
  end.

End Step.

Arguments smap V : clear implicits.
Arguments state V : clear implicits.
