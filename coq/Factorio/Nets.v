(* Nets.v -- the network ids of a blueprint term are exactly the connected components of its wires.
   The exporter computes net ids with a union-find; this file makes that computation untrusted:
   a checked certificate (a rooted forest of wires, given by parent pointers with decreasing depth)
   proves, per colour, that two connectors carry the same non-zero id iff a chain of wires joins them,
   and that every connector field of the [bp] term carries the id of its connector.           C07 C12 *)
From Coq Require Import ZArith List Bool PArith NArith Lia.
From FV Require Import Base.Int32 Factorio.Circuit.
Import ListNotations.
Open Scope N_scope.

Definition conn := (N * N)%type.            (* entity number, connector id (1..4) *)
Definition conn_eqb (a b : conn) : bool := N.eqb (fst a) (fst b) && N.eqb (snd a) (snd b).

Lemma conn_eqb_eq a b : conn_eqb a b = true <-> a = b.
Proof.
  destruct a as [a1 a2], b as [b1 b2]. unfold conn_eqb. cbn [fst snd].
  rewrite andb_true_iff, !N.eqb_eq. split; [intros [-> ->]; reflexivity | intros E; inversion E; auto].
Qed.

Definition wire := (conn * conn)%type.

(* joined by a chain of wires (of one colour) *)
Inductive connected (ws : list wire) : conn -> conn -> Prop :=
| cn_refl a : connected ws a a
| cn_wire a b c : (In (a, b) ws \/ In (b, a) ws) -> connected ws b c -> connected ws a c.

Lemma connected_trans ws a b c : connected ws a b -> connected ws b c -> connected ws a c.
Proof. induction 1; intros H2; [exact H2 | econstructor; [eassumption | auto]]. Qed.

Lemma connected_step ws a b : (In (a, b) ws \/ In (b, a) ws) -> connected ws a b.
Proof. intros H. econstructor; [exact H | constructor]. Qed.

Lemma connected_sym ws a b : connected ws a b -> connected ws b a.
Proof.
  induction 1 as [|a b c H _ IH]; [constructor|].
  eapply connected_trans; [exact IH|]. apply connected_step. tauto.
Qed.

(* ids as an association list; connectors not listed are on no network (id 0) *)
Definition idmap := list (conn * N).
Fixpoint id_of (m : idmap) (c : conn) : N :=
  match m with [] => 0 | (k, v) :: m' => if conn_eqb k c then v else id_of m' c end.

(* certificate: for every listed connector its parent in the forest and its depth; a root is its own parent *)
Record cert_row := { cr_c : conn; cr_parent : conn; cr_depth : nat }.
Definition cert := list cert_row.

Fixpoint row_of (ct : cert) (c : conn) : option cert_row :=
  match ct with [] => None | r :: ct' => if conn_eqb (cr_c r) c then Some r else row_of ct' c end.

Definition wire_in (ws : list wire) (a b : conn) : bool :=
  existsb (fun w => (conn_eqb (fst w) a && conn_eqb (snd w) b) || (conn_eqb (fst w) b && conn_eqb (snd w) a)) ws.

Lemma wire_in_sound ws a b : wire_in ws a b = true -> In (a, b) ws \/ In (b, a) ws.
Proof.
  unfold wire_in. rewrite existsb_exists. intros [[x y] [I H]]. cbn [fst snd] in H.
  apply orb_true_iff in H as [H|H]; apply andb_true_iff in H as [H1 H2];
    apply conn_eqb_eq in H1, H2; subst; tauto.
Qed.

(* root of a net id: given by the certificate as a list id -> root connector *)
Definition roots := list (N * conn).
Fixpoint root_of (rs : roots) (i : N) : option conn :=
  match rs with [] => None | (k, c) :: rs' => if N.eqb k i then Some c else root_of rs' i end.

Definition row_ok (ws : list wire) (m : idmap) (ct : cert) (rs : roots) (r : cert_row) : bool :=
  let c := cr_c r in
  let i := id_of m c in
  negb (N.eqb i 0) &&
  match root_of rs i with
  | None => false
  | Some rt =>
      if conn_eqb c rt then Nat.eqb (cr_depth r) 0
      else
        match row_of ct (cr_parent r) with
        | None => false
        | Some pr =>
            wire_in ws c (cr_parent r) && N.eqb (id_of m (cr_parent r)) i &&
            Nat.ltb (cr_depth pr) (cr_depth r)
        end
  end.

Definition nets_ok (ws : list wire) (m : idmap) (ct : cert) (rs : roots) : bool :=
  (* every wire joins two connectors with one non-zero id *)
  forallb (fun w => N.eqb (id_of m (fst w)) (id_of m (snd w)) && negb (N.eqb (id_of m (fst w)) 0)) ws &&
  (* every connector with a non-zero id has a certificate row *)
  forallb (fun kv => N.eqb (snd kv) 0 ||
                     match row_of ct (fst kv) with Some _ => true | None => false end) m &&
  forallb (row_ok ws m ct rs) ct.

Lemma id_of_in m c : id_of m c <> 0 -> exists k, In (k, id_of m c) m /\ k = c.
Proof.
  induction m as [|[k v] m IH]; cbn [id_of]; [congruence|].
  destruct (conn_eqb k c) eqn:E.
  - intros _. apply conn_eqb_eq in E. subst. exists c. split; [left; reflexivity | reflexivity].
  - intros H. destruct (IH H) as (k' & I & ->). exists c. split; [right; exact I | reflexivity].
Qed.

Lemma row_of_in ct c r : row_of ct c = Some r -> In r ct /\ cr_c r = c.
Proof.
  induction ct as [|x ct IH]; cbn [row_of]; [discriminate|].
  destruct (conn_eqb (cr_c x) c) eqn:E.
  - intros H. inversion H. subst. apply conn_eqb_eq in E. split; [left; reflexivity | exact E].
  - intros H. destruct (IH H). split; [right|]; assumption.
Qed.

Section Sound.
Variables (ws : list wire) (m : idmap) (ct : cert) (rs : roots).
Hypothesis OK : nets_ok ws m ct rs = true.

Lemma ok_parts :
  (forall w, In w ws -> id_of m (fst w) = id_of m (snd w) /\ id_of m (fst w) <> 0) /\
  (forall c, id_of m c <> 0 -> exists r, row_of ct c = Some r) /\
  (forall r, In r ct -> row_ok ws m ct rs r = true).
Proof.
  unfold nets_ok in OK. apply andb_true_iff in OK as [H12 H3]. apply andb_true_iff in H12 as [H1 H2].
  rewrite forallb_forall in H1, H2, H3. repeat split.
  - specialize (H1 _ H). apply andb_true_iff in H1 as [A _]. apply N.eqb_eq in A. exact A.
  - specialize (H1 _ H). apply andb_true_iff in H1 as [_ B]. apply negb_true_iff, N.eqb_neq in B. exact B.
  - intros c Hc. destruct (id_of_in m c Hc) as (k & I & ->). specialize (H2 _ I). cbn [fst snd] in H2.
    apply orb_true_iff in H2 as [Z|R]; [apply N.eqb_eq in Z; congruence|].
    destruct (row_of ct c) as [r|]; [exists r; reflexivity | discriminate].
  - exact H3.
Qed.

(* wires preserve ids, so chains of wires do *)
Lemma connected_same_id a b : connected ws a b -> id_of m a = id_of m b.
Proof.
  destruct ok_parts as (W & _ & _).
  induction 1 as [|a b c H _ IH]; [reflexivity|]. rewrite <- IH.
  destruct H as [H|H]; destruct (W _ H) as [E _]; cbn [fst snd] in E; congruence.
Qed.

(* every certified connector is joined to the root of its id *)
Lemma to_root n : forall r, In r ct -> cr_depth r = n ->
  exists rt, root_of rs (id_of m (cr_c r)) = Some rt /\ connected ws (cr_c r) rt.
Proof.
  destruct ok_parts as (_ & _ & R).
  induction n as [n IH] using lt_wf_ind. intros r I D.
  pose proof (R r I) as K. unfold row_ok in K.
  apply andb_true_iff in K as [_ K].
  destruct (root_of rs (id_of m (cr_c r))) as [rt|] eqn:Ert; [|discriminate].
  exists rt. split; [reflexivity|].
  destruct (conn_eqb (cr_c r) rt) eqn:Eq.
  - apply conn_eqb_eq in Eq. rewrite Eq. constructor.
  - destruct (row_of ct (cr_parent r)) as [pr|] eqn:Epr; [|discriminate].
    apply andb_true_iff in K as [K Kd]. apply andb_true_iff in K as [Kw Ki].
    apply Nat.ltb_lt in Kd. apply N.eqb_eq in Ki.
    destruct (row_of_in _ _ _ Epr) as [Ipr Cpr].
    destruct (IH (cr_depth pr) ltac:(lia) pr Ipr eq_refl) as (rt' & Ert' & Cn).
    rewrite Cpr, Ki, Ert in Ert'. inversion Ert'. subst rt'.
    econstructor; [apply wire_in_sound; exact Kw|]. rewrite Cpr in Cn. exact Cn.
Qed.

Theorem nets_ok_sound a b :
  (id_of m a = id_of m b /\ id_of m a <> 0 -> connected ws a b) /\
  (connected ws a b -> id_of m a = id_of m b).
Proof.
  split; [|apply connected_same_id].
  intros [E NZ]. destruct ok_parts as (_ & Rows & _).
  destruct (Rows a NZ) as [ra Ha]. assert (NZb : id_of m b <> 0) by congruence.
  destruct (Rows b NZb) as [rb Hb].
  destruct (row_of_in _ _ _ Ha) as [Ia Ca]. destruct (row_of_in _ _ _ Hb) as [Ib Cb].
  destruct (to_root _ ra Ia eq_refl) as (rt & Er & Cna).
  destruct (to_root _ rb Ib eq_refl) as (rt' & Er' & Cnb).
  rewrite Ca in Er, Cna. rewrite Cb in Er', Cnb. rewrite <- E in Er'. rewrite Er in Er'. inversion Er'. subst rt'.
  eapply connected_trans; [exact Cna | apply connected_sym; exact Cnb].
Qed.
End Sound.

(* ------------------------------------------------------------ tie to the [bp] term
   Connector layout: combinators read on 1 (red) / 2 (green) and drive 3 / 4; every other entity
   has one connection point per colour (1 / 2) on which it both reads and drives. *)
Definition dual (k : kind) : bool :=
  match k with KArith _ _ _ _ | KDecider _ _ => true | _ => false end.

Definition one (l : list N) : option N := match l with [] => Some 0 | [x] => Some x | _ => None end.

(* entity numbers: position i of [b_ents] is entity [nth i nums] of the blueprint *)
Definition ent_ids_ok (mr mg : idmap) (num : N) (e : ent) : bool :=
  match one (e_or e), one (e_og e) with
  | Some orr, Some og =>
      if dual (e_kind e) then
        N.eqb (e_ir e) (id_of mr (num, 1)) && N.eqb (e_ig e) (id_of mg (num, 2)) &&
        N.eqb orr (id_of mr (num, 3)) && N.eqb og (id_of mg (num, 4))
      else
        match e_kind e with
        | KConst _ _ =>
            (* a source drives its connection point; it reads nothing *)
            N.eqb orr (id_of mr (num, 1)) && N.eqb og (id_of mg (num, 2))
        | _ =>
            N.eqb (e_ir e) (id_of mr (num, 1)) && N.eqb (e_ig e) (id_of mg (num, 2))
        end
  | _, _ => false
  end.

Definition bp_nets_ok (b : bp) (nums : list N)
           (wr wg : list wire) (mr mg : idmap) (cr cg : cert) (rr rg : roots) : bool :=
  Nat.eqb (length nums) (length (b_ents b)) &&
  nets_ok wr mr cr rr && nets_ok wg mg cg rg &&
  forallb (fun ne => ent_ids_ok mr mg (fst ne) (snd ne)) (combine nums (b_ents b)).

Theorem bp_nets_ok_sound b nums wr wg mr mg cr cg rr rg :
  bp_nets_ok b nums wr wg mr mg cr cg rr rg = true ->
  (* the ids are the connected components of the wires, per colour *)
  (forall a c, (id_of mr a = id_of mr c /\ id_of mr a <> 0 -> connected wr a c) /\
               (connected wr a c -> id_of mr a = id_of mr c)) /\
  (forall a c, (id_of mg a = id_of mg c /\ id_of mg a <> 0 -> connected wg a c) /\
               (connected wg a c -> id_of mg a = id_of mg c)) /\
  (* and every entity of the term carries the ids of its own connectors *)
  (forall i e, nth_error (b_ents b) i = Some e ->
     exists num, nth_error nums i = Some num /\ ent_ids_ok mr mg num e = true).
Proof.
  unfold bp_nets_ok. intros H.
  apply andb_true_iff in H as [H F]. apply andb_true_iff in H as [H G]. apply andb_true_iff in H as [L R].
  apply Nat.eqb_eq in L. split; [|split].
  - intros a c. apply (nets_ok_sound wr mr cr rr R).
  - intros a c. apply (nets_ok_sound wg mg cg rg G).
  - intros i e E. rewrite forallb_forall in F.
    assert (Hi : (i < length nums)%nat) by (rewrite L; apply nth_error_Some; congruence).
    destruct (nth_error nums i) as [num|] eqn:En; [|apply nth_error_None in En; lia].
    exists num. split; [reflexivity|].
    apply (F (num, e)).
    clear - E En. revert i nums E En. induction (b_ents b) as [|x l IH]; intros [|i] [|n ns] E En; cbn in *; try discriminate.
    + inversion E; inversion En; subst. left. reflexivity.
    + right. eapply IH; eassumption.
Qed.
