(* C12 -- independent computations do not interfere.
   Only statements, each closed by `exact` (or a two-line composition of proved lemmas), and
   Print Assumptions. *)
From Coq Require Import ZArith List Lia.
From FV Require Import Base.Int32 Factorio.Circuit Valid.Hom Valid.Term Valid.SymExec
                       Facto.Syntax Facto.Denote Valid.CheckC01 Proofs.FrameProofs Proofs.EmbedProofs.
Import ListNotations.
Open Scope nat_scope.

(* Specification side: the values of a program are not changed by an independent program placed in
   front of it (its references shifted past the first program), nor those of the first by what follows:
   for every value algebra, hence for every valuation of the inputs. *)
Theorem C12_values_of_a_combination : forall (V : Type) (A : alg V) (U : list sig) ds1 ds2,
  den_prog A U (ds1 ++ map (dlift (length ds1)) ds2) = den_prog A U ds1 ++ den_prog A U ds2 /\
  bden_prog A U (ds1 ++ map (dlift (length ds1)) ds2) = bden_prog A U ds1 ++ bden_prog A U ds2.
Proof. exact (fun V A U => den_prog_frame A U). Qed.
Print Assumptions C12_values_of_a_combination.

(* Circuit side: when the blueprint the compiler emitted for the combination passes the validator, every
   named output of the second program shows, at every tick after settling and for every valuation of the
   inputs, exactly the value that program denotes on its own. *)
Theorem C12_second_program_unaffected : forall b fuel ds1 ds2 qs k,
  check_c01 b fuel (ds1 ++ map (dlift (length ds1)) ds2) qs = Some k ->
  forall (env : var -> Z) (t : nat), (k < t)%nat ->
  forall q j, In q qs -> q_decl q = length ds1 + j ->
    observe (zalg env) b (run (zalg env) b t) (q_obs (ds1 ++ map (dlift (length ds1)) ds2) q)
    = nth j (den_prog (zalg env) (b_univ b) ds2) 0%Z.
Proof.
  intros b fuel ds1 ds2 qs k H env t Ht q j Hq Hj.
  rewrite (check_c01_sound b fuel _ qs k H env t Ht q Hq), Hj.
  apply den_prog_frame_nth.
Qed.
Print Assumptions C12_second_program_unaffected.

Theorem C12_first_program_unaffected : forall b fuel ds1 ds2 qs k,
  check_c01 b fuel (ds1 ++ map (dlift (length ds1)) ds2) qs = Some k ->
  forall (env : var -> Z) (t : nat), (k < t)%nat ->
  forall q, In q qs -> q_decl q < length ds1 ->
    observe (zalg env) b (run (zalg env) b t) (q_obs (ds1 ++ map (dlift (length ds1)) ds2) q)
    = nth (q_decl q) (den_prog (zalg env) (b_univ b) ds1) 0%Z.
Proof.
  intros b fuel ds1 ds2 qs k H env t Ht q Hq Hlt.
  rewrite (check_c01_sound b fuel _ qs k H env t Ht q Hq).
  apply den_prog_frame_nth_first. exact Hlt.
Qed.
Print Assumptions C12_first_program_unaffected.

(* General form: P is embedded in ds along rho (checked by [embeds], run inside the kernel-checked case of
   every program C12 compiles): each declaration of P keeps, inside ds, exactly the value it has in P alone --
   whatever stands between and around P's declarations, for every algebra / valuation. *)
Theorem C12_embedded_part_keeps_its_values : forall (V : Type) (A : alg V) (U : list sig) P ds rho,
  embeds P ds rho = true ->
  forall i, i < length P ->
    nth (rn rho i) (den_prog A U ds) (a_const A 0) = nth i (den_prog A U P) (a_const A 0) /\
    nth (rn rho i) (bden_prog A U ds) [] = nth i (bden_prog A U P) [].
Proof. intros V A U P ds rho H. exact (embedded_values A U P ds rho (embeds_sound P ds rho H)). Qed.
Print Assumptions C12_embedded_part_keeps_its_values.

(* Circuit side: the blueprint emitted for ds passes the validator, P is embedded in ds: every named output
   of P shows, after settling, for every valuation, the value P denotes on its own. *)
Theorem C12_part_unaffected_by_the_rest : forall b fuel P ds rho qs k,
  check_c01 b fuel ds qs = Some k ->
  embeds P ds rho = true ->
  forall (env : var -> Z) (t : nat), (k < t)%nat ->
  forall q i, In q qs -> i < length P -> q_decl q = rn rho i ->
    observe (zalg env) b (run (zalg env) b t) (q_obs ds q)
    = nth i (den_prog (zalg env) (b_univ b) P) 0%Z.
Proof.
  intros b fuel P ds rho qs k H E env t Ht q i Hq Hi Hj.
  rewrite (check_c01_sound b fuel ds qs k H env t Ht q Hq), Hj.
  change 0%Z with (a_const (zalg env) 0) at 1.
  rewrite (proj1 (C12_embedded_part_keeps_its_values Z (zalg env) (b_univ b) P ds rho E i Hi)).
  reflexivity.
Qed.
Print Assumptions C12_part_unaffected_by_the_rest.

Example C12_embed_example :
  let a : sig := 1%positive in
  let P := [DIn (Some a) 1%positive; DSig (EBin Add (EVar 0) (EInt 1))] in
  let Q := [DIn (Some a) 2%positive; DSig (EBin Mul (EVar 0) (EInt 3))] in
  (* Q0 P0 P1 Q1 *)
  let ds := [DIn (Some a) 2%positive; DIn (Some a) 1%positive; DSig (EBin Add (EVar 1) (EInt 1)); DSig (EBin Mul (EVar 0) (EInt 3))] in
  embeds P ds [1; 2] = true /\ embeds Q ds [0; 3] = true /\ embeds P ds [0; 2] = false.
Proof. repeat split; vm_compute; reflexivity. Qed.

(* non-vacuity: two one-line programs on the same signal name *)
Example C12_example :
  let a : sig := 1%positive in
  let p1 := [DIn (Some a) 1%positive; DSig (EBin Add (EVar 0) (EInt 1))] in
  let p2 := [DIn (Some a) 2%positive; DSig (EBin Mul (EVar 0) (EInt 3))] in
  forall env, den_prog (zalg env) [a] (p1 ++ map (dlift (length p1)) p2)
              = den_prog (zalg env) [a] p1 ++ den_prog (zalg env) [a] p2.
Proof. intros a p1 p2 env. exact (proj1 (den_prog_frame (zalg env) [a] p1 p2)). Qed.
