(* C08 -- every emitted blueprint can be pasted.
   Only statements, each closed by `exact`, and Print Assumptions.  The relay-partition clause
   (relay poles never join two circuit networks) is decided on the Python side against the
   compiler's own logical edges (py/geom.py, py/props/c08.py). *)
From Coq Require Import ZArith List Bool PArith.
From FV Require Import Factorio.Geometry Proofs.GeometryProofs.
Import ListNotations.
Open Scope Z_scope.

(* The validator that is run (by vm_compute, inside a Qed-closed lemma) on every blueprint the
   real compiler emits: a `true` answer means that entity numbers are unique, the collision
   boxes of any two different entities are disjoint, and every wire joins two existing
   entities at connectors their classes have, with one colour class, a circuit wire being
   within the circuit reach of both ends. *)
Theorem C08_valid_layout_sound : forall l, valid_layout l = true ->
  NoDup (map e_id (l_ents l)) /\
  (forall a b, In a (l_ents l) -> In b (l_ents l) -> e_id a <> e_id b -> boxes_disjoint a b) /\
  (forall w, In w (l_wires l) -> wire_valid l w).
Proof. exact valid_layout_sound. Qed.
Print Assumptions C08_valid_layout_sound.

(* ... and it is exact: it answers `false` only for a layout that cannot be pasted *)
Theorem C08_valid_layout_decides : forall l, valid_layout l = true <-> layout_valid l.
Proof. exact valid_layout_iff. Qed.
Print Assumptions C08_valid_layout_decides.

(* non-vacuity: constant combinator -> arithmetic combinator -> relay pole -> lamp, in 1/1000 tile *)
Definition c08_const (i x y : Z) : entity :=
  {| e_id := i; e_proto := 1; e_x := x; e_y := y; e_bx1 := -350; e_by1 := -350; e_bx2 := 350; e_by2 := 350;
     e_tw := 1000; e_th := 1000; e_class := COther; e_creach := 9000; e_kreach := 0; e_supply := 0; e_elec := false |}.
Definition c08_arith (i x y : Z) : entity :=
  {| e_id := i; e_proto := 2; e_x := x; e_y := y; e_bx1 := -350; e_by1 := -650; e_bx2 := 350; e_by2 := 650;
     e_tw := 1000; e_th := 2000; e_class := CComb; e_creach := 9000; e_kreach := 0; e_supply := 0; e_elec := true |}.
Definition c08_pole (i x y : Z) : entity :=
  {| e_id := i; e_proto := 3; e_x := x; e_y := y; e_bx1 := -150; e_by1 := -150; e_bx2 := 150; e_by2 := 150;
     e_tw := 1000; e_th := 1000; e_class := CPole; e_creach := 9000; e_kreach := 9000; e_supply := 3500; e_elec := false |}.
Definition c08_lamp (i x y : Z) : entity :=
  {| e_id := i; e_proto := 4; e_x := x; e_y := y; e_bx1 := -150; e_by1 := -150; e_bx2 := 150; e_by2 := 150;
     e_tw := 1000; e_th := 1000; e_class := COther; e_creach := 9000; e_kreach := 0; e_supply := 0; e_elec := true |}.

Definition c08_good : layout :=
  {| l_unit := 1000;
     l_ents := [c08_const 1 500 500; c08_arith 2 1500 1000; c08_pole 3 8500 4500; c08_lamp 4 15500 500];
     l_wires := [ {| w_e1 := 1; w_c1 := 1; w_e2 := 2; w_c2 := 1 |};
                  {| w_e1 := 2; w_c1 := 3; w_e2 := 3; w_c2 := 1 |};
                  {| w_e1 := 3; w_c1 := 1; w_e2 := 4; w_c2 := 1 |};
                  {| w_e1 := 2; w_c1 := 4; w_e2 := 2; w_c2 := 2 |} ] |}.

Example C08_example : valid_layout c08_good = true.
Proof. vm_compute. reflexivity. Qed.

(* the validator is not constantly true: a 14-tile wire, an overlap, a red-green wire, a copper
   connector on a lamp are each refused *)
Example C08_example_rejects :
  valid_layout {| l_unit := 1000; l_ents := [c08_arith 2 1500 1000; c08_lamp 4 15500 500];
                  l_wires := [ {| w_e1 := 2; w_c1 := 3; w_e2 := 4; w_c2 := 1 |} ] |} = false /\
  valid_layout {| l_unit := 1000; l_ents := [c08_arith 1 1500 1000; c08_const 2 1500 1500]; l_wires := [] |} = false /\
  valid_layout {| l_unit := 1000; l_ents := [c08_arith 1 1500 1000; c08_const 2 2500 1500];
                  l_wires := [ {| w_e1 := 1; w_c1 := 3; w_e2 := 2; w_c2 := 2 |} ] |} = false /\
  valid_layout {| l_unit := 1000; l_ents := [c08_pole 1 1500 1500; c08_lamp 2 2500 1500];
                  l_wires := [ {| w_e1 := 1; w_c1 := 5; w_e2 := 2; w_c2 := 5 |} ] |} = false.
Proof. vm_compute. repeat split; reflexivity. Qed.
