(* C20 -- every named result is exposed and labelled.  Statements only. *)
From Coq Require Import List Arith ZArith.
Import ListNotations.
From FV Require Import Facto.Syntax Facto.IO.

(* the outputs of a program are exactly its Signal declarations that no declaration mentions *)
Theorem C20_outputs_are_the_unconsumed_names : forall ds i,
  In i (outputs ds) <->
  exists d, nth_error ds i = Some d /\ is_sig_decl d = true /\
            forall d', In d' ds -> decl_mentions d' i = false.
Proof. exact outputs_spec. Qed.
Print Assumptions C20_outputs_are_the_unconsumed_names.

(* the anchor bookkeeping validator run on every blueprint: every output with a non-constant
   producer has exactly one anchor, and no name has two *)
Theorem C20_anchor_validator_sound : forall ds anchors,
  check_c20 ds anchors = true ->
  (forall i, In i (outputs ds) -> needs_anchor ds i = true -> count_nat i anchors = 1) /\
  (forall i, count_nat i anchors <= 1).
Proof. exact check_c20_sound. Qed.
Print Assumptions C20_anchor_validator_sound.

Example C20_example :
  check_c20 [DIn None 1%positive; DSig (EBin Int32.Add (EVar 0) (EInt 1%Z)); DSig (EVar 1)] [2] = true.
Proof. reflexivity. Qed.
