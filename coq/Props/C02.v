(* C02 -- bundle operations act member-wise and never leak foreign signals.  Statements only. *)
From Coq Require Import ZArith List.
From FV Require Import Base.Int32 Factorio.Circuit Valid.Hom Valid.Term Valid.SymExec
                       Facto.Syntax Facto.Denote Valid.CheckC01.
Import ListNotations.

(* the validator run on every emitted blueprint: for ALL inputs and every signal s of the universe,
   the anchor network of a bundle output carries exactly the member value the source denotes
   (0 for a non-member: nothing leaks) *)
Theorem C02_validator_sound : forall b fuel ds qs rs bqs k,
  check_progb b fuel ds qs rs bqs = Some k ->
  forall (env : var -> Z) (t : nat), (k < t)%nat ->
  forall q, In q bqs -> forall s, In s (b_univ b) ->
    observe (zalg env) b (run (zalg env) b t) {| o_rn := bq_rn q; o_gn := bq_gn q; o_sig := s |}
    = get (zalg env) (nth (bq_decl q) (bden_prog (zalg env) (b_univ b) ds) []) s.
Proof. exact check_progb_sound. Qed.
Print Assumptions C02_validator_sound.

(* the symbolic and the concrete meaning of bundle programs agree under every valuation *)
Theorem C02_bundle_denote_all_inputs : forall env U ds,
  map (hm (eval env)) (bden_prog talg U ds) = bden_prog (zalg env) U ds.
Proof. intros env U ds. exact (bden_prog_hom talg (zalg env) (eval env) (talg_hom env) U ds). Qed.
Print Assumptions C02_bundle_denote_all_inputs.
