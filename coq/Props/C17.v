(* C17 (b) -- the standard library meets its contracts; (a) -- imports are textual inclusion.
   Only statements and `exact`; the proofs live in Proofs/LibMathProofs.v and Proofs/PreprocProofs.v. *)
From Coq Require Import ZArith List Bool String.
From FV Require Import Base.Int32 Gen.LibMath Proofs.LibMathProofs.
Import ListNotations.
Open Scope Z_scope.

Theorem C17_abs : forall x, in32 x -> in32 (Z.abs x) -> lib_abs [x] = Z.abs x.
Proof. exact abs_spec. Qed.
Print Assumptions C17_abs.

Theorem C17_sign : forall x, in32 x -> lib_sign [x] = Z.sgn x.
Proof. exact sign_spec. Qed.
Print Assumptions C17_sign.

Theorem C17_min : forall a b, in32 a -> in32 b -> lib_min [a; b] = Z.min a b.
Proof. exact min_spec. Qed.
Print Assumptions C17_min.

Theorem C17_max : forall a b, in32 a -> in32 b -> lib_max [a; b] = Z.max a b.
Proof. exact max_spec. Qed.
Print Assumptions C17_max.

Theorem C17_clamp : forall x low high,
  in32 x -> in32 low -> in32 high -> low <= high ->
  lib_clamp [x; low; high] = Z.max low (Z.min x high) /\
  low <= lib_clamp [x; low; high] <= high /\
  (low <= x <= high -> lib_clamp [x; low; high] = x).
Proof. exact clamp_spec. Qed.
Print Assumptions C17_clamp.

Theorem C17_lerp : forall a b t,
  in32 a -> in32 b -> in32 t ->
  in32 (b - a) -> in32 ((b - a) * t) -> in32 (a + ((b - a) * t) ÷ 100) ->
  lib_lerp [a; b; t] = a + ((b - a) * t) ÷ 100.
Proof. exact lerp_spec. Qed.
Print Assumptions C17_lerp.

Theorem C17_between : forall x low high,
  in32 x -> in32 low -> in32 high ->
  lib_between [x; low; high] = b2z ((low <=? x) && (x <=? high)).
Proof. exact between_spec. Qed.
Print Assumptions C17_between.

Theorem C17_get_bit : forall v p, in32 v -> 0 <= p < 32 -> lib_get_bit [v; p] = b2z (Z.testbit v p).
Proof. exact get_bit_spec. Qed.
Print Assumptions C17_get_bit.

Theorem C17_set_bit : forall v p,
  in32 v -> 0 <= p <= 30 -> lib_set_bit [v; p] = Z.setbit v p /\ in32 (Z.setbit v p).
Proof. exact set_bit_spec. Qed.
Print Assumptions C17_set_bit.

Theorem C17_clear_bit : forall v p,
  in32 v -> 0 <= p <= 30 -> lib_clear_bit [v; p] = Z.clearbit v p /\ in32 (Z.clearbit v p).
Proof. exact clear_bit_spec. Qed.
Print Assumptions C17_clear_bit.

Theorem C17_toggle_bit : forall v p,
  in32 v -> 0 <= p <= 30 ->
  lib_toggle_bit [v; p] = Z.lxor v (2 ^ p) /\ in32 (Z.lxor v (2 ^ p)) /\
  forall i, 0 <= i -> Z.testbit (lib_toggle_bit [v; p]) i = xorb (Z.testbit v i) (i =? p).
Proof. exact toggle_bit_spec. Qed.
Print Assumptions C17_toggle_bit.

Theorem C17_div_floor : forall a b,
  in32 a -> in32 b -> b <> 0 -> in32 (a / b) -> lib_div_floor [a; b] = a / b.
Proof. exact div_floor_spec. Qed.
Print Assumptions C17_div_floor.

Theorem C17_mod_positive : forall a b,
  in32 a -> in32 b -> b <> 0 -> in32 (Z.abs b) ->
  lib_mod_positive [a; b] = a mod (Z.abs b) /\ 0 <= lib_mod_positive [a; b] < Z.abs b.
Proof. exact mod_positive_spec. Qed.
Print Assumptions C17_mod_positive.

(* ------------------------------------------------------------------ (a) imports *)
From FV Require Import Model.Preproc Proofs.PreprocProofs.
Close Scope Z_scope.
Open Scope string_scope.
Open Scope list_scope.

Theorem C17_preproc_terminates : forall fs cwd sp fuel base main,
  List.length fs <= fuel -> preprocess fs cwd sp fuel base main <> OutOfFuel.
Proof. exact preproc_terminates. Qed.
Print Assumptions C17_preproc_terminates.

Theorem C17_preproc_once : forall fs cwd sp fuel base main seen out,
  preprocess fs cwd sp fuel base main = Ok seen out ->
  NoDup (begins out) /\ seen = rev (begins out) /\ incl (begins out) (map fst fs).
Proof. exact preproc_once. Qed.
Print Assumptions C17_preproc_once.

Theorem C17_preproc_is_paste : forall fs cwd sp fuel base main out,
  paste fs cwd sp (S fuel) base main = Some out -> NoDup (begins out) ->
  preprocess fs cwd sp fuel base main = Ok (rev (begins out)) out.
Proof. exact preproc_is_paste. Qed.
Print Assumptions C17_preproc_is_paste.

Theorem C17_resolve_next_to_importer : forall fs cwd1 cwd2 sp1 sp2 base r,
  exists_file fs (base ++ r) = true ->
  resolve fs cwd1 sp1 base r = resolve fs cwd2 sp2 base r.
Proof. exact resolve_next_to_importer_cwd_indep. Qed.
Print Assumptions C17_resolve_next_to_importer.

Theorem C17_resolve_cwd_indep : forall fs cwd1 cwd2 sp base r,
  (forall d, In (Rel d) sp -> exists_file fs ((cwd1 ++ d) ++ r) = false /\ exists_file fs ((cwd2 ++ d) ++ r) = false) ->
  resolve fs cwd1 sp base r = resolve fs cwd2 sp base r.
Proof. exact resolve_cwd_indep. Qed.
Print Assumptions C17_resolve_cwd_indep.

(* refuted on the model (and confirmed on the real resolver, known finding L2 of known_findings.lib.json): the documented
   form `import "lib/<file>"` resolves only when the working directory is the repository root *)
Theorem C17_lib_prefix_cwd_independent_refuted :
  exists fs root base f cwd1 cwd2,
    exists_file fs (root ++ ["lib"; f]) = true /\
    resolve fs cwd1 (shipped_path root) base ["lib"; f] = Some (root ++ ["lib"; f]) /\
    resolve fs cwd2 (shipped_path root) base ["lib"; f] = None.
Proof. exact resolve_lib_prefix_cwd_independent_refuted. Qed.
Print Assumptions C17_lib_prefix_cwd_independent_refuted.

(* refuted on the model (and confirmed on the real compiler, known finding L3): a cycle through the compiled
   file itself includes the main text a second time *)
Theorem C17_main_text_once_refuted :
  exists fs cwd sp fuel m main seen out,
    find_file fs m = Some main /\
    preprocess fs cwd sp fuel (dirname m) main = Ok seen out /\
    In m (begins out).
Proof. exact main_text_once_refuted. Qed.
Print Assumptions C17_main_text_once_refuted.
