(* C19 -- the same source always yields the same logical circuit.  Statements only. *)
From Coq Require Import List NArith.
From FV Require Import Factorio.Circuit Valid.Iso.

(* the per-pair check (run by vm_compute inside a Qed-closed lemma on every pair of builds of one
   source under two schedules) establishes an entity bijection preserving every configuration and
   an injective renaming of network ids under which all connectors correspond *)
Theorem C19_iso_check_sound : forall b1 b2 pi rr rg,
  iso_check b1 b2 pi rr rg = true -> same_circuit b1 b2 pi rr rg.
Proof. exact iso_check_sound. Qed.
Print Assumptions C19_iso_check_sound.
