(* C03 -- a gated memory cell latches the written value and holds it.  Statements only. *)
From Coq Require Import ZArith List.
From FV Require Import Base.Int32 Factorio.Circuit Valid.Hom Valid.Term Valid.SymExec
                       Facto.Syntax Facto.Denote Valid.CheckC01 Valid.CellCheck Model.Cells.
Import ListNotations.
Open Scope Z_scope.

(* the gate pair, for ALL data and enable streams: *)
Theorem C03_tick_law : forall (D W : nat -> Z), (forall t, in32 (D t)) -> forall t,
  V D W (S t) = if W t >? 0 then D t else if W t =? 0 then V D W t else 0.
Proof. exact gated_cell_tick. Qed.
Print Assumptions C03_tick_law.

Theorem C03_zero_before_first_write : forall (D W : nat -> Z), (forall t, in32 (D t)) -> forall n,
  (forall t, (t < n)%nat -> W t = 0) -> V D W n = 0.
Proof. exact gated_cell_zero_before_first_write. Qed.

Theorem C03_follows_while_enabled : forall (D W : nat -> Z), (forall t, in32 (D t)) -> forall t,
  W t > 0 -> V D W (S t) = D t.
Proof. exact gated_cell_follow. Qed.

Theorem C03_keeps_last_written_value : forall (D W : nat -> Z), (forall t, in32 (D t)) -> forall a n,
  W a > 0 -> (forall t, (S a <= t < S a + n)%nat -> W t = 0) -> V D W (S a + n) = D a.
Proof. exact gated_cell_latches. Qed.
Print Assumptions C03_keeps_last_written_value.

(* the per-blueprint validator ties an emitted gate pair to exactly those equations, with the
   data and the enable the source wrote, for all inputs and all cell contents *)
Theorem C03_validator_sound : forall b cut fuel ds qs rs cells k,
  check_cells b cut fuel ds qs rs cells = Some k ->
  exists st : state term,
  forall env : var -> Z,
    let s := map (hm (eval env)) st in
    let U := b_univ b in
    step (zalg env) (freeze b cut) s = s /\
    (forall q, In q qs ->
       observe (zalg env) (freeze b cut) s (q_obs ds q) = nth (q_decl q) (den_prog (zalg env) U ds) 0) /\
    (forall c, In c cells ->
       let s' := step (zalg env) b s in
       let en := zden env U ds (g_when c) >? 0 in
       zget env (nth (g_w c) s' []) (g_sig c) = (if en then zden env U ds (g_data c) else 0) /\
       zget env (nth (g_h c) s' []) (g_sig c)
         = (if en then 0 else wrap32 (wrap32 (env (g_vw c)) + wrap32 (env (g_vh c))))).
Proof. exact check_cells_sound. Qed.
Print Assumptions C03_validator_sound.
