(* C01 -- scalar expressions compute what the source says, for every input.
   Only statements, each closed by `exact`, and Print Assumptions.  *)
From Coq Require Import ZArith List.
From FV Require Import Base.Int32 Factorio.Circuit Valid.Hom Valid.Term Valid.SymExec
                       Facto.Syntax Facto.Denote Valid.CheckC01.
Import ListNotations.

(* The validator that is run (by vm_compute, inside a Qed-closed lemma) on every blueprint the
   real compiler emits is sound for ALL valuations of the declared inputs and ALL ticks after
   the settling tick it found. *)
Theorem C01_validator_sound : forall b fuel ds qs k,
  check_c01 b fuel ds qs = Some k ->
  forall (env : var -> Z) (t : nat), (k < t)%nat ->
  forall q, In q qs ->
    observe (zalg env) b (run (zalg env) b t) (q_obs ds q)
    = nth (q_decl q) (den_prog (zalg env) (b_univ b) ds) 0%Z.
Proof. exact check_c01_sound. Qed.
Print Assumptions C01_validator_sound.

(* symbolic execution commutes with evaluation: one symbolic run stands for all inputs *)
Theorem C01_symexec_all_inputs : forall env b n,
  map (hm (eval env)) (run talg b n) = run (zalg env) b n.
Proof. intros env b n. exact (run_hom talg (zalg env) (eval env) (talg_hom env) b n). Qed.
Print Assumptions C01_symexec_all_inputs.

(* the normalising term algebra is a homomorphic image of int32 arithmetic *)
Theorem C01_normaliser_sound : forall env, is_hom talg (zalg env) (eval env).
Proof. exact talg_hom. Qed.
Print Assumptions C01_normaliser_sound.

(* the symbolic and the concrete meaning of a source program agree under every valuation *)
Theorem C01_denote_all_inputs : forall env U ds,
  map (eval env) (den_prog talg U ds) = den_prog (zalg env) U ds.
Proof. intros env U ds. exact (den_prog_hom talg (zalg env) (eval env) (talg_hom env) U ds). Qed.
Print Assumptions C01_denote_all_inputs.

(* non-vacuity: a two-combinator blueprint for  Signal b = a * 3 + 2  passes the validator *)
Example C01_example :
  let a : sig := 1%positive in
  let bpx := {| b_ents := [
     {| e_kind := KConst true [(a, CIn 1%positive)]; e_ir := 0; e_ig := 0; e_or := [1%N]; e_og := [] |};
     {| e_kind := KArith (OS a true false) Mul (OC 3) (RS a); e_ir := 1; e_ig := 0; e_or := [2%N]; e_og := [] |};
     {| e_kind := KArith (OS a true false) Add (OC 2) (RS a); e_ir := 2; e_ig := 0; e_or := [3%N]; e_og := [] |};
     {| e_kind := KConst true []; e_ir := 0; e_ig := 0; e_or := [3%N]; e_og := [] |}];
     b_univ := [a] |} in
  check_c01 bpx 6 [DIn (Some a) 1%positive; DSig (EBin Add (EBin Mul (EVar 0) (EInt 3)) (EInt 2))]
            [{| q_decl := 1; q_rn := 3; q_gn := 0; q_csig := a |}] = Some 3%nat.
Proof. vm_compute. reflexivity. Qed.

(* the net ids of a blueprint term are the connected components of the blueprint's wires, and every
   entity of the term carries the ids of its own connectors: the exporter's union-find is not trusted *)
From FV Require Import Factorio.Nets.
Theorem C01_nets_are_wire_components : forall b nums wr wg mr mg cr cg rr rg,
  bp_nets_ok b nums wr wg mr mg cr cg rr rg = true ->
  (forall a c, (id_of mr a = id_of mr c /\ id_of mr a <> 0%N -> connected wr a c) /\
               (connected wr a c -> id_of mr a = id_of mr c)) /\
  (forall a c, (id_of mg a = id_of mg c /\ id_of mg a <> 0%N -> connected wg a c) /\
               (connected wg a c -> id_of mg a = id_of mg c)) /\
  (forall i e, nth_error (b_ents b) i = Some e ->
     exists num, nth_error nums i = Some num /\ ent_ids_ok mr mg num e = true).
Proof. exact bp_nets_ok_sound. Qed.
Print Assumptions C01_nets_are_wire_components.

Example C01_nets_example :
  nets_ok [((1,3),(2,1)); ((2,1),(3,1))]%N [((1,3),1); ((2,1),1); ((3,1),1)]%N
          [ {| cr_c := (1,3)%N; cr_parent := (1,3)%N; cr_depth := 0 |};
            {| cr_c := (2,1)%N; cr_parent := (1,3)%N; cr_depth := 1 |};
            {| cr_c := (3,1)%N; cr_parent := (2,1)%N; cr_depth := 2 |} ]
          [(1, (1,3))]%N = true
  /\ nets_ok [((1,3),(2,1))]%N [((1,3),1); ((2,1),1); ((3,1),1)]%N
          [ {| cr_c := (1,3)%N; cr_parent := (1,3)%N; cr_depth := 0 |};
            {| cr_c := (2,1)%N; cr_parent := (1,3)%N; cr_depth := 1 |};
            {| cr_c := (3,1)%N; cr_parent := (2,1)%N; cr_depth := 2 |} ]
          [(1, (1,3))]%N = false.
Proof. split; vm_compute; reflexivity. Qed.
