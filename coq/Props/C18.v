(* C18 -- requested power poles power every electric consumer and form one copper grid.
   Only statements, each closed by `exact`, and Print Assumptions.  "User entities unchanged"
   is C09's validator run on the same blueprints; "circuit unchanged" is the comparison with the
   pole-less build on the Python side (py/props/c18.py). *)
From Coq Require Import ZArith List Bool PArith.
From FV Require Import Factorio.Geometry Proofs.GeometryProofs.
Import ListNotations.
Open Scope Z_scope.

(* `true` means: every entity whose prototype has an electric energy source has its tile
   footprint meeting the supply square of a pole of the requested prototype t; every copper wire
   joins two existing poles and is within the copper reach of both; any two poles of the
   blueprint are joined by a chain of copper wires. *)
Theorem C18_poles_ok_sound : forall t l, poles_ok t l = true ->
  (forall e, In e (l_ents l) -> e_elec e = true ->
     exists p, In p (l_ents l) /\ is_pole p = true /\ e_proto p = t /\ supply_meets p e) /\
  (forall w, In w (l_wires l) -> w_c1 w = 5 ->
     exists a b, ent_with l (w_e1 w) a /\ ent_with l (w_e2 w) b /\
       is_pole a = true /\ is_pole b = true /\ within_copper_reach a b) /\
  (forall p q, In p (l_ents l) -> In q (l_ents l) -> is_pole p = true -> is_pole q = true ->
     copper_conn l (e_id p) (e_id q)).
Proof. exact poles_ok_sound. Qed.
Print Assumptions C18_poles_ok_sound.

(* without the option: every pole of the blueprint carries a circuit wire (it is a relay) *)
Theorem C18_relays_only_sound : forall l, relays_only l = true ->
  forall p, In p (l_ents l) -> is_pole p = true ->
    exists w, In w (l_wires l) /\ w_c1 w <> 5 /\ (w_e1 w = e_id p \/ w_e2 w = e_id p).
Proof. exact relays_only_sound. Qed.
Print Assumptions C18_relays_only_sound.

Definition c18_arith (i x y : Z) : entity :=
  {| e_id := i; e_proto := 2; e_x := x; e_y := y; e_bx1 := -350; e_by1 := -650; e_bx2 := 350; e_by2 := 650;
     e_tw := 1000; e_th := 2000; e_class := CComb; e_creach := 9000; e_kreach := 0; e_supply := 0; e_elec := true |}.
Definition c18_lamp (i x y : Z) : entity :=
  {| e_id := i; e_proto := 4; e_x := x; e_y := y; e_bx1 := -150; e_by1 := -150; e_bx2 := 150; e_by2 := 150;
     e_tw := 1000; e_th := 1000; e_class := COther; e_creach := 9000; e_kreach := 0; e_supply := 0; e_elec := true |}.
Definition c18_medium (i x y : Z) : entity :=
  {| e_id := i; e_proto := 3; e_x := x; e_y := y; e_bx1 := -150; e_by1 := -150; e_bx2 := 150; e_by2 := 150;
     e_tw := 1000; e_th := 1000; e_class := CPole; e_creach := 9000; e_kreach := 9000; e_supply := 3500; e_elec := false |}.
(* big pole with the supply distance of the game data: 2 tiles *)
Definition c18_big (i x y : Z) : entity :=
  {| e_id := i; e_proto := 5; e_x := x; e_y := y; e_bx1 := -650; e_by1 := -650; e_bx2 := 650; e_by2 := 650;
     e_tw := 2000; e_th := 2000; e_class := CPole; e_creach := 32000; e_kreach := 32000; e_supply := 2000; e_elec := false |}.

Definition c18_wire (a b : Z) : wire := {| w_e1 := a; w_c1 := 5; w_e2 := b; w_c2 := 5 |}.

(* non-vacuity: three medium poles in a row, 7 tiles apart, a combinator and a lamp *)
Example C18_example :
  poles_ok 3 {| l_unit := 1000;
                l_ents := [c18_medium 1 (-2500) (-2500); c18_medium 2 4500 (-2500); c18_medium 3 11500 (-2500);
                           c18_arith 4 500 0; c18_lamp 5 14500 500];
                l_wires := [c18_wire 2 1; c18_wire 3 2] |} = true.
Proof. vm_compute. reflexivity. Qed.

(* refused: a lamp outside every supply square (big poles 10 tiles apart cover 4 of every 10 tiles:
   the shape of finding S7), two poles without a copper chain, a copper wire longer than the reach *)
Example C18_example_rejects :
  poles_ok 5 {| l_unit := 1000; l_ents := [c18_big 1 (-4000) (-4000); c18_big 2 6000 (-4000); c18_lamp 3 500 500];
                l_wires := [c18_wire 1 2] |} = false /\
  poles_ok 3 {| l_unit := 1000; l_ents := [c18_medium 1 500 500; c18_medium 2 4500 500]; l_wires := [] |} = false /\
  poles_ok 3 {| l_unit := 1000; l_ents := [c18_medium 1 500 500; c18_medium 2 10500 500]; l_wires := [c18_wire 1 2] |} = false.
Proof. vm_compute. repeat split; reflexivity. Qed.

Example C18_example_relays :
  relays_only {| l_unit := 1000; l_ents := [c18_arith 1 500 1000; c18_medium 2 8500 500; c18_lamp 3 16500 500];
                 l_wires := [ {| w_e1 := 1; w_c1 := 3; w_e2 := 2; w_c2 := 1 |}; {| w_e1 := 2; w_c1 := 1; w_e2 := 3; w_c2 := 1 |} ] |} = true /\
  relays_only {| l_unit := 1000; l_ents := [c18_arith 1 500 1000; c18_medium 2 8500 500]; l_wires := [] |} = false.
Proof. vm_compute. split; reflexivity. Qed.
