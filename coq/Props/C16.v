(* C16 -- a for loop equals its unrolling: the iteration sequence.  Statements only. *)
From Coq Require Import ZArith List.
From FV Require Import Gen.ForIter Proofs.ForIterProofs.
Import ListNotations.
Open Scope Z_scope.

(* ForStmt.get_iteration_values (regenerated from /repo on every run) yields, for ALL
   (start, stop, step) in Z^3 with step <> 0, the arithmetic progression from start with the
   given step whose elements are strictly before stop in the direction of the step and whose
   next element no longer is; fuel only has to exceed |stop - start|. *)
Theorem C16_range_with_step : forall a b s fuel,
  s <> 0 -> (Z.to_nat (Z.abs (b - a)) < fuel)%nat ->
  exists l, iter_values fuel None (Some a) (Some b) (Some s) = Some l /\ is_range a b s l.
Proof. exact iter_values_step. Qed.
Print Assumptions C16_range_with_step.

Theorem C16_range_default_step : forall a b fuel,
  (Z.to_nat (Z.abs (b - a)) < fuel)%nat ->
  exists l, iter_values fuel None (Some a) (Some b) None = Some l /\
            is_range a b (if a <? b then 1 else -1) l.
Proof. exact iter_values_default. Qed.
Print Assumptions C16_range_default_step.

Theorem C16_list_iterator : forall vs st sp se fuel, iter_values fuel (Some vs) st sp se = Some vs.
Proof. exact iter_values_list. Qed.

(* the characterisation pins exactly one list *)
Theorem C16_range_unique : forall a b s l1 l2,
  s <> 0 -> is_range a b s l1 -> is_range a b s l2 -> l1 = l2.
Proof. exact is_range_unique. Qed.
Print Assumptions C16_range_unique.
