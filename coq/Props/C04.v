(* C04 -- self-referential writes iterate the written function exactly.  Statements only. *)
From Coq Require Import ZArith List.
From FV Require Import Base.Int32 Factorio.Circuit Valid.Hom Valid.Term Valid.SymExec
                       Facto.Syntax Facto.Denote Valid.CheckC01 Valid.CellCheck Valid.StateCheck Model.Cells.
Import ListNotations.
Open Scope Z_scope.

(* model: a ring of combinators, each showing at tick t+1 its function of what its predecessor
   shows at tick t, returns after one round trip the composition of all stage functions *)
Theorem C04_ring1 : forall g x0 n, ring_run [g] n [x0] = [Nat.iter n g x0].
Proof. intros g x0 n. exact (ring1_iterates [g] g x0 n eq_refl). Qed.
Theorem C04_ring2 : forall g1 g2 a b, ring_run [g1; g2] 2 [a; b] = [g1 (g2 a); g2 (g1 b)].
Proof. exact ring2_iterates. Qed.
Theorem C04_ring3 : forall g1 g2 g3 a b c,
  ring_run [g1; g2; g3] 3 [a; b; c] = [g1 (g3 (g2 a)); g2 (g1 (g3 b)); g3 (g2 (g1 c))].
Proof. exact ring3_iterates. Qed.
Print Assumptions C04_ring3.

(* tie: on the emitted blueprint, every stage's next value is a function of its predecessor only
   (ring_shape), it is what one real tick produces, and the composition around the ring is the
   written function of the value readers see, for all inputs and all states; L = number of stages *)
Theorem C04_validator_sound : forall b cut fuel ds qs rs stages fexpr L,
  check_ring b cut fuel ds qs rs stages fexpr = Some L ->
  L = length stages /\
  exists (st st' : state term) (comp : term),
    compose st' stages None = Some comp /\
    (forall env : var -> Z, eval env comp = zden env (b_univ b) ds fexpr) /\
    (forall env : var -> Z,
       let s := map (hm (eval env)) st in
       step (zalg env) (freeze b cut) s = s /\
       forall sg, In sg stages ->
         zget env (nth (sg_ent sg) (step (zalg env) b s) []) (sg_sig sg)
         = eval env (get talg (nth (sg_ent sg) st' []) (sg_sig sg))).
Proof. exact check_ring_sound. Qed.
Print Assumptions C04_validator_sound.

(* substitution used for the composition is semantics preserving *)
Theorem C04_subst_sound : forall env a r, eval env a = eval env r -> forall t, eval env (subst a r t) = eval env t.
Proof. exact subst_sound. Qed.
