(* C14 -- ill-formed programs are rejected and produce no blueprint.
   Only statements, each closed by `exact`, and Print Assumptions.  The model side of the
   property: the documented static rules (Facto/Wf.v) reject a violating construct wherever it
   occurs.  The compiler is tied to `wf` by the accept/reject correspondence of py/props/c14.py. *)
From Coq Require Import ZArith List Bool String.
From FV Require Import Facto.Wf Proofs.WfProofs.
Import ListNotations.

(* For every context -- a program with a hole at any statement position, inside any nesting of
   function and loop bodies -- and every statement that violates a rule (`violates`, one
   constructor per rule family) under the environment the context provides at the hole, the
   plugged program is ill-formed. *)
Theorem C14_wf_compositional : forall known c s st,
  ctx_state known c = Some st -> violates known st s -> wf known (plug c s) = false.
Proof. exact wf_compositional. Qed.
Print Assumptions C14_wf_compositional.

(* the same for any statement the checker refuses at the hole, whatever the reason *)
Theorem C14_plug_rejects : forall known c s,
  (forall st, ctx_state known c = Some st -> check_stmt known st s = None) ->
  wf known (plug c s) = false.
Proof. exact plug_rejects. Qed.
Print Assumptions C14_plug_rejects.

(* a context that is itself ill-formed before the hole cannot be repaired by what is plugged in *)
Theorem C14_dead_context : forall known c s,
  ctx_state known c = None -> wf known (plug c s) = false.
Proof. exact wf_dead_context. Qed.
Print Assumptions C14_dead_context.

(* recursion, stated on the context alone: a call to f anywhere below the declaration of f *)
Theorem C14_recursion_anywhere : forall known c s f ps,
  In (FFunc f ps) (map l_frame (c_layers c)) ->
  stmt_occurs (is_call f) s = true ->
  wf known (plug c s) = false.
Proof. exact wf_recursion_anywhere. Qed.
Print Assumptions C14_recursion_anywhere.

(* a violating construct may sit at any depth inside the expressions of the statement *)
Theorem C14_expression_depth : forall known G opn p,
  (forall e, p e = true -> ty_expr known G opn e = None) ->
  forall e, occurs p e = true -> ty_expr known G opn e = None.
Proof. exact strict. Qed.
Print Assumptions C14_expression_depth.

(* non-vacuity: a well-formed program with a function, a loop, memories, bundles, a filter and
   `:`; a context with a hole in a loop in a function whose plain filling is well-formed, and
   which rejects a second write, an undefined name and a recursive call by the theorems above *)
Example C14_example :
  wf ex_known ex_prog = true
  /\ wf ex_known (plug ex_ctx (SDecl KSignal "w" (WVar "t"))) = true
  /\ wf ex_known (plug ex_ctx (SWrite "q" (WInt 1) None)) = false
  /\ wf ex_known (plug ex_ctx (SDecl KSignal "w" (WBin (WVar "t") (WUn (WVar "nope"))))) = false
  /\ wf ex_known (plug ex_ctx (SDecl KSignal "w" (WCall "f" [WVar "t"]))) = false.
Proof. exact (conj ex_prog_wf (conj ex_ctx_wf (conj ex_ctx_second_write (conj ex_ctx_undef ex_ctx_recursion)))). Qed.
