(* C09 -- user-placed entities appear exactly once, at the tile the program says.
   Only statements, each closed by `exact`, and Print Assumptions.  The expected placements
   come from the generator's elaboration of the source program (loops unrolled, calls inlined,
   constant coordinates evaluated); static properties are compared on the Python side. *)
From Coq Require Import ZArith List Bool PArith.
From FV Require Import Factorio.Geometry Proofs.GeometryProofs.
Import ListNotations.
Open Scope Z_scope.

(* `true` means: the expected placements are pairwise different; for each of them the blueprint
   contains exactly one entity of that prototype whose top-left tile is the given one; and every
   blueprint entity of a user prototype is one of the expected placements (nothing added, moved
   or duplicated), whatever other entities the compiler emitted. *)
Theorem C09_placed_ok_sound : forall ups exp l, placed_ok ups exp l = true ->
  NoDup exp /\
  (forall p, In p exp -> exactly_one (l_unit l) p (l_ents l)) /\
  (forall e, In e (l_ents l) -> In (e_proto e) ups -> exists p, In p exp /\ at_tile (l_unit l) p e).
Proof. exact placed_ok_sound. Qed.
Print Assumptions C09_placed_ok_sound.

Definition c09_lamp (i x y : Z) : entity :=
  {| e_id := i; e_proto := 4; e_x := x; e_y := y; e_bx1 := -150; e_by1 := -150; e_bx2 := 150; e_by2 := 150;
     e_tw := 1000; e_th := 1000; e_class := COther; e_creach := 9000; e_kreach := 0; e_supply := 0; e_elec := true |}.
Definition c09_arith (i x y : Z) : entity :=
  {| e_id := i; e_proto := 2; e_x := x; e_y := y; e_bx1 := -350; e_by1 := -650; e_bx2 := 350; e_by2 := 650;
     e_tw := 1000; e_th := 2000; e_class := CComb; e_creach := 9000; e_kreach := 0; e_supply := 0; e_elec := true |}.

(* non-vacuity: lamps at tiles (3,0) and (-2,5) among a combinator *)
Example C09_example :
  placed_ok [4%positive]
            [ {| p_proto := 4; p_tx := 3; p_ty := 0 |}; {| p_proto := 4; p_tx := -2; p_ty := 5 |} ]
            {| l_unit := 1000; l_ents := [c09_lamp 1 3500 500; c09_arith 2 500 2000; c09_lamp 3 (-1500) 5500]; l_wires := [] |}
  = true.
Proof. vm_compute. reflexivity. Qed.

(* a lamp shifted by 49 tiles (the shape of finding S8), a duplicated lamp and an extra lamp are refused *)
Example C09_example_rejects :
  placed_ok [4%positive] [ {| p_proto := 4; p_tx := 0; p_ty := 60 |} ]
            {| l_unit := 1000; l_ents := [c09_lamp 1 49500 60500]; l_wires := [] |} = false /\
  placed_ok [4%positive] [ {| p_proto := 4; p_tx := 0; p_ty := 60 |} ]
            {| l_unit := 1000; l_ents := [c09_lamp 1 500 60500; c09_lamp 2 500 60500]; l_wires := [] |} = false /\
  placed_ok [4%positive] [ {| p_proto := 4; p_tx := 0; p_ty := 60 |} ]
            {| l_unit := 1000; l_ents := [c09_lamp 1 500 60500; c09_lamp 2 1500 60500]; l_wires := [] |} = false.
Proof. vm_compute. repeat split; reflexivity. Qed.
