(* C11 -- compile-time arithmetic equals run-time arithmetic.  Statements only. *)
From Coq Require Import ZArith String List.
From FV Require Import Base.Int32 Gen.Fold Proofs.FoldProofs.
Open Scope string_scope.
Open Scope Z_scope.

(* AST-level folder (ConstantFolder.fold_binary_operation, regenerated from /repo): whenever the
   folded value fits a blueprint constant it is the value the combinator computes at run time,
   for all int32 operands in the specified domain (shift 0..31, exponent >= 0, and for / % the
   operand signs on which floor and truncating division coincide). *)
Theorem C11_ast_fold_sound : forall o a b v,
  fold_dom o a b -> ast_fold (ast_name o) a b = Some v -> in32 v -> v = arith o a b.
Proof. exact ast_fold_arith_sound. Qed.
Print Assumptions C11_ast_fold_sound.

Theorem C11_ast_fold_total : forall o a b, exists v, ast_fold (ast_name o) a b = Some v.
Proof. exact ast_fold_arith_total. Qed.

Theorem C11_ast_fold_cmp : forall o a b, ast_fold (cmp_name o) a b = Some (b2z (cmp o a b)).
Proof. exact ast_fold_cmp_sound. Qed.
Print Assumptions C11_ast_fold_cmp.

Theorem C11_ast_fold_logic : forall a b,
  ast_fold "&&" a b = Some (b2z (nz a && nz b)) /\ ast_fold "||" a b = Some (b2z (nz a || nz b)).
Proof. intros a b. split; [exact (ast_fold_land a b) | exact (ast_fold_lor a b)]. Qed.

(* IR-level folder (ConstantPropagationOptimizer._fold_arithmetic / _fold_comparison) *)
Theorem C11_ir_fold_sound : forall o a b v,
  fold_dom o a b -> ir_fold_arith (ir_name o) a b = Some v -> in32 v -> v = arith o a b.
Proof. exact ir_fold_arith_sound. Qed.
Print Assumptions C11_ir_fold_sound.

Theorem C11_ir_fold_cmp : forall o a b,
  ir_fold_cmp (ir_cmp_name o) a b = Some (cmp o a b) /\ ir_fold_cmp (ir_cmp_name2 o) a b = Some (cmp o a b).
Proof. exact ir_fold_cmp_sound. Qed.

(* Where the faithful model of the folders contradicts the property (known finding S2): the
   full-strength statement "forall a b in int32, fold o a b = Some (arith o a b)" is FALSE of
   the pinned code; these are the witnesses, replayed against the real compiler on every run. *)
Theorem C11_div_negative_refuted :
  exists a b v, in32 a /\ in32 b /\ ast_fold "/" a b = Some v /\ in32 v /\ v <> arith Div a b.
Proof. exact ast_fold_div_negative_refuted. Qed.
Theorem C11_mod_negative_refuted :
  exists a b v, in32 a /\ in32 b /\ ast_fold "%" a b = Some v /\ in32 v /\ v <> arith Mod a b.
Proof. exact ast_fold_mod_negative_refuted. Qed.
Theorem C11_overflow_refuted :
  (exists a b v, in32 a /\ in32 b /\ ast_fold "*" a b = Some v /\ ~ in32 v) /\
  (exists a b v, in32 a /\ in32 b /\ ast_fold "+" a b = Some v /\ ~ in32 v) /\
  (exists a b v, in32 a /\ in32 b /\ shift_ok b /\ ast_fold "<<" a b = Some v /\ ~ in32 v) /\
  (exists a b v, in32 a /\ in32 b /\ 0 <= b /\ ast_fold "**" a b = Some v /\ ~ in32 v).
Proof. exact ast_fold_overflow_refuted. Qed.
Print Assumptions C11_overflow_refuted.
