(* C05 -- set/reset latches obey set, reset, hold and the declared priority.  Statements only. *)
From Coq Require Import ZArith List Bool.
From FV Require Import Base.Int32 Factorio.Circuit Valid.Hom Valid.Term Valid.SymExec
                       Facto.Syntax Facto.Denote Valid.CheckC01 Valid.CellCheck Valid.StateCheck Model.Cells.
Import ListNotations.
Open Scope Z_scope.

(* templates: the set-priority rows meet the four-row table; the reset-priority single condition
   meets it except when both are active (known finding S3, refuted by witness) *)
Theorem C05_sr_rows_table : forall l s r, sr_rows l s r = latch_spec true l s r.
Proof. exact sr_latch_table. Qed.
Theorem C05_rs_row_table_except_both : forall l s r,
  negb (s && r) = true -> rs_row l s r = latch_spec false l s r.
Proof. exact rs_latch_table_except_both. Qed.
Theorem C05_rs_both_active_refuted : exists l s r, rs_row l s r <> latch_spec false l s r.
Proof. exact rs_latch_both_active_refuted. Qed.
Print Assumptions C05_rs_both_active_refuted.

(* tie: on the emitted blueprint, for all inputs and either value of the latch bit, one real tick
   from the quasi-settled state leaves the latch at the specified next bit *)
Theorem C05_validator_sound : forall b cut fuel ds qs rs ls k,
  check_latches b cut fuel ds qs rs ls = Some k ->
  exists st : state term,
  forall env : var -> Z,
    let s := map (hm (eval env)) st in
    let U := b_univ b in
    step (zalg env) (freeze b cut) s = s /\
    (forall l, In l ls ->
       (wrap32 (env (l_var l)) = 0 \/ wrap32 (env (l_var l)) = 1) ->
       let s' := step (zalg env) b s in
       let bit := wrap32 (env (l_var l)) >? 0 in
       let sa := zden env U ds (l_set l) >? 0 in
       let ra := zden env U ds (l_reset l) >? 0 in
       zget env (nth (l_ent l) s' []) (l_sig l)
       = b2z (if l_set_first l then sa || (bit && negb ra) else negb ra && (sa || bit))).
Proof. exact check_latches_sound. Qed.
Print Assumptions C05_validator_sound.

(* case analysis over boolean atoms is sound *)
Theorem C05_case_analysis_sound : forall atoms t1 t2,
  equiv_on atoms t1 t2 = true ->
  forall env, Forall (fun a => eval env a = 0 \/ eval env a = 1) atoms -> eval env t1 = eval env t2.
Proof. exact equiv_on_sound. Qed.
