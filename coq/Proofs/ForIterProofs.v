(* ForIterProofs.v -- the regenerated ForStmt.get_iteration_values (Gen/ForIter.v)
   produces exactly the documented sequence, for all (start, stop, step) in Z^3.   C16 *)
From Coq Require Import ZArith List Bool Lia.
From FV Require Import Gen.ForIter.
Import ListNotations.
Open Scope Z_scope.

(* "x lies strictly before the stop value, in the direction of the step" *)
Definition before (s x b : Z) : Prop := if 0 <? s then x < b else x > b.

(* arithmetic progression a, a+s, ..., a+(n-1)s *)
Definition prog (a s : Z) (n : nat) : list Z := map (fun k => a + Z.of_nat k * s) (seq 0 n).

(* the documented sequence is characterised by: it is the progression from [a] with
   step [s], every element is strictly before [b], and the next one no longer is. *)
Definition is_range (a b s : Z) (l : list Z) : Prop :=
  exists n, l = prog a s n /\
            (forall k, (k < n)%nat -> before s (a + Z.of_nat k * s) b) /\
            ~ before s (a + Z.of_nat n * s) b.

Lemma prog_S a s n : prog a s (S n) = a :: prog (a + s) s n.
Proof.
  unfold prog. cbn [seq map]. f_equal; [lia|].
  rewrite <- seq_shift, map_map. apply map_ext. intros k. lia.
Qed.

Lemma loop1_spec : forall fuel stop step i acc,
  0 < step -> (Z.to_nat (stop - i) < fuel)%nat ->
  exists n i', iter_values_loop1 fuel stop step i acc = Some (i', acc ++ prog i step n) /\
     (forall k, (k < n)%nat -> i + Z.of_nat k * step < stop) /\
     ~ (i + Z.of_nat n * step < stop).
Proof.
  induction fuel as [|f IH]; intros stop step i acc Hs Hf; [lia|].
  cbn [iter_values_loop1]. destruct (i <? stop) eqn:E.
  - apply Z.ltb_lt in E.
    destruct (IH stop step (i + step) (acc ++ [i]) Hs) as (n & i' & H1 & H2 & H3); [lia|].
    exists (S n), i'. split; [|split].
    + rewrite H1, prog_S, <- app_assoc. reflexivity.
    + intros k Hk. destruct k as [|k]; [lia|]. specialize (H2 k). lia.
    + lia.
  - apply Z.ltb_ge in E. exists O, i. split; [|split].
    + unfold prog; cbn. rewrite app_nil_r. reflexivity.
    + intros k Hk; lia.
    + lia.
Qed.

Lemma loop2_spec : forall fuel stop step i acc,
  step < 0 -> (Z.to_nat (i - stop) < fuel)%nat ->
  exists n i', iter_values_loop2 fuel stop step i acc = Some (i', acc ++ prog i step n) /\
     (forall k, (k < n)%nat -> i + Z.of_nat k * step > stop) /\
     ~ (i + Z.of_nat n * step > stop).
Proof.
  induction fuel as [|f IH]; intros stop step i acc Hs Hf; [lia|].
  cbn [iter_values_loop2]. destruct (i >? stop) eqn:E.
  - rewrite Z.gtb_ltb in E. apply Z.ltb_lt in E.
    destruct (IH stop step (i + step) (acc ++ [i]) Hs) as (n & i' & H1 & H2 & H3); [lia|].
    exists (S n), i'. split; [|split].
    + rewrite H1, prog_S, <- app_assoc. reflexivity.
    + intros k Hk. destruct k as [|k]; [lia|]. specialize (H2 k). lia.
    + lia.
  - rewrite Z.gtb_ltb in E. apply Z.ltb_ge in E. exists O, i. split; [|split].
    + unfold prog; cbn. rewrite app_nil_r. reflexivity.
    + intros k Hk; lia.
    + lia.
Qed.

(* explicit step *)
Theorem iter_values_step a b s fuel :
  s <> 0 -> (Z.to_nat (Z.abs (b - a)) < fuel)%nat ->
  exists l, iter_values fuel None (Some a) (Some b) (Some s) = Some l /\ is_range a b s l.
Proof.
  intros Hs Hf. unfold iter_values.
  destruct (s >? 0) eqn:E1.
  - rewrite Z.gtb_ltb in E1. apply Z.ltb_lt in E1.
    destruct (loop1_spec fuel b s a [] E1) as (n & i' & H1 & H2 & H3); [lia|].
    rewrite H1. eexists; split; [reflexivity|]. exists n. cbn [app].
    unfold before. replace (0 <? s) with true by (symmetry; apply Z.ltb_lt; lia). auto.
  - rewrite Z.gtb_ltb in E1. apply Z.ltb_ge in E1.
    destruct (s <? 0) eqn:E2; [|apply Z.ltb_ge in E2; lia].
    apply Z.ltb_lt in E2.
    destruct (loop2_spec fuel b s a [] E2) as (n & i' & H1 & H2 & H3); [lia|].
    rewrite H1. eexists; split; [reflexivity|]. exists n. cbn [app].
    unfold before. replace (0 <? s) with false by (symmetry; apply Z.ltb_ge; lia). auto.
Qed.

(* default step: +1 when start < stop, -1 otherwise *)
Theorem iter_values_default a b fuel :
  (Z.to_nat (Z.abs (b - a)) < fuel)%nat ->
  exists l, iter_values fuel None (Some a) (Some b) None = Some l /\
            is_range a b (if a <? b then 1 else -1) l.
Proof.
  intros Hf.
  destruct (iter_values_step a b (if a <? b then 1 else -1) fuel) as (l & H1 & H2);
    [destruct (a <? b); lia | exact Hf |].
  exists l. split; [|exact H2]. rewrite <- H1. unfold iter_values. reflexivity.
Qed.

(* a zero step yields no iteration at all (the analyzer rejects it before) *)
Theorem iter_values_zero_step a b fuel :
  iter_values fuel None (Some a) (Some b) (Some 0) = Some [].
Proof. reflexivity. Qed.

(* list iterator: the listed values, in order *)
Theorem iter_values_list vs st sp se fuel :
  iter_values fuel (Some vs) st sp se = Some vs.
Proof. reflexivity. Qed.

(* is_range determines the list uniquely: the statement is not vacuous and pins one answer *)
Lemma before_mono_pos s a b k n : 0 < s -> (k <= n)%nat ->
  before s (a + Z.of_nat n * s) b -> before s (a + Z.of_nat k * s) b.
Proof. unfold before. intros Hs Hk. replace (0 <? s) with true by (symmetry; apply Z.ltb_lt; lia). nia. Qed.
Lemma before_mono_neg s a b k n : s < 0 -> (k <= n)%nat ->
  before s (a + Z.of_nat n * s) b -> before s (a + Z.of_nat k * s) b.
Proof. unfold before. intros Hs Hk. replace (0 <? s) with false by (symmetry; apply Z.ltb_ge; lia). nia. Qed.

Theorem is_range_unique a b s l1 l2 : s <> 0 -> is_range a b s l1 -> is_range a b s l2 -> l1 = l2.
Proof.
  intros Hs (n1 & E1 & A1 & B1) (n2 & E2 & A2 & B2). subst.
  assert (n1 = n2); [|subst; reflexivity].
  destruct (Nat.lt_trichotomy n1 n2) as [H|[H|H]]; [|exact H|].
  - exfalso. apply B1. apply A2. exact H.
  - exfalso. apply B2. apply A1. exact H.
Qed.

Example range_0_3 : iter_values 10 None (Some 0) (Some 3) None = Some [0; 1; 2].
Proof. reflexivity. Qed.
Example range_5_m1_step_m2 : iter_values 10 None (Some 5) (Some (-1)) (Some (-2)) = Some [5; 3; 1].
Proof. reflexivity. Qed.
