(* PreprocProofs.v -- C17 (a) on the model of Model/Preproc.v:
   preproc_terminates  with fuel >= number of files the expansion never runs out of fuel, on any
                       import graph (cycles, self imports, diamonds);
   preproc_once        every file's text is included at most once;
   preproc_is_paste    when the plain textual paste terminates and pastes no file twice (acyclic
                       graph, no repeated import) the expansion IS the paste;
   resolve_*           which resolutions do not depend on the working directory, and a refutation
                       for the documented `import "lib/<file>"` form under the shipped search path. *)
From Coq Require Import List String Bool Arith Lia.
From FV Require Import Model.Preproc.
Import ListNotations.

(* ------------------------------------------------------------------ equality, lookup *)
Lemma path_eqb_eq p q : path_eqb p q = true <-> p = q.
Proof.
  revert q. induction p as [|a p IH]; intros [|b q]; cbn; try (split; congruence).
  rewrite andb_true_iff, String.eqb_eq, IH. split; [intros [-> ->]; reflexivity | intros H; inversion H; auto].
Qed.

Lemma path_eqb_refl p : path_eqb p p = true.
Proof. apply path_eqb_eq. reflexivity. Qed.

Lemma mem_In p l : mem p l = true <-> In p l.
Proof.
  unfold mem. rewrite existsb_exists. split.
  - intros (x & Hx & E). apply path_eqb_eq in E. subst. assumption.
  - intros H. exists p. split; [assumption | apply path_eqb_refl].
Qed.

Lemma mem_false p l : mem p l = false <-> ~ In p l.
Proof. rewrite <- mem_In. destruct (mem p l); split; congruence. Qed.

Lemma find_file_In fs p c : find_file fs p = Some c -> In p (map fst fs).
Proof.
  induction fs as [|[q d] fs IH]; cbn; [discriminate|].
  destruct (path_eqb q p) eqn:E; [apply path_eqb_eq in E; auto | auto].
Qed.

Lemma exists_file_In fs p : exists_file fs p = true -> In p (map fst fs).
Proof. unfold exists_file. destruct (find_file fs p) eqn:E; [intros _; eapply find_file_In; eassumption | discriminate]. Qed.

Lemma resolve_In fs cwd sp base r p : resolve fs cwd sp base r = Some p -> In p (map fst fs).
Proof. unfold resolve. intros H. apply find_some in H. apply exists_file_In, H. Qed.

(* ------------------------------------------------------------------ begins *)
Lemma begins_app a b : begins (a ++ b) = begins a ++ begins b.
Proof. induction a as [|[s|p|p|r] a IH]; cbn; rewrite ?IH; reflexivity. Qed.

Lemma begins_import p o1 o2 : begins (OBegin p :: o1 ++ OEnd p :: o2) = p :: begins o1 ++ begins o2.
Proof. cbn. rewrite begins_app. reflexivity. Qed.

(* ------------------------------------------------------------------ the invariant of the processed set *)
Section Inv.
Variables (fs : fsys) (cwd : dir) (sp : list sentry).
Let F := map fst fs.

(* what a successful run does to the processed set *)
Definition good (f : dir -> list path -> list line -> res) : Prop :=
  forall base seen ls sn out, f base seen ls = Ok sn out ->
    sn = rev (begins out) ++ seen /\ (NoDup seen -> NoDup sn) /\ (incl seen F -> incl sn F).

Lemma pp_lines_good rec : good rec -> good (pp_lines fs cwd sp rec).
Proof.
  intros Hrec base seen ls. revert seen.
  induction ls as [|[i|s] ls IH]; intros seen sn out H; cbn [pp_lines] in H.
  - inversion H; subst. cbn. auto.
  - destruct (resolve fs cwd sp base i) as [p|] eqn:Er; [|discriminate].
    destruct (mem p seen) eqn:Em.
    + destruct (pp_lines fs cwd sp rec base seen ls) as [sn' out'| |] eqn:E; try discriminate.
      inversion H; subst. apply IH in E. cbn [begins]. exact E.
    + destruct (find_file fs p) as [c|] eqn:Ef; [|discriminate].
      destruct (rec (dirname p) (p :: seen) c) as [sn1 out1| |] eqn:E1; try discriminate.
      destruct (pp_lines fs cwd sp rec base sn1 ls) as [sn2 out2| |] eqn:E2; try discriminate.
      inversion H; subst. apply Hrec in E1. apply IH in E2.
      destruct E1 as (S1 & N1 & I1), E2 as (S2 & N2 & I2).
      rewrite begins_import. split; [|split].
      * rewrite S2, S1. cbn [rev]. rewrite rev_app_distr, <- !app_assoc. reflexivity.
      * intros Hn. apply N2, N1. constructor; [apply mem_false; assumption | assumption].
      * intros Hi. apply I2, I1. intros x [<-|Hx]; [eapply resolve_In; eassumption | auto].
  - destruct (pp_lines fs cwd sp rec base seen ls) as [sn' out'| |] eqn:E; try discriminate.
    inversion H; subst. apply IH in E. cbn [begins]. exact E.
Qed.

Lemma pp_good fuel : good (pp fs cwd sp fuel).
Proof.
  induction fuel as [|f IH]; cbn [pp].
  - intros base seen ls sn out H. discriminate.
  - apply pp_lines_good, IH.
Qed.

(* ---- never out of fuel *)
Definition no_oof (k : nat) (f : dir -> list path -> list line -> res) : Prop :=
  forall base seen ls, NoDup seen -> incl seen F -> List.length F < k + List.length seen -> f base seen ls <> OutOfFuel.

Lemma pp_lines_no_oof rec k : good rec -> no_oof k rec -> no_oof (S k) (pp_lines fs cwd sp rec).
Proof.
  intros Hg Hrec base seen ls. revert seen.
  induction ls as [|[i|s] ls IH]; intros seen Hn Hi Hl; cbn [pp_lines].
  - discriminate.
  - destruct (resolve fs cwd sp base i) as [p|] eqn:Er; [|discriminate].
    destruct (mem p seen) eqn:Em.
    + specialize (IH seen Hn Hi Hl).
      destruct (pp_lines fs cwd sp rec base seen ls); [discriminate | discriminate | congruence].
    + destruct (find_file fs p) as [c|] eqn:Ef; [|discriminate].
      assert (Hn' : NoDup (p :: seen)) by (constructor; [apply mem_false; assumption | assumption]).
      assert (Hi' : incl (p :: seen) F) by (intros x [<-|Hx]; [eapply resolve_In; eassumption | auto]).
      assert (Hr := Hrec (dirname p) (p :: seen) c Hn' Hi').
      destruct (rec (dirname p) (p :: seen) c) as [sn1 out1| |] eqn:E1; [|discriminate|].
      * apply Hg in E1. destruct E1 as (S1 & N1 & I1).
        assert (Hl1 : List.length F < S k + List.length sn1).
        { rewrite S1, app_length. cbn [List.length]. lia. }
        specialize (IH sn1 (N1 Hn') (I1 Hi') Hl1).
        destruct (pp_lines fs cwd sp rec base sn1 ls); [discriminate | discriminate | congruence].
      * exfalso. apply Hr; [cbn [List.length]; lia | reflexivity].
  - specialize (IH seen Hn Hi Hl).
    destruct (pp_lines fs cwd sp rec base seen ls); [discriminate | discriminate | congruence].
Qed.

Lemma pp_no_oof fuel : no_oof fuel (pp fs cwd sp fuel).
Proof.
  induction fuel as [|f IH].
  - intros base seen ls Hn Hi Hl. exfalso.
    pose proof (NoDup_incl_length Hn Hi). cbn in Hl. lia.
  - cbn [pp]. apply pp_lines_no_oof; [apply pp_good | exact IH].
Qed.

(* ---- the three theorems *)
Theorem preproc_terminates fuel base main :
  List.length fs <= fuel -> preprocess fs cwd sp fuel base main <> OutOfFuel.
Proof.
  intros H. unfold preprocess. apply pp_no_oof.
  - constructor.
  - intros x [].
  - subst F. rewrite map_length. cbn. lia.
Qed.

Theorem preproc_once fuel base main seen out :
  preprocess fs cwd sp fuel base main = Ok seen out ->
  NoDup (begins out) /\ seen = rev (begins out) /\ incl (begins out) F.
Proof.
  unfold preprocess. intros H. apply pp_good in H. destruct H as (S1 & N1 & I1).
  rewrite app_nil_r in S1. subst seen.
  split; [|split].
  - specialize (N1 (NoDup_nil _)). apply NoDup_rev in N1. rewrite rev_involutive in N1. exact N1.
  - reflexivity.
  - intros x Hx. apply I1; [intros y [] | apply in_rev in Hx; exact Hx].
Qed.

(* every counted occurrence: a file's begin marker appears at most once in the output *)
Corollary preproc_once_count fuel base main seen out p :
  preprocess fs cwd sp fuel base main = Ok seen out ->
  count_occ (list_eq_dec string_dec) (begins out) p <= 1.
Proof. intros H. apply preproc_once in H. apply NoDup_count_occ. apply H. Qed.

(* ---- expansion = paste *)
Definition agree (f : dir -> list path -> list line -> res) (g : dir -> list line -> option (list oline)) : Prop :=
  forall base seen ls out, g base ls = Some out -> NoDup (begins out) ->
    (forall p, In p (begins out) -> ~ In p seen) ->
    f base seen ls = Ok (rev (begins out) ++ seen) out.

Lemma NoDup_app_inv {A} (l1 l2 : list A) :
  NoDup (l1 ++ l2) -> NoDup l1 /\ NoDup l2 /\ (forall x, In x l1 -> ~ In x l2).
Proof.
  induction l1 as [|a l1 IH]; cbn; intros H.
  - split; [constructor | split; [assumption | intros x []]].
  - inversion H as [|? ? Hni Hnd]; subst. destruct (IH Hnd) as (N1 & N2 & D).
    split; [constructor; [intros Hin; apply Hni, in_or_app; auto | assumption]|].
    split; [assumption|]. intros x [<-|Hx]; [intros Hin; apply Hni, in_or_app; auto | auto].
Qed.

Lemma pp_lines_agree f g : agree f g -> agree (pp_lines fs cwd sp f) (paste_lines fs cwd sp g).
Proof.
  intros Hfg base seen ls. revert seen.
  induction ls as [|[i|s] ls IH]; intros seen out H Hnd Hdis; cbn [paste_lines] in H; cbn [pp_lines].
  - inversion H; subst. reflexivity.
  - destruct (resolve fs cwd sp base i) as [p|] eqn:Er; [|discriminate].
    destruct (find_file fs p) as [c|] eqn:Ef; [|discriminate].
    destruct (g (dirname p) c) as [o1|] eqn:E1; [|discriminate].
    destruct (paste_lines fs cwd sp g base ls) as [o2|] eqn:E2; [|discriminate].
    inversion H; subst. rewrite begins_import in *.
    inversion Hnd as [|? ? Hp Hnd']; subst.
    destruct (NoDup_app_inv _ _ Hnd') as (N1 & N2 & D12).
    assert (Em : mem p seen = false) by (apply mem_false, Hdis; left; reflexivity).
    rewrite Em.
    rewrite (Hfg (dirname p) (p :: seen) c o1 E1 N1).
    + rewrite (IH (rev (begins o1) ++ p :: seen) o2 eq_refl N2).
      * f_equal. cbn [rev]. rewrite rev_app_distr, <- !app_assoc. reflexivity.
      * intros x Hx Hin. apply in_app_or in Hin. destruct Hin as [Hin|[<-|Hin]].
        -- apply in_rev in Hin. exact (D12 x Hin Hx).
        -- apply Hp, in_or_app. auto.
        -- apply (Hdis x); [right; apply in_or_app; auto | assumption].
    + intros x Hx [<-|Hin].
      * apply Hp, in_or_app. auto.
      * apply (Hdis x); [right; apply in_or_app; auto | assumption].
  - destruct (paste_lines fs cwd sp g base ls) as [o|] eqn:E; [|discriminate].
    inversion H; subst. cbn [begins] in *. rewrite (IH seen o eq_refl Hnd Hdis). reflexivity.
Qed.

Lemma pp_agree fuel : agree (pp fs cwd sp fuel) (paste fs cwd sp fuel).
Proof.
  induction fuel as [|f IH]; cbn [pp paste].
  - intros base seen ls out H. discriminate.
  - apply pp_lines_agree, IH.
Qed.

Theorem preproc_is_paste fuel base main out :
  paste fs cwd sp (S fuel) base main = Some out -> NoDup (begins out) ->
  preprocess fs cwd sp fuel base main = Ok (rev (begins out)) out.
Proof.
  intros H Hn. unfold preprocess. rewrite (pp_agree (S fuel) base [] main out H Hn).
  - rewrite app_nil_r. reflexivity.
  - intros p _ [].
Qed.

End Inv.

(* ------------------------------------------------------------------ resolution and the working directory *)
Lemma find_app {A} (f : A -> bool) l1 l2 :
  find f (l1 ++ l2) = match find f l1 with Some x => Some x | None => find f l2 end.
Proof. induction l1 as [|a l1 IH]; cbn; [reflexivity|]. destruct (f a); [reflexivity | exact IH]. Qed.

(* a file next to the importing file wins, whatever the search path and the working directory *)
Theorem resolve_next_to_importer fs cwd sp base r :
  exists_file fs (base ++ r) = true -> resolve fs cwd sp base r = Some (base ++ r).
Proof. intros H. unfold resolve, candidates. cbn [map find]. rewrite H. reflexivity. Qed.

Corollary resolve_next_to_importer_cwd_indep fs cwd1 cwd2 sp1 sp2 base r :
  exists_file fs (base ++ r) = true ->
  resolve fs cwd1 sp1 base r = resolve fs cwd2 sp2 base r.
Proof. intros H. rewrite !resolve_next_to_importer by assumption. reflexivity. Qed.

(* when no candidate under a cwd-relative entry exists in either working directory, the result
   is the same (library directories are absolute entries) *)
Theorem resolve_cwd_indep fs cwd1 cwd2 sp base r :
  (forall d, In (Rel d) sp -> exists_file fs ((cwd1 ++ d) ++ r) = false /\ exists_file fs ((cwd2 ++ d) ++ r) = false) ->
  resolve fs cwd1 sp base r = resolve fs cwd2 sp base r.
Proof.
  intros H. unfold resolve, candidates. cbn [map find].
  destruct (exists_file fs (base ++ r)); [reflexivity|].
  induction sp as [|[d|d] sp IH]; cbn [search_dirs map find]; [reflexivity| |].
  - destruct (H d (or_introl eq_refl)) as [-> ->]. apply IH. intros d' Hd'. apply H. right. exact Hd'.
  - destruct (exists_file fs (d ++ r)); [reflexivity|]. apply IH. intros d' Hd'. apply H. right. exact Hd'.
Qed.

(* the search path as shipped: ".;example_programs;<root>/dsl_compiler;<root>/lib" *)
Definition shipped_path (root : dir) : list sentry :=
  [Rel []; Rel ["example_programs"%string]; Abs (root ++ ["dsl_compiler"%string]); Abs (root ++ ["lib"%string])].

(* a bundled library file imported by its bare name resolves from every working directory in
   which nothing of that name shadows it *)
Theorem resolve_library_bare_name fs root cwd base f :
  exists_file fs (base ++ [f]) = false ->
  exists_file fs ((cwd ++ []) ++ [f]) = false ->
  exists_file fs ((cwd ++ ["example_programs"%string]) ++ [f]) = false ->
  exists_file fs ((root ++ ["dsl_compiler"%string]) ++ [f]) = false ->
  exists_file fs ((root ++ ["lib"%string]) ++ [f]) = true ->
  resolve fs cwd (shipped_path root) base [f] = Some ((root ++ ["lib"%string]) ++ [f]).
Proof.
  intros H0 H1 H2 H3 H4. unfold resolve, candidates, shipped_path.
  cbn [map search_dirs find]. rewrite H0, H1, H2, H3, H4. reflexivity.
Qed.

Local Open Scope string_scope.
Local Open Scope list_scope.

(* FULL-STRENGTH STATEMENT (what the property asks for the documented form `import "lib/math.facto";`):
     forall cwd1 cwd2, resolve fs cwd1 (shipped_path root) base ["lib"; f] = resolve fs cwd2 (shipped_path root) base ["lib"; f]
   It is false of the model: the only entry under which "lib/<f>" exists is the cwd-relative ".",
   and only when the working directory is the repository root. *)
Theorem resolve_lib_prefix_cwd_independent_refuted :
  exists fs root base f cwd1 cwd2,
    exists_file fs (root ++ ["lib"; f]) = true /\
    resolve fs cwd1 (shipped_path root) base ["lib"; f] = Some (root ++ ["lib"; f]) /\
    resolve fs cwd2 (shipped_path root) base ["lib"; f] = None.
Proof.
  exists [(["repo"; "lib"; "math.facto"], [Text "func f() { return 1; }"]);
          (["home"; "me"; "main.facto"], [Import ["lib"; "math.facto"]])].
  exists ["repo"], ["home"; "me"], "math.facto", ["repo"], ["home"; "me"].
  vm_compute. repeat split; reflexivity.
Qed.

(* FULL-STRENGTH STATEMENT (what "through a cycle ... defines each function once" asks when the cycle passes
   through the compiled file itself):
     find_file fs m = Some main -> preprocess fs cwd sp fuel (dirname m) main = Ok seen out -> ~ In m (begins out)
   It is false of the model (and of the real function, known finding L3): the processed set starts empty,
   the main file is not in it, so a file that imports the main file back includes the main text again. *)
Theorem main_text_once_refuted :
  exists fs cwd sp fuel m main seen out,
    find_file fs m = Some main /\
    preprocess fs cwd sp fuel (dirname m) main = Ok seen out /\
    In m (begins out).
Proof.
  exists [(["p"; "main.facto"], [Import ["a.facto"]; Text "func f(Signal x) { return x + 1; }"]);
          (["p"; "a.facto"], [Import ["main.facto"]; Text "func g(Signal x) { return x * 2; }"])].
  exists ["w"], [], 2, ["p"; "main.facto"], [Import ["a.facto"]; Text "func f(Signal x) { return x + 1; }"].
  eexists. eexists. split; [reflexivity|]. split; [vm_compute; reflexivity|].
  cbn. right. left. reflexivity.
Qed.

(* ------------------------------------------------------------------ non-trivial instances *)
Example diamond_and_cycle :
  let fs := [(["p"; "a.facto"], [Text "A"; Import ["c.facto"]; Import ["a.facto"]]);
             (["p"; "b.facto"], [Import ["c.facto"]; Text "B"]);
             (["p"; "c.facto"], [Text "C"; Import ["a.facto"]])] in
  preprocess fs ["w"] [] 3 ["p"] [Import ["a.facto"]; Import ["b.facto"]; Text "M"]
  = Ok [["p"; "b.facto"]; ["p"; "c.facto"]; ["p"; "a.facto"]]
       [OBegin ["p"; "a.facto"]; OText "A";
          OBegin ["p"; "c.facto"]; OText "C"; OSkip ["a.facto"]; OEnd ["p"; "c.facto"];
          OSkip ["a.facto"]; OEnd ["p"; "a.facto"];
        OBegin ["p"; "b.facto"]; OSkip ["c.facto"]; OText "B"; OEnd ["p"; "b.facto"];
        OText "M"].
Proof. vm_compute. reflexivity. Qed.
