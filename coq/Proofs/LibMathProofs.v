(* LibMathProofs.v -- the bundled math library meets its documented contracts (C17 b).
   Gen/LibMath.v is regenerated from /repo/lib/math.facto on every run (py/facto2v.py), so each
   theorem below is re-checked against what the library says now.  Statement shape: for all int32
   arguments for which the documented formula (and its intermediate results) does not overflow,
   the meaning of the function body (Facto/Denote.v over the concrete algebra, Facto/LibCall.v)
   is the documented mathematical value, written with Coq's Z functions.
   Documentation: /repo/doc/LIBRARY_REFERENCE.md, section math.facto, and the comments of the file. *)
From Coq Require Import ZArith List Bool Lia ZifyBool.
From FV Require Import Base.Int32 Factorio.Circuit Facto.Syntax Facto.Denote Facto.LibCall.
From FV Require Import Proofs.Int32Bits Gen.LibMath.
Import ListNotations.
Open Scope Z_scope.
Ltac Zify.zify_post_hook ::= Z.to_euclidean_division_equations.

(* ------------------------------------------------------------------ tactics *)
Lemma nz_b2z b : nz (b2z b) = b.
Proof. destruct b; reflexivity. Qed.

Ltac lib_unfold f locals ret :=
  unfold f, locals, ret, call_den, call_vals;
  cbn [den_prog_aux den_decl den nth app zalg a_const a_var a_arith a_cmp a_and a_or a_not a_ite fst snd].

(* wrap32 of a literal is computed *)
Ltac wrap_consts :=
  repeat match goal with
  | |- context [wrap32 ?k] =>
      lazymatch k with Z0 => idtac | Zpos _ => idtac | Zneg _ => idtac end;
      let v := eval vm_compute in (wrap32 k) in change (wrap32 k) with v
  end.

(* case split on every condition, innermost first, remembering the equation for lia *)
Ltac split_ifs :=
  repeat match goal with
  | |- context [if ?c then _ else _] =>
      lazymatch c with context [if _ then _ else _] => fail | _ => idtac end;
      let E := fresh "E" in destruct c eqn:E
  | H : context [if ?c then _ else _] |- _ =>
      lazymatch c with context [if _ then _ else _] => fail | _ => idtac end;
      let E := fresh "E" in destruct c eqn:E
  end.

Ltac lib_lia :=
  wrap_consts; rewrite ?nz_b2z;
  unfold arith, cmp, nz, b2z, in32 in *; split_ifs; unfold wrap32, two31, two32 in *; lia.

(* ------------------------------------------------------------------ abs, sign, min, max *)
(* "Returns the absolute value of x."  |x| overflows exactly for x = -2^31. *)
Theorem abs_spec x : in32 x -> in32 (Z.abs x) -> lib_abs [x] = Z.abs x.
Proof. intros Hx Ha. lib_unfold lib_abs lib_abs_locals lib_abs_ret. lib_lia. Qed.

(* "Returns -1 if x < 0, 0 if x == 0, 1 if x > 0" *)
Theorem sign_spec x : in32 x -> lib_sign [x] = Z.sgn x.
Proof. intros Hx. lib_unfold lib_sign lib_sign_locals lib_sign_ret. lib_lia. Qed.

(* "Returns the smaller of a and b." *)
Theorem min_spec a b : in32 a -> in32 b -> lib_min [a; b] = Z.min a b.
Proof. intros Ha Hb. lib_unfold lib_min lib_min_locals lib_min_ret. lib_lia. Qed.

(* "Returns the larger of a and b." *)
Theorem max_spec a b : in32 a -> in32 b -> lib_max [a; b] = Z.max a b.
Proof. intros Ha Hb. lib_unfold lib_max lib_max_locals lib_max_ret. lib_lia. Qed.

(* ------------------------------------------------------------------ clamp, lerp, between *)
(* what the text computes for any bounds ... *)
Theorem clamp_general x low high :
  in32 x -> in32 low -> in32 high -> lib_clamp [x; low; high] = Z.min (Z.max x low) high.
Proof. intros Hx Hl Hh. lib_unfold lib_clamp lib_clamp_locals lib_clamp_ret. lib_lia. Qed.

(* ... and the contract "Constrains x to be within [low, high]" for a non-empty range *)
Theorem clamp_spec x low high :
  in32 x -> in32 low -> in32 high -> low <= high ->
  lib_clamp [x; low; high] = Z.max low (Z.min x high) /\
  low <= lib_clamp [x; low; high] <= high /\
  (low <= x <= high -> lib_clamp [x; low; high] = x).
Proof. intros Hx Hl Hh Hlh. rewrite clamp_general by assumption. lia. Qed.

(* "a + ((b - a) * t) / 100 ... results are truncated": truncating division is Z.quot *)
Theorem lerp_spec a b t :
  in32 a -> in32 b -> in32 t ->
  in32 (b - a) -> in32 ((b - a) * t) -> in32 (a + ((b - a) * t) ÷ 100) ->
  lib_lerp [a; b; t] = a + ((b - a) * t) ÷ 100.
Proof. intros Ha Hb Ht H1 H2 H3. lib_unfold lib_lerp lib_lerp_locals lib_lerp_ret. lib_lia. Qed.

(* "Returns 1 if low <= x <= high, 0 otherwise." *)
Theorem between_spec x low high :
  in32 x -> in32 low -> in32 high ->
  lib_between [x; low; high] = b2z ((low <=? x) && (x <=? high)).
Proof. intros Hx Hl Hh. lib_unfold lib_between lib_between_locals lib_between_ret. lib_lia. Qed.

(* ------------------------------------------------------------------ bit operations *)
Lemma b2z_Zb2z b : b2z b = Z.b2z b.
Proof. destruct b; reflexivity. Qed.

Lemma land_1 x : Z.land x 1 = b2z (Z.testbit x 0).
Proof.
  rewrite b2z_Zb2z, Z.bit0_mod. change 1 with (Z.ones 1) at 1.
  rewrite Z.land_ones by lia. reflexivity.
Qed.

(* "Returns 1 if bit at position pos is set, 0 otherwise.  Bit 0 is the least significant bit."
   (two's complement: Z.testbit of a negative number; position 31 is the sign bit) *)
Theorem get_bit_spec v p : in32 v -> 0 <= p < 32 -> lib_get_bit [v; p] = b2z (Z.testbit v p).
Proof.
  intros Hv Hp.
  lib_unfold lib_get_bit lib_get_bit_locals lib_get_bit_ret. wrap_consts. unfold arith.
  rewrite (wrap32_small (Z.shiftr v p)) by (apply in32_shiftr; [assumption|lia]).
  rewrite land_1, Z.shiftr_spec, Z.add_0_l by lia.
  apply wrap32_small, b2z_in32.
Qed.

(* "Sets the bit at position pos to 1."   Z.setbit v p = Z.lor v (2^p) *)
Theorem set_bit_spec v p :
  in32 v -> 0 <= p <= 30 -> lib_set_bit [v; p] = Z.setbit v p /\ in32 (Z.setbit v p).
Proof.
  intros Hv Hp.
  lib_unfold lib_set_bit lib_set_bit_locals lib_set_bit_ret. wrap_consts. unfold arith, Z.setbit.
  pose proof (in32_pow2 p Hp) as H2.
  rewrite (wrap32_small (Z.shiftl 1 p)) by assumption.
  pose proof (in32_lor v _ Hv H2). split; [apply wrap32_small|]; assumption.
Qed.

(* "Clears the bit at position pos to 0."   Z.clearbit v p = Z.ldiff v (2^p) *)
Theorem clear_bit_spec v p :
  in32 v -> 0 <= p <= 30 -> lib_clear_bit [v; p] = Z.clearbit v p /\ in32 (Z.clearbit v p).
Proof.
  intros Hv Hp.
  lib_unfold lib_clear_bit lib_clear_bit_locals lib_clear_bit_ret. wrap_consts. unfold arith, Z.clearbit.
  change (wrap32 (0 - 1)) with (-1).
  pose proof (in32_pow2 p Hp) as H2.
  rewrite (wrap32_small (Z.shiftl 1 p)) by assumption.
  rewrite Z.lxor_m1_l, Z.ldiff_land.
  pose proof (in32_lnot _ H2) as H3.
  rewrite (wrap32_small (Z.lnot _)) by assumption.
  pose proof (in32_land v _ Hv H3). split; [apply wrap32_small|]; assumption.
Qed.

(* "Flips the bit at position pos." *)
Theorem toggle_bit_spec v p :
  in32 v -> 0 <= p <= 30 ->
  lib_toggle_bit [v; p] = Z.lxor v (2 ^ p) /\ in32 (Z.lxor v (2 ^ p)) /\
  forall i, 0 <= i -> Z.testbit (lib_toggle_bit [v; p]) i = xorb (Z.testbit v i) (i =? p).
Proof.
  intros Hv Hp.
  lib_unfold lib_toggle_bit lib_toggle_bit_locals lib_toggle_bit_ret. wrap_consts. unfold arith.
  pose proof (in32_pow2 p Hp) as H2.
  rewrite (wrap32_small (Z.shiftl 1 p)) by assumption.
  pose proof (in32_lxor v _ Hv H2) as H3.
  rewrite (wrap32_small _ H3). rewrite Z.shiftl_1_l in *.
  split; [reflexivity|]. split; [assumption|].
  intros i Hi. rewrite Z.lxor_spec, Z.pow2_bits_eqb by lia. rewrite Z.eqb_sym. reflexivity.
Qed.

(* ------------------------------------------------------------------ div_floor, mod_positive *)
Lemma xor_b2z x y : wrap32 (Z.lxor (b2z x) (b2z y)) = b2z (xorb x y).
Proof. destruct x, y; reflexivity. Qed.

Lemma quot_in32 a b : in32 a -> in32 b -> b <> 0 -> ~ (a = - two31 /\ b = -1) -> in32 (a ÷ b).
Proof. unfold in32, two31. intros. nia. Qed.

Lemma rem_in32 a b : in32 a -> in32 b -> b <> 0 -> in32 (Z.rem a b).
Proof. unfold in32, two31. intros. nia. Qed.

Lemma rem_facts a b : b <> 0 ->
  a = b * (a ÷ b) + Z.rem a b /\ Z.abs (Z.rem a b) < Z.abs b /\
  (0 <= a -> 0 <= Z.rem a b) /\ (a <= 0 -> Z.rem a b <= 0).
Proof.
  intros Hb. split; [apply Z.quot_rem'|]. split; [apply Z.rem_bound_abs; assumption|].
  split; [apply Z.rem_nonneg|apply Z.rem_nonpos]; assumption.
Qed.

Lemma floor_overflow a b : in32 a -> in32 (a / b) -> ~ (a = - two31 /\ b = -1).
Proof. intros Ha Hd [-> ->]. revert Hd. vm_compute. intros [_ H]. discriminate H. Qed.

(* "Divides a by b, always rounding toward negative infinity" -- Coq's `/` is floor division.
   The only overflow of floor(a/b) on int32 is a = -2^31, b = -1. *)
Theorem div_floor_spec a b :
  in32 a -> in32 b -> b <> 0 -> in32 (a / b) -> lib_div_floor [a; b] = a / b.
Proof.
  intros Ha Hb Hb0 Hd. pose proof (floor_overflow a b Ha Hd) as Hov.
  lib_unfold lib_div_floor lib_div_floor_locals lib_div_floor_ret. wrap_consts.
  unfold arith, cmp.
  destruct (b =? 0) eqn:Eb; [lia|].
  rewrite xor_b2z, !nz_b2z.
  rewrite (wrap32_small (a ÷ b)) by (apply quot_in32; assumption).
  rewrite (wrap32_small (Z.rem a b)) by (apply rem_in32; assumption).
  destruct (rem_facts a b Hb0) as (Hqr & Habs & Hpos & Hneg).
  set (q := a ÷ b) in *. set (r := Z.rem a b) in *.
  assert (E : q - b2z (negb (r =? 0) && xorb (a <? 0) (b <? 0)) = a / b).
  { destruct (r =? 0) eqn:Er; destruct (a <? 0) eqn:Ea; destruct (b <? 0) eqn:Eb';
      cbn [negb andb xorb b2z];
      first [ apply (Z.div_unique a b _ r); [lia | lia]
            | apply (Z.div_unique a b _ (r + b)); [lia | lia] ]. }
  rewrite E. apply wrap32_small. assumption.
Qed.

(* "Modulo operation that always returns a positive result": the remainder of Euclidean
   division by |b|, in [0, |b|); for b > 0 this is Python's %.  |b| overflows for b = -2^31. *)
Theorem mod_positive_spec a b :
  in32 a -> in32 b -> b <> 0 -> in32 (Z.abs b) ->
  lib_mod_positive [a; b] = a mod (Z.abs b) /\ 0 <= lib_mod_positive [a; b] < Z.abs b.
Proof.
  intros Ha Hb Hb0 Hbm.
  assert (G : lib_mod_positive [a; b] = a mod (Z.abs b)).
  { lib_unfold lib_mod_positive lib_mod_positive_locals lib_mod_positive_ret. wrap_consts.
    unfold arith, cmp.
    destruct (b =? 0) eqn:Eb; [lia|].
    rewrite !nz_b2z.
    rewrite (wrap32_small (Z.rem a b)) by (apply rem_in32; assumption).
    destruct (rem_facts a b Hb0) as (Hqr & Habs & Hpos & Hneg).
    set (q := a ÷ b) in *. set (r := Z.rem a b) in *.
    assert (Eabs : wrap32 ((if b >=? 0 then b else 0) + (if b <? 0 then wrap32 (0 - b) else 0)) = Z.abs b).
    { unfold in32 in *. destruct (b >=? 0) eqn:E1; destruct (b <? 0) eqn:E2;
        unfold wrap32, two31, two32 in *; lia. }
    rewrite Eabs.
    assert (E : (if r >=? 0 then r else 0) + (if r <? 0 then wrap32 (r + Z.abs b) else 0) = a mod Z.abs b).
    { destruct (r >=? 0) eqn:E1; destruct (r <? 0) eqn:E2; try lia.
      - rewrite Z.add_0_r. destruct (Z.lt_ge_cases b 0).
        + apply (Z.mod_unique a (Z.abs b) (- q) r); lia.
        + apply (Z.mod_unique a (Z.abs b) q r); lia.
      - rewrite Z.add_0_l, wrap32_small by (unfold in32, two31 in *; lia). destruct (Z.lt_ge_cases b 0).
        + apply (Z.mod_unique a (Z.abs b) (- q - 1) (r + Z.abs b)); lia.
        + apply (Z.mod_unique a (Z.abs b) (q - 1) (r + Z.abs b)); lia. }
    rewrite E. apply wrap32_small.
    pose proof (Z.mod_pos_bound a (Z.abs b)). unfold in32, two31 in *. lia. }
  split; [exact G|]. rewrite G. apply Z.mod_pos_bound. lia.
Qed.

(* ------------------------------------------------------------------ the documented examples
   (hypotheses satisfiable on non-trivial instances; each line is an example of the reference) *)
Example doc_examples :
  lib_abs [-42] = 42 /\ lib_abs [5] = 5 /\
  lib_sign [-100] = -1 /\ lib_sign [0] = 0 /\
  lib_min [75; 82] = 75 /\ lib_max [100; 150] = 150 /\
  lib_clamp [150; 0; 100] = 100 /\ lib_clamp [-50; 0; 100] = 0 /\ lib_clamp [42; 0; 100] = 42 /\
  lib_lerp [0; 255; 50] = 127 /\ lib_lerp [0; 100; 50] = 50 /\ lib_lerp [10; 20; 25] = 12 /\
  lib_between [75; 65; 80] = 1 /\ lib_between [95; 65; 80] = 0 /\
  lib_get_bit [10; 0] = 0 /\ lib_get_bit [10; 1] = 1 /\ lib_get_bit [10; 2] = 0 /\ lib_get_bit [10; 3] = 1 /\
  lib_set_bit [0; 2] = 4 /\ lib_clear_bit [15; 2] = 11 /\ lib_toggle_bit [10; 1] = 8 /\
  lib_div_floor [-7; 3] = -3 /\ lib_mod_positive [-7; 3] = 2.
Proof. vm_compute. repeat split; reflexivity. Qed.
