(* Proofs about Facto/Wf.v (property C14): the "wherever the construct occurs" quantifier.
   wf_compositional: for every context (hole at any statement position, inside any nesting of
   function and loop bodies) and every statement that violates a rule under the environment
   the context provides at the hole, wf (plug ctx s) = false.                              *)
From Coq Require Import ZArith List Bool String Lia.
From FV Require Import Facto.Wf.
Import ListNotations.

(* ------------------------------------------------------------------ induction over wexpr *)
Section WexprInd.
Variable P : wexpr -> Prop.
Hypothesis HInt : forall z, P (WInt z).
Hypothesis HVar : forall x, P (WVar x).
Hypothesis HLit : forall t a, P a -> P (WLit t a).
Hypothesis HProj : forall a t, P a -> P (WProj a t).
Hypothesis HBin : forall a b, P a -> P b -> P (WBin a b).
Hypothesis HCmp : forall a b, P a -> P b -> P (WCmp a b).
Hypothesis HLogic : forall a b, P a -> P b -> P (WLogic a b).
Hypothesis HUn : forall a, P a -> P (WUn a).
Hypothesis HCall : forall f args, Forall P args -> P (WCall f args).
Hypothesis HBundle : forall els, Forall P els -> P (WBundle els).
Hypothesis HSel : forall a t, P a -> P (WSel a t).
Hypothesis HAny : forall a, P a -> P (WAny a).
Hypothesis HRead : forall m, P (WRead m).
Hypothesis HOut : forall c v, P c -> P v -> P (WOut c v).
Hypothesis HPlace : forall x y, P x -> P y -> P (WPlace x y).

Fixpoint wexpr_ind' (e : wexpr) : P e :=
  let fix go (l : list wexpr) : Forall P l :=
    match l with
    | [] => Forall_nil P
    | a :: r => Forall_cons a (wexpr_ind' a) (go r)
    end in
  match e with
  | WInt z => HInt z
  | WVar x => HVar x
  | WLit t a => HLit t a (wexpr_ind' a)
  | WProj a t => HProj a t (wexpr_ind' a)
  | WBin a b => HBin a b (wexpr_ind' a) (wexpr_ind' b)
  | WCmp a b => HCmp a b (wexpr_ind' a) (wexpr_ind' b)
  | WLogic a b => HLogic a b (wexpr_ind' a) (wexpr_ind' b)
  | WUn a => HUn a (wexpr_ind' a)
  | WCall f args => HCall f args (go args)
  | WBundle els => HBundle els (go els)
  | WSel a t => HSel a t (wexpr_ind' a)
  | WAny a => HAny a (wexpr_ind' a)
  | WRead m => HRead m
  | WOut c v => HOut c v (wexpr_ind' c) (wexpr_ind' v)
  | WPlace x y => HPlace x y (wexpr_ind' x) (wexpr_ind' y)
  end.
End WexprInd.

(* ------------------------------------------------------------------ occurrence of a construct *)
(* `occurs p e`: some sub-expression of e that the checker types satisfies p.  (The condition
   `a CMP b` directly before `:` is not typed on its own -- it may be a bundle filter -- its
   operands are.) *)
Fixpoint occurs (p : wexpr -> bool) (e : wexpr) : bool :=
  p e ||
  match e with
  | WInt _ | WVar _ | WRead _ => false
  | WLit _ a | WProj a _ | WUn a | WSel a _ | WAny a => occurs p a
  | WBin a b | WCmp a b | WLogic a b | WPlace a b => occurs p a || occurs p b
  | WCall _ l | WBundle l => existsb (occurs p) l
  | WOut c v =>
      match c with
      | WCmp a b => occurs p a || occurs p b
      | _ => occurs p c
      end || occurs p v
  end.

Lemma check_args_none : forall ps l, In None l -> check_args ps l = false.
Proof.
  induction ps as [|p ps IH]; intros [|[v|] l] H; simpl; try reflexivity; try contradiction.
  - destruct H as [H|H]; [discriminate|]. rewrite (IH l H). apply andb_false_r.
Qed.

Lemma bundle_members_none : forall l acc, In None l -> bundle_members l acc = None.
Proof.
  induction l as [|[v|] l IH]; intros acc H; simpl; try contradiction; try reflexivity.
  destruct H as [H|H]; [discriminate|].
  destruct v as [c|[t|] c|ms| |]; try reflexivity.
  - destruct (mem_str t acc); [reflexivity|apply IH; exact H].
  - apply IH; exact H.
  - destruct (disjointb ms acc); [apply IH; exact H|reflexivity].
Qed.

Lemma wcmp_dec : forall c, (exists a b, c = WCmp a b) \/ (forall a b, c <> WCmp a b).
Proof. destruct c; try (right; intros; discriminate). left; eauto. Qed.

Lemma ty_out_noncmp : forall known G opn c v, (forall a b, c <> WCmp a b) ->
  ty_expr known G opn (WOut c v) =
  if is_cmp_expr G c
  then match ty_expr known G opn c, ty_expr known G opn v with
       | Some _, Some tv => out_ty tv | _, _ => None end
  else None.
Proof. intros known G opn c v H. destruct c; try reflexivity. exfalso. eapply H. reflexivity. Qed.

Lemma occurs_out_noncmp : forall p c v, (forall a b, c <> WCmp a b) ->
  occurs p (WOut c v) = p (WOut c v) || (occurs p c || occurs p v).
Proof. intros p c v H. destruct c; try reflexivity. exfalso. eapply H. reflexivity. Qed.

Section Strict.
Variable known : list string.
Variable G : env.
Variable opn : list string.
Variable p : wexpr -> bool.
Hypothesis Hloc : forall e, p e = true -> ty_expr known G opn e = None.

Let Q (e : wexpr) : Prop := occurs p e = true -> ty_expr known G opn e = None.

Lemma exists_none : forall l, Forall Q l -> existsb (occurs p) l = true ->
  In None (map (ty_expr known G opn) l).
Proof.
  induction 1 as [|a l Ha _ IH]; simpl; intros H; [discriminate|].
  apply orb_true_iff in H. destruct H as [H|H].
  - left. apply Ha. exact H.
  - right. apply IH. exact H.
Qed.

Lemma strict_aux : forall e,
  Q e /\ match e with WCmp a b => Q a /\ Q b | _ => True end.
Proof.
  induction e as [z|x|t a IHa|a t IHa|a b IHa IHb|a b IHa IHb|a b IHa IHb|a IHa|f args IHl|els IHl
                 |a t IHa|a IHa|m|c v IHc IHv|a b IHa IHb] using wexpr_ind';
    (split; [|try exact I]); unfold Q in *;
    try (simpl occurs; intros H; apply orb_true_iff in H; destruct H as [H|H];
         [apply Hloc; exact H|]).
  - discriminate.
  - discriminate.
  - destruct IHa as [IH _]. simpl. rewrite (IH H). reflexivity.
  - destruct IHa as [IH _]. simpl. rewrite (IH H). reflexivity.
  - destruct IHa as [IH1 _], IHb as [IH2 _]. simpl.
    apply orb_true_iff in H. destruct H as [H|H].
    + rewrite (IH1 H). reflexivity.
    + rewrite (IH2 H). destruct (ty_expr known G opn a); reflexivity.
  - destruct IHa as [IH1 _], IHb as [IH2 _]. simpl.
    apply orb_true_iff in H. destruct H as [H|H].
    + rewrite (IH1 H). reflexivity.
    + rewrite (IH2 H). destruct (ty_expr known G opn a); reflexivity.
  - destruct IHa as [IH1 _], IHb as [IH2 _]. split; assumption.
  - destruct IHa as [IH1 _], IHb as [IH2 _]. simpl.
    apply orb_true_iff in H. destruct H as [H|H].
    + rewrite (IH1 H). reflexivity.
    + rewrite (IH2 H). destruct (ty_expr known G opn a); reflexivity.
  - destruct IHa as [IH _]. simpl. rewrite (IH H). reflexivity.
  - simpl. destruct (lookup G f) as [[v|t w|ps r]|]; try reflexivity.
    destruct (mem_str f opn); [reflexivity|].
    rewrite check_args_none; [reflexivity|].
    apply exists_none; [|exact H].
    eapply Forall_impl; [|exact IHl]. intros a0 [Ha _]. exact Ha.
  - simpl. rewrite bundle_members_none; [reflexivity|].
    apply exists_none; [|exact H].
    eapply Forall_impl; [|exact IHl]. intros a0 [Ha _]. exact Ha.
  - destruct IHa as [IH _]. simpl. rewrite (IH H). reflexivity.
  - destruct IHa as [IH _]. simpl. rewrite (IH H). reflexivity.
  - discriminate.
  - destruct IHv as [IHv _].
    destruct (wcmp_dec c) as [[a [b ->]]|Hn].
    + destruct IHc as [_ [IHa IHb]]. simpl.
      apply orb_true_iff in H. destruct H as [H|H].
      * apply orb_true_iff in H. destruct H as [H|H].
        -- rewrite (IHa H). reflexivity.
        -- rewrite (IHb H). destruct (ty_expr known G opn a); reflexivity.
      * rewrite (IHv H).
        destruct (ty_expr known G opn a); [destruct (ty_expr known G opn b)|]; reflexivity.
    + destruct IHc as [IHc _]. rewrite ty_out_noncmp by exact Hn.
      assert (H' : occurs p c || occurs p v = true).
      { destruct c; try exact H. exfalso. eapply Hn. reflexivity. }
      apply orb_true_iff in H'. destruct H' as [H'|H'].
      * rewrite (IHc H'). destruct (is_cmp_expr G c); reflexivity.
      * rewrite (IHv H'). destruct (is_cmp_expr G c); [destruct (ty_expr known G opn c)|]; reflexivity.
  - destruct IHa as [IH1 _], IHb as [IH2 _]. simpl.
    apply orb_true_iff in H. destruct H as [H|H].
    + rewrite (IH1 H). reflexivity.
    + rewrite (IH2 H). destruct (ty_expr known G opn a); reflexivity.
Qed.

Lemma strict : forall e, occurs p e = true -> ty_expr known G opn e = None.
Proof. intros e. exact (proj1 (strict_aux e)). Qed.

End Strict.

(* ------------------------------------------------------------------ statements are strict too *)
Definition stmt_exprs (s : wstmt) : list wexpr :=
  match s with
  | SDecl _ _ e | SAssign _ e | SEnable _ e | SExpr e | SReturn e => [e]
  | SWrite _ v w => v :: match w with Some e => [e] | None => [] end
  | SMem _ _ | SFunc _ _ _ | SFor _ _ _ => []
  end.

Definition stmt_occurs (p : wexpr -> bool) (s : wstmt) : bool :=
  existsb (occurs p) (stmt_exprs s).

Lemma stmt_strict : forall known st s e,
  In e (stmt_exprs s) -> ty known st e = None -> check_stmt known st s = None.
Proof.
  intros known st s e Hin Hty. destruct s; simpl in Hin; try contradiction.
  - destruct Hin as [<-|[]]. simpl. rewrite Hty. reflexivity.
  - destruct Hin as [<-|[]]. simpl. rewrite Hty.
    destruct (lookup (s_env st) x) as [[[c|t c|ms| |]|t w|ps r]|]; reflexivity.
  - destruct Hin as [<-|[]]. simpl. rewrite Hty.
    destruct (lookup (s_env st) ent) as [[[c|t c|ms| |]|t w|ps r]|]; reflexivity.
  - simpl. destruct (lookup (s_env st) m) as [[v0|t [|]|ps r]|]; try reflexivity.
    destruct Hin as [<-|Hin].
    + rewrite Hty. reflexivity.
    + destruct w as [we|]; [|contradiction]. destruct Hin as [<-|[]].
      rewrite Hty. destruct (ty known st v) as [tv|]; [|reflexivity].
      rewrite andb_false_r. reflexivity.
  - destruct Hin as [<-|[]]. simpl. rewrite Hty. reflexivity.
  - destruct Hin as [<-|[]]. simpl. rewrite Hty. reflexivity.
Qed.

Lemma stmt_occurs_rejects : forall known st p s,
  (forall e, p e = true -> ty known st e = None) ->
  stmt_occurs p s = true -> check_stmt known st s = None.
Proof.
  intros known st p s Hloc H. unfold stmt_occurs in H.
  apply existsb_exists in H. destruct H as [e [Hin Ho]].
  eapply stmt_strict; [exact Hin|]. unfold Wf.ty. eapply strict; [|exact Ho]. exact Hloc.
Qed.

(* ------------------------------------------------------------------ plugging *)
Lemma seq_app_none : forall known pre st s post,
  (forall st', check_stmts known st pre = Some st' -> check_stmt known st' s = None) ->
  check_stmts known st (pre ++ s :: post) = None.
Proof.
  induction pre as [|a pre IH]; intros st s post H; unfold check_stmts in *; simpl in *.
  - rewrite (H st eq_refl). reflexivity.
  - destruct (check_stmt known st a) as [st1|]; [|reflexivity].
    apply IH. exact H.
Qed.

Lemma wrap_none : forall known st fr body,
  (forall st', enter st fr = Some st' -> check_stmts known st' body = None) ->
  check_stmt known st (wrap fr body) = None.
Proof.
  intros known st [f ps|it iter] body H; simpl in *.
  - destruct (enter_func st f ps) as [st_in|]; [|reflexivity].
    unfold check_stmts in H. rewrite (H st_in eq_refl). reflexivity.
  - destruct (iter_info (s_env st) iter) as [two|]; [|reflexivity].
    unfold check_stmts in H. rewrite (H _ eq_refl). reflexivity.
Qed.

Lemma plug_layers_none : forall known ls st inner,
  (forall st', layers_state known ls st = Some st' -> check_stmts known st' inner = None) ->
  check_stmts known st (plug_layers ls inner) = None.
Proof.
  induction ls as [|l ls IH]; intros st inner H; simpl in *.
  - apply H. reflexivity.
  - apply seq_app_none. intros st1 H1. apply wrap_none. intros st2 H2.
    apply IH. intros st' H'. apply H. rewrite H1, H2. exact H'.
Qed.

(* The hole: whatever state the context provides, if the statement is rejected there, the
   plugged program is rejected. *)
Theorem plug_rejects : forall known c s,
  (forall st, ctx_state known c = Some st -> check_stmt known st s = None) ->
  wf known (plug c s) = false.
Proof.
  intros known c s H. unfold wf, plug.
  rewrite plug_layers_none; [reflexivity|].
  intros st' Hl. apply seq_app_none. intros st'' Hp. apply H.
  unfold ctx_state. rewrite Hl. exact Hp.
Qed.

(* ------------------------------------------------------------------ rule families *)
Definition is_var (x : string) (e : wexpr) : bool :=
  match e with WVar y => String.eqb x y | _ => false end.
Definition is_call (f : string) (e : wexpr) : bool :=
  match e with WCall g _ => String.eqb f g | _ => false end.
Definition is_read (m : string) (e : wexpr) : bool :=
  match e with WRead n => String.eqb m n | _ => false end.
Definition uses_signal (t : string) (e : wexpr) : bool :=
  match e with WLit u _ | WProj _ u => String.eqb t u | _ => false end.
Definition is_bad_arity (f : string) (n : nat) (e : wexpr) : bool :=
  match e with WCall g args => String.eqb f g && negb (Nat.eqb (List.length args) n) | _ => false end.

Fixpoint lit_names (els : list wexpr) : list string :=
  match els with
  | [] => []
  | WLit t _ :: r => t :: lit_names r
  | _ :: r => lit_names r
  end.
Fixpoint has_dup (l : list string) : bool :=
  match l with [] => false | x :: r => mem_str x r || has_dup r end.
Definition is_dup_bundle (e : wexpr) : bool :=
  match e with WBundle els => has_dup (lit_names els) | _ => false end.

(* shapes that depend on the static values of the operands *)
Definition is_bundle_op_bundle known G opn (e : wexpr) : bool :=
  match e with
  | WBin a b => match ty_expr known G opn a, ty_expr known G opn b with
                | Some (VBundle _), Some (VBundle _) => true | _, _ => false end
  | _ => false
  end.
Definition is_bare_bundle_cmp known G opn (e : wexpr) : bool :=
  match e with
  | WCmp a b => match ty_expr known G opn a with Some (VBundle _) => true | _ => false end
  | _ => false
  end.
Definition is_absent_sel known G opn (e : wexpr) : bool :=
  match e with
  | WSel a t => match ty_expr known G opn a with
                | Some (VBundle ms) => negb (mem_str t ms) | _ => false end
  | _ => false
  end.
Fixpoint has_bad_arg (ps : list kind) (l : list (option vty)) : bool :=
  match ps, l with
  | p :: ps', Some v :: l' => negb (arg_ok p v) || has_bad_arg ps' l'
  | _, _ => false
  end.
Definition is_bad_arg_call known G opn (f : string) (ps : list kind) (e : wexpr) : bool :=
  match e with
  | WCall g args => String.eqb f g && has_bad_arg ps (map (ty_expr known G opn) args)
  | _ => false
  end.
Definition is_noncmp_out G (e : wexpr) : bool :=
  match e with
  | WOut (WCmp _ _) _ => false
  | WOut c _ => negb (is_cmp_expr G c)
  | _ => false
  end.

Definition declares (s : wstmt) : option string :=
  match s with
  | SDecl _ x _ | SMem x _ | SFunc x _ _ => Some x
  | _ => None
  end.

Lemma eqb_eq' : forall a b, String.eqb a b = true -> a = b.
Proof. intros a b H. apply String.eqb_eq. exact H. Qed.

Lemma mem_str_In : forall x l, mem_str x l = true <-> In x l.
Proof.
  intros x l. unfold mem_str. rewrite existsb_exists. split.
  - intros [y [Hy E]]. apply eqb_eq' in E. subst. exact Hy.
  - intros H. exists x. split; [exact H|apply String.eqb_refl].
Qed.

(* -- bundle literals *)
Lemma bundle_members_app : forall l l' acc,
  bundle_members (l ++ l') acc =
  match bundle_members l acc with Some acc' => bundle_members l' acc' | None => None end.
Proof.
  induction l as [|[v|] l IH]; intros l' acc; simpl; try reflexivity.
  destruct v as [c|[t|] c|ms| |]; try reflexivity.
  - destruct (mem_str t acc); [reflexivity|apply IH].
  - apply IH.
  - destruct (disjointb ms acc); [apply IH|reflexivity].
Qed.

Lemma bundle_members_mono : forall l acc acc' t,
  bundle_members l acc = Some acc' -> In t acc -> In t acc'.
Proof.
  induction l as [|[v|] l IH]; intros acc acc' t H Hin; simpl in H; try discriminate.
  - inversion H. subst. exact Hin.
  - destruct v as [c|[u|] c|ms| |]; try discriminate.
    + destruct (mem_str u acc); [discriminate|]. eapply IH; [exact H|]. right. exact Hin.
    + eapply IH; [exact H|exact Hin].
    + destruct (disjointb ms acc); [|discriminate]. eapply IH; [exact H|].
      apply in_or_app. right. exact Hin.
Qed.

Lemma ty_lit_cases : forall known G opn t a,
  ty_expr known G opn (WLit t a) = None \/
  ty_expr known G opn (WLit t a) = Some (VSig (Some t) false).
Proof.
  intros. simpl. destruct (ty_expr known G opn a) as [v|]; [|left; reflexivity].
  destruct (sig_ok known t && scalar v); [right|left]; reflexivity.
Qed.

Lemma dup_shape_rejects : forall known G opn l1 t a l2 b l3,
  ty_expr known G opn (WBundle (l1 ++ WLit t a :: l2 ++ WLit t b :: l3)) = None.
Proof.
  intros. cbn [ty_expr]. rewrite map_app. rewrite bundle_members_app.
  destruct (bundle_members (map (ty_expr known G opn) l1) []) as [acc1|]; [|reflexivity].
  rewrite map_cons. cbn [bundle_members].
  destruct (ty_lit_cases known G opn t a) as [E|E]; rewrite E; [reflexivity|].
  destruct (mem_str t acc1); [reflexivity|].
  rewrite map_app. rewrite bundle_members_app.
  destruct (bundle_members (map (ty_expr known G opn) l2) (t :: acc1)) as [acc2|] eqn:E2; [|reflexivity].
  rewrite map_cons. cbn [bundle_members].
  destruct (ty_lit_cases known G opn t b) as [E'|E']; rewrite E'; [reflexivity|].
  assert (Hin : In t acc2) by (eapply bundle_members_mono; [exact E2|left; reflexivity]).
  apply mem_str_In in Hin. rewrite Hin. reflexivity.
Qed.

Lemma mem_lit_names_shape : forall t els, mem_str t (lit_names els) = true ->
  exists l2 b l3, els = l2 ++ WLit t b :: l3.
Proof.
  induction els as [|e els IH]; intros H; [discriminate|].
  assert (Hrec : mem_str t (lit_names els) = true -> exists l2 b l3, e :: els = l2 ++ WLit t b :: l3).
  { intros H'. destruct (IH H') as [l2 [b [l3 ->]]]. exists (e :: l2), b, l3. reflexivity. }
  destruct e; try (apply Hrec; exact H).
  simpl in H. apply orb_true_iff in H. destruct H as [H|H].
  - apply eqb_eq' in H. subst. exists [], e, els. reflexivity.
  - apply Hrec. exact H.
Qed.

Lemma has_dup_shape : forall els, has_dup (lit_names els) = true ->
  exists l1 t a l2 b l3, els = l1 ++ WLit t a :: l2 ++ WLit t b :: l3.
Proof.
  induction els as [|e els IH]; intros H; [discriminate|].
  assert (Hrec : has_dup (lit_names els) = true ->
                 exists l1 t a l2 b l3, e :: els = l1 ++ WLit t a :: l2 ++ WLit t b :: l3).
  { intros H'. destruct (IH H') as [l1 [t [a [l2 [b [l3 ->]]]]]].
    exists (e :: l1), t, a, l2, b, l3. reflexivity. }
  destruct e; try (apply Hrec; exact H).
  simpl in H. apply orb_true_iff in H. destruct H as [H|H].
  - destruct (mem_lit_names_shape _ _ H) as [l2 [b [l3 ->]]].
    exists [], ty, e, l2, b, l3. reflexivity.
  - apply Hrec. exact H.
Qed.

Lemma check_args_length : forall ps l, check_args ps l = true -> List.length ps = List.length l.
Proof.
  induction ps as [|p ps IH]; intros [|[v|] l] H; simpl in *; try discriminate; try reflexivity.
  apply andb_true_iff in H. destruct H as [_ H]. f_equal. apply IH. exact H.
Qed.

Lemma has_bad_arg_rejects : forall ps l, has_bad_arg ps l = true -> check_args ps l = false.
Proof.
  induction ps as [|p ps IH]; intros [|[v|] l] H; simpl in *; try discriminate; try reflexivity.
  apply orb_true_iff in H. destruct H as [H|H].
  - apply negb_true_iff in H. rewrite H. reflexivity.
  - rewrite (IH l H). apply andb_false_r.
Qed.

(* the "violates a rule under the environment at the hole" predicate, one constructor per
   rule family *)
Section Violates.
Variable known : list string.

Inductive violates (st : state) : wstmt -> Prop :=
| V_undef_var : forall s x,                       (* [undef-var] *)
    lookup (s_env st) x = None -> stmt_occurs (is_var x) s = true -> violates st s
| V_undef_func : forall s f,                      (* [undef-func] *)
    lookup (s_env st) f = None -> stmt_occurs (is_call f) s = true -> violates st s
| V_undef_mem_read : forall s m,                  (* [undef-mem] *)
    lookup (s_env st) m = None -> stmt_occurs (is_read m) s = true -> violates st s
| V_undef_mem_write : forall m v w,
    lookup (s_env st) m = None -> violates st (SWrite m v w)
| V_undef_entity : forall ent e,                  (* [undef-entity] *)
    lookup (s_env st) ent = None -> violates st (SEnable ent e)
| V_redef : forall s x,                           (* [redef] *)
    declares s = Some x -> in_top (s_env st) x = true -> violates st s
| V_immutable : forall x e v,                     (* [immutable] *)
    lookup (s_env st) x = Some (EVal v) -> v <> VEntity -> violates st (SAssign x e)
| V_kind_decl : forall k x e v,                   (* [kind-decl] *)
    ty known st e = Some v -> coerce k v = None -> violates st (SDecl k x e)
| V_kind_param : forall s f ps r,                (* [kind-param] *)
    lookup (s_env st) f = Some (EFun ps r) ->
    stmt_occurs (is_bad_arg_call known (s_env st) (s_open st) f ps) s = true -> violates st s
| V_arity : forall s f ps r n,                    (* [arity] *)
    lookup (s_env st) f = Some (EFun ps r) -> List.length ps = n ->
    stmt_occurs (is_bad_arity f n) s = true -> violates st s
| V_recursion : forall s f,                       (* [recursion] *)
    In f (s_open st) -> stmt_occurs (is_call f) s = true -> violates st s
| V_dup_member : forall s,                        (* [dup-member] *)
    stmt_occurs is_dup_bundle s = true -> violates st s
| V_bundle_op_bundle : forall s,                  (* [bundle-op-bundle] *)
    stmt_occurs (is_bundle_op_bundle known (s_env st) (s_open st)) s = true -> violates st s
| V_bare_bundle_cmp : forall s,                   (* [bare-bundle-cmp] *)
    stmt_occurs (is_bare_bundle_cmp known (s_env st) (s_open st)) s = true -> violates st s
| V_absent_member : forall s,                     (* [absent-member] *)
    stmt_occurs (is_absent_sel known (s_env st) (s_open st)) s = true -> violates st s
| V_non_cmp : forall s,                           (* [non-cmp] *)
    stmt_occurs (is_noncmp_out (s_env st)) s = true -> violates st s
| V_unknown_signal : forall s t,                  (* [unknown-signal] *)
    mem_str t known = false -> stmt_occurs (uses_signal t) s = true -> violates st s
| V_reserved : forall s,                          (* [reserved] *)
    stmt_occurs (uses_signal reserved) s = true -> violates st s
| V_reserved_mem : forall x,
    violates st (SMem x (Some reserved))
| V_write_type : forall m v w t0 t1 c wr,         (* [write-type] *)
    lookup (s_env st) m = Some (EMem (Some t0) wr) ->
    ty known st v = Some (VSig (Some t1) c) -> t0 <> t1 -> violates st (SWrite m v w)
| V_second_write : forall m v w t,                (* [second-write] *)
    lookup (s_env st) m = Some (EMem t true) -> violates st (SWrite m v w)
| V_zero_step : forall it a b sb body,            (* [zero-step] *)
    eval_bound (s_env st) sb = Some 0%Z -> violates st (SFor it (IRange a b (Some sb)) body).
End Violates.

Lemma declare_taken : forall st x e, in_top (s_env st) x = true -> declare st x e = None.
Proof. intros st x e H. unfold declare. rewrite H. reflexivity. Qed.

Lemma sig_ok_reserved : forall known, sig_ok known reserved = false.
Proof. intros. unfold sig_ok. rewrite String.eqb_refl. apply andb_false_r. Qed.

Lemma sig_ok_unknown : forall known t, mem_str t known = false -> sig_ok known t = false.
Proof. intros known t H. unfold sig_ok. rewrite H. reflexivity. Qed.

Lemma uses_signal_rejects : forall known G opn t e,
  sig_ok known t = false -> uses_signal t e = true -> ty_expr known G opn e = None.
Proof.
  intros known G opn t e Hs H. destruct e; try discriminate; simpl in H; apply eqb_eq' in H; subst;
    simpl; destruct (ty_expr known G opn e); try reflexivity; rewrite Hs; reflexivity.
Qed.

Theorem violates_rejects : forall known st s, violates known st s -> check_stmt known st s = None.
Proof.
  intros known st s V. destruct V.
  - (* undef var *)
    eapply stmt_occurs_rejects; [|eassumption].
    intros e He. destruct e; try discriminate. simpl in He. apply eqb_eq' in He. subst.
    unfold Wf.ty. simpl. rewrite H. reflexivity.
  - (* undef func *)
    eapply stmt_occurs_rejects; [|eassumption].
    intros e He. destruct e; try discriminate. simpl in He. apply eqb_eq' in He. subst.
    unfold Wf.ty. simpl. rewrite H. reflexivity.
  - (* undef mem read *)
    eapply stmt_occurs_rejects; [|eassumption].
    intros e He. destruct e; try discriminate. simpl in He. apply eqb_eq' in He. subst.
    unfold Wf.ty. simpl. rewrite H. reflexivity.
  - simpl. rewrite H. reflexivity.
  - simpl. rewrite H. reflexivity.
  - (* redef *)
    destruct s; try discriminate; simpl in H; inversion H; subst; simpl.
    + destruct (ty known st e); [|reflexivity]. destruct (coerce k v); [|reflexivity].
      apply declare_taken. assumption.
    + destruct (match ty with Some n => sig_ok known n | None => true end); [|reflexivity].
      apply declare_taken. assumption.
    + unfold enter_func. rewrite declare_taken by assumption. reflexivity.
  - (* immutable *)
    simpl. rewrite H. destruct v; try reflexivity. exfalso. apply H0. reflexivity.
  - (* kind decl *)
    simpl. rewrite H, H0. reflexivity.
  - (* kind param *)
    eapply stmt_occurs_rejects; [|eassumption].
    intros e He. destruct e; try discriminate. simpl in He.
    apply andb_true_iff in He. destruct He as [Hf Hb]. apply eqb_eq' in Hf. subst f0.
    unfold Wf.ty. simpl. rewrite H. destruct (mem_str f (s_open st)); [reflexivity|].
    rewrite (has_bad_arg_rejects _ _ Hb). reflexivity.
  - (* arity *)
    eapply stmt_occurs_rejects; [|eassumption].
    intros e He. destruct e; try discriminate. simpl in He.
    apply andb_true_iff in He. destruct He as [Hf Hn]. apply eqb_eq' in Hf. subst f0.
    unfold Wf.ty. simpl. rewrite H. destruct (mem_str f (s_open st)); [reflexivity|].
    destruct (check_args ps (map (ty_expr known (s_env st) (s_open st)) args)) eqn:E; [|reflexivity].
    apply check_args_length in E. rewrite map_length in E.
    apply negb_true_iff in Hn. apply Nat.eqb_neq in Hn. congruence.
  - (* recursion *)
    eapply stmt_occurs_rejects; [|eassumption].
    intros e He. destruct e; try discriminate. simpl in He. apply eqb_eq' in He. subst.
    unfold Wf.ty. simpl. apply mem_str_In in H. rewrite H.
    destruct (lookup (s_env st) f0) as [[v|t w|ps r]|]; reflexivity.
  - (* dup member *)
    eapply stmt_occurs_rejects; [|eassumption].
    intros e He. destruct e; try discriminate. simpl in He.
    destruct (has_dup_shape _ He) as [l1 [t [a [l2 [b [l3 ->]]]]]].
    apply dup_shape_rejects.
  - (* bundle op bundle *)
    eapply stmt_occurs_rejects; [|eassumption].
    intros e He. destruct e; try discriminate. unfold Wf.ty. simpl in *.
    destruct (ty_expr known (s_env st) (s_open st) e1) as [[c|t c|ms| |]|]; try discriminate.
    destruct (ty_expr known (s_env st) (s_open st) e2) as [[c|t c|ms'| |]|]; try discriminate.
    reflexivity.
  - (* bare bundle cmp *)
    eapply stmt_occurs_rejects; [|eassumption].
    intros e He. destruct e; try discriminate. unfold Wf.ty. simpl in *.
    destruct (ty_expr known (s_env st) (s_open st) e1) as [[c|t c|ms| |]|]; try discriminate.
    destruct (ty_expr known (s_env st) (s_open st) e2); reflexivity.
  - (* absent member *)
    eapply stmt_occurs_rejects; [|eassumption].
    intros e He. destruct e; try discriminate. unfold Wf.ty. simpl in *.
    destruct (ty_expr known (s_env st) (s_open st) e) as [[c|t c|ms| |]|]; try discriminate.
    apply negb_true_iff in He. rewrite He. reflexivity.
  - (* non cmp *)
    eapply stmt_occurs_rejects; [|eassumption].
    intros e He. destruct e; try discriminate. unfold Wf.ty.
    destruct (wcmp_dec e1) as [[a [b ->]]|Hn]; [discriminate|].
    rewrite ty_out_noncmp by exact Hn.
    assert (E : is_cmp_expr (s_env st) e1 = false).
    { destruct e1; simpl in He; try reflexivity; try (apply negb_true_iff in He; exact He).
      exfalso. eapply Hn. reflexivity. }
    rewrite E. reflexivity.
  - (* unknown signal *)
    eapply stmt_occurs_rejects; [|eassumption].
    intros e He. eapply uses_signal_rejects; [|exact He]. apply sig_ok_unknown. assumption.
  - (* reserved *)
    eapply stmt_occurs_rejects; [|eassumption].
    intros e He. eapply uses_signal_rejects; [|exact He]. apply sig_ok_reserved.
  - simpl. rewrite sig_ok_reserved. reflexivity.
  - (* write type *)
    simpl. rewrite H. destruct wr; [reflexivity|]. rewrite H0.
    assert (E : String.eqb t0 t1 = false) by (apply String.eqb_neq; assumption).
    rewrite E. rewrite andb_false_r. reflexivity.
  - (* second write *)
    simpl. rewrite H. reflexivity.
  - (* zero step *)
    simpl. destruct (eval_bound (s_env st) a); [|reflexivity].
    destruct (eval_bound (s_env st) b); [|reflexivity]. rewrite H. reflexivity.
Qed.

(* ------------------------------------------------------------------ the theorem *)
Theorem wf_compositional : forall known c s st,
  ctx_state known c = Some st -> violates known st s -> wf known (plug c s) = false.
Proof.
  intros known c s st Hc V. apply plug_rejects. intros st' Hc'.
  rewrite Hc in Hc'. inversion Hc'. subst. apply violates_rejects. exact V.
Qed.

(* an ill-formed context stays ill-formed whatever is plugged in *)
Theorem wf_dead_context : forall known c s,
  ctx_state known c = None -> wf known (plug c s) = false.
Proof. intros known c s H. apply plug_rejects. intros st H'. rewrite H in H'. discriminate. Qed.

(* ------------------------------------------------------------------ recursion, stated on the context *)
Lemma declare_open : forall st x e st', declare st x e = Some st' -> s_open st' = s_open st.
Proof. unfold declare. intros st x e st'. destruct (in_top (s_env st) x); intros H; inversion H. reflexivity. Qed.

Lemma check_stmt_open : forall known st s st', check_stmt known st s = Some st' -> s_open st' = s_open st.
Proof.
  intros known st s st' H. destruct s; simpl in H.
  - destruct (ty known st e); [|discriminate]. destruct (coerce k v); [|discriminate].
    eapply declare_open. exact H.
  - destruct (match ty with Some n => sig_ok known n | None => true end); [|discriminate].
    eapply declare_open. exact H.
  - destruct (lookup (s_env st) x) as [[[c|t c|ms| |]|t w|ps r]|]; try discriminate;
      destruct (ty known st e); inversion H; reflexivity.
  - destruct (lookup (s_env st) ent) as [[[c|t c|ms| |]|t w|ps r]|]; try discriminate.
    destruct (ty known st e); [|discriminate]. destruct (scalar v); inversion H. reflexivity.
  - destruct (lookup (s_env st) m) as [[v0|t [|]|ps r]|]; try discriminate.
    destruct (ty known st v); [|discriminate].
    match goal with H : (if ?b then _ else _) = _ |- _ => destruct b end; inversion H. reflexivity.
  - destruct (ty known st e); inversion H. reflexivity.
  - destruct (ty known st e); inversion H. reflexivity.
  - destruct (enter_func st f ps); [|discriminate].
    destruct (seq (check_stmt known) body s); inversion H. reflexivity.
  - destruct (iter_info (s_env st) iter) as [two|]; [|discriminate].
    destruct (seq (check_stmt known) body (enter_for st (s_env st) it)) as [st1|]; [|discriminate].
    destruct two.
    + destruct (seq (check_stmt known) body (enter_for st (tl (s_env st1)) it)); inversion H. reflexivity.
    + inversion H. reflexivity.
Qed.

Lemma check_stmts_open : forall known l st st', check_stmts known st l = Some st' -> s_open st' = s_open st.
Proof.
  induction l as [|s l IH]; intros st st' H; unfold check_stmts in *; simpl in H.
  - inversion H. reflexivity.
  - destruct (check_stmt known st s) as [st1|] eqn:E; [|discriminate].
    rewrite (IH _ _ H). eapply check_stmt_open. exact E.
Qed.

Lemma bind_params_open : forall ps st st', bind_params ps st = Some st' -> s_open st' = s_open st.
Proof.
  induction ps as [|[k x] ps IH]; intros st st' H; simpl in H.
  - inversion H. reflexivity.
  - destruct (param_entry k); [|discriminate].
    destruct (declare st x e) as [st1|] eqn:E; [|discriminate].
    rewrite (IH _ _ H). eapply declare_open. exact E.
Qed.

Lemma enter_open : forall st fr st', enter st fr = Some st' ->
  (forall g, In g (s_open st) -> In g (s_open st')) /\
  (forall f ps, fr = FFunc f ps -> In f (s_open st')).
Proof.
  intros st [f ps|it iter] st' H; simpl in H.
  - unfold enter_func in H. destruct (declare st f (EFun (map fst ps) VVoid)) as [st1|] eqn:E; [|discriminate].
    apply bind_params_open in H. simpl in H. rewrite (declare_open _ _ _ _ E) in H.
    split.
    + intros g Hg. rewrite H. right. exact Hg.
    + intros f0 ps0 Heq. inversion Heq. subst. rewrite H. left. reflexivity.
  - destruct (iter_info (s_env st) iter); inversion H. subst. simpl. split.
    + intros g Hg. exact Hg.
    + intros f ps Heq. discriminate.
Qed.

Lemma layers_open : forall known ls st st' f,
  layers_state known ls st = Some st' ->
  In f (s_open st) \/ (exists ps, In (FFunc f ps) (map l_frame ls)) ->
  In f (s_open st').
Proof.
  induction ls as [|l ls IH]; intros st st' f H Hor; simpl in H.
  - inversion H. subst. destruct Hor as [Hin|[ps []]]. exact Hin.
  - destruct (check_stmts known st (l_pre l)) as [st1|] eqn:E1; [|discriminate].
    destruct (enter st1 (l_frame l)) as [st2|] eqn:E2; [|discriminate].
    destruct (enter_open _ _ _ E2) as [Hkeep Hnew].
    eapply IH; [exact H|].
    destruct Hor as [Hin|[ps [Heq|Hin]]].
    + left. apply Hkeep. rewrite (check_stmts_open _ _ _ _ E1). exact Hin.
    + left. eapply Hnew. exact Heq.
    + right. exists ps. exact Hin.
Qed.

(* direct (or nested) recursion: a call to f anywhere inside the body of f -- at any depth of
   further function / loop nesting -- makes the program ill-formed *)
Theorem wf_recursion_anywhere : forall known c s f ps,
  In (FFunc f ps) (map l_frame (c_layers c)) ->
  stmt_occurs (is_call f) s = true ->
  wf known (plug c s) = false.
Proof.
  intros known c s f ps Hin Hs. apply plug_rejects. intros st Hc.
  apply violates_rejects. apply V_recursion with (f := f); [|exact Hs].
  unfold ctx_state in Hc.
  destruct (layers_state known (c_layers c) init) as [st0|] eqn:E; [|discriminate].
  rewrite (check_stmts_open _ _ _ _ Hc).
  eapply layers_open; [exact E|]. right. exists ps. exact Hin.
Qed.

(* ------------------------------------------------------------------ non-vacuity *)
Local Open Scope string_scope.
Local Open Scope Z_scope.

Definition ex_known : list string := ["signal-A"; "signal-B"; "iron-plate"; "copper-plate"; "signal-W"].

(* Signal a = ("signal-A", 3);  int k = 2;
   func f(Signal p, int n) { Memory q: "signal-B"; q.write((p + n) | "signal-B", when=p > 0); return q.read() * 2; }
   Memory m: "signal-A";
   Bundle b = { ("iron-plate", 1), a };
   for i in 0..k step 1 { Entity l = place("small-lamp", i, 0); l.enable = f(a, i) > 1; }
   m.write(b["iron-plate"] | "signal-A", when=any(b) > 3);
   Bundle g = (b > 0) : b;
   Signal r = (a > 1) : m.read();                                                               *)
Definition ex_prog : program :=
  [ SDecl KSignal "a" (WLit "signal-A" (WInt 3));
    SDecl KInt "k" (WInt 2);
    SFunc "f" [(KSignal, "p"); (KInt, "n")]
      [ SMem "q" (Some "signal-B");
        SWrite "q" (WProj (WBin (WVar "p") (WVar "n")) "signal-B") (Some (WCmp (WVar "p") (WInt 0)));
        SReturn (WBin (WRead "q") (WInt 2)) ];
    SMem "m" (Some "signal-A");
    SDecl KBundle "b" (WBundle [WLit "iron-plate" (WInt 1); WVar "a"]);
    SFor "i" (IRange (BNum 0) (BVar "k") (Some (BNum 1)))
      [ SDecl KEntity "l" (WPlace (WVar "i") (WInt 0));
        SEnable "l" (WCmp (WCall "f" [WVar "a"; WVar "i"]) (WInt 1)) ];
    SWrite "m" (WProj (WSel (WVar "b") "iron-plate") "signal-A") (Some (WCmp (WAny (WVar "b")) (WInt 3)));
    SDecl KBundle "g" (WOut (WCmp (WVar "b") (WInt 0)) (WVar "b"));
    SDecl KSignal "r" (WOut (WCmp (WVar "a") (WInt 1)) (WRead "m")) ].

Lemma ex_prog_wf : wf ex_known ex_prog = true.
Proof. vm_compute. reflexivity. Qed.

(* a hole inside a loop inside a function, after a local memory has been written once;
   l_pre / l_post of a layer are the siblings of the enclosing function / loop statement *)
Definition ex_ctx : ctx :=
  {| c_layers :=
       [ {| l_pre := [SDecl KSignal "a" (WLit "signal-A" (WInt 3))];
            l_frame := FFunc "f" [(KSignal, "p")];
            l_post := [SDecl KSignal "z" (WCall "f" [WVar "a"])] |};
         {| l_pre := [SMem "q" (Some "signal-B"); SWrite "q" (WVar "p") None];
            l_frame := FFor "i" (IList [1; 2; 3]);
            l_post := [SReturn (WVar "p")] |} ];
     c_pre := [SDecl KSignal "t" (WBin (WVar "p") (WVar "i"))];
     c_post := [SDecl KSignal "u" (WVar "t")] |}.

Lemma ex_ctx_state : exists st, ctx_state ex_known ex_ctx = Some st
  /\ lookup (s_env st) "nope" = None
  /\ lookup (s_env st) "q" = Some (EMem (Some "signal-B") true)
  /\ In "f" (s_open st).
Proof. eexists. split; [vm_compute; reflexivity|]. vm_compute. repeat split. left. reflexivity. Qed.

(* the context itself is fine with a harmless statement in the hole *)
Lemma ex_ctx_wf : wf ex_known (plug ex_ctx (SDecl KSignal "w" (WVar "t"))) = true.
Proof. vm_compute. reflexivity. Qed.

(* and each of these, plugged into it, is rejected -- by the theorem, not by computation *)
Lemma ex_ctx_second_write : wf ex_known (plug ex_ctx (SWrite "q" (WInt 1) None)) = false.
Proof.
  destruct ex_ctx_state as [st [Hc [_ [Hq _]]]].
  eapply wf_compositional; [exact Hc|]. eapply V_second_write. exact Hq.
Qed.

Lemma ex_ctx_undef : wf ex_known (plug ex_ctx (SDecl KSignal "w" (WBin (WVar "t") (WUn (WVar "nope"))))) = false.
Proof.
  destruct ex_ctx_state as [st [Hc [Hn _]]].
  eapply wf_compositional; [exact Hc|]. eapply V_undef_var; [exact Hn|reflexivity].
Qed.

Lemma ex_ctx_recursion : wf ex_known (plug ex_ctx (SDecl KSignal "w" (WCall "f" [WVar "t"]))) = false.
Proof. eapply wf_recursion_anywhere with (f := "f") (ps := [(KSignal, "p")]); [left; reflexivity|reflexivity]. Qed.
