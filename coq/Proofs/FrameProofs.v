(* FrameProofs.v -- independence on the specification side (C12).
   Placing an independent program in front of a program changes none of its values: with every
   declaration reference of the second program shifted past the first ([dlift]), the values of the
   combined program are the values of the first followed by the values of the second -- for every value
   algebra (concrete and symbolic), every valuation of the inputs.  Together with the per-blueprint
   certificate of the combined program this is "each computation reads what it reads when compiled
   alone". *)
From Coq Require Import ZArith List Bool Lia.
From FV Require Import Base.Int32 Factorio.Circuit Valid.Hom Facto.Syntax Facto.Denote.
Import ListNotations.
Open Scope nat_scope.

Fixpoint lift (n : nat) (e : expr) : expr :=
  match e with
  | EInt z => EInt z
  | ELit t v => ELit t (lift n v)
  | EVar i => EVar (n + i)
  | EBin o a b => EBin o (lift n a) (lift n b)
  | ECmp o a b => ECmp o (lift n a) (lift n b)
  | EAnd a b => EAnd (lift n a) (lift n b)
  | EOr a b => EOr (lift n a) (lift n b)
  | ENot a => ENot (lift n a)
  | ENeg a => ENeg (lift n a)
  | EProj a s => EProj (lift n a) s
  | ECond c v => ECond (lift n c) (lift n v)
  | ESel b s => ESel (n + b) s
  | EAny o b c => EAny o (n + b) (lift n c)
  | EAll o b c => EAll o (n + b) (lift n c)
  end.

Fixpoint blift (n : nat) (b : bexpr) : bexpr :=
  match b with
  | BLit ms => BLit (map (fun se => (fst se, lift n (snd se))) ms)
  | BRef i => BRef (n + i)
  | BMerge a b' => BMerge (blift n a) (blift n b')
  | BArith o b' x => BArith o (blift n b') (lift n x)
  | BFilter o b' x k => BFilter o (blift n b') (lift n x) k
  | BGate c b' => BGate (lift n c) (blift n b')
  end.

Definition dlift (n : nat) (d : decl) : decl :=
  match d with
  | DIn t v => DIn t v
  | DSig e => DSig (lift n e)
  | DInt e => DInt (lift n e)
  | DBundle b => DBundle (blift n b)
  | DSource c => DSource c
  end.

Section Frame.
Context {V : Type} (A : alg V).
Variable U : list sig.

Lemma nth_skip {T} (l1 l2 : list T) i d : nth (length l1 + i) (l1 ++ l2) d = nth i l2 d.
Proof. rewrite app_nth2 by lia. f_equal. lia. Qed.

Lemma den_lift vals1 bvals1 vals2 bvals2 e :
  length bvals1 = length vals1 ->
  den A U (vals1 ++ vals2) (bvals1 ++ bvals2) (lift (length vals1) e) = den A U vals2 bvals2 e.
Proof.
  intros L. induction e; cbn [lift den]; try congruence.
  - apply nth_skip.
  - rewrite <- L, nth_skip. reflexivity.
  - rewrite <- L, nth_skip, L, IHe. reflexivity.
  - rewrite <- L, nth_skip, L, IHe. reflexivity.
Qed.

Lemma bden_blift vals1 bvals1 vals2 bvals2 b :
  length bvals1 = length vals1 ->
  bden A U (vals1 ++ vals2) (bvals1 ++ bvals2) (blift (length vals1) b) = bden A U vals2 bvals2 b.
Proof.
  intros L. induction b; cbn [blift bden].
  - rewrite map_map. apply map_ext. intros [s e]. cbn [fst snd]. rewrite den_lift by exact L. reflexivity.
  - rewrite <- L. apply nth_skip.
  - rewrite IHb1, IHb2. reflexivity.
  - rewrite IHb, den_lift by exact L. reflexivity.
  - rewrite IHb, den_lift by exact L. reflexivity.
  - rewrite IHb, den_lift by exact L. reflexivity.
Qed.

Lemma den_decl_dlift vals1 bvals1 vals2 bvals2 d :
  length bvals1 = length vals1 ->
  den_decl A U (vals1 ++ vals2) (bvals1 ++ bvals2) (dlift (length vals1) d) = den_decl A U vals2 bvals2 d.
Proof.
  intros L. destruct d; cbn [dlift den_decl]; rewrite ?den_lift, ?bden_blift by exact L; reflexivity.
Qed.

Lemma den_all_aux_frame ds : forall vals1 bvals1 vals2 bvals2,
  length bvals1 = length vals1 ->
  den_all_aux A U (vals1 ++ vals2) (bvals1 ++ bvals2) (map (dlift (length vals1)) ds)
  = (vals1 ++ fst (den_all_aux A U vals2 bvals2 ds), bvals1 ++ snd (den_all_aux A U vals2 bvals2 ds)).
Proof.
  induction ds as [|d ds IH]; intros vals1 bvals1 vals2 bvals2 L; cbn [map den_all_aux fst snd]; [reflexivity|].
  rewrite den_decl_dlift by exact L.
  destruct (den_decl A U vals2 bvals2 d) as [v m].
  rewrite <- !app_assoc. apply IH. exact L.
Qed.

Lemma den_all_aux_app ds1 : forall ds2 vals bvals,
  den_all_aux A U vals bvals (ds1 ++ ds2)
  = den_all_aux A U (fst (den_all_aux A U vals bvals ds1)) (snd (den_all_aux A U vals bvals ds1)) ds2.
Proof.
  induction ds1 as [|d ds1 IH]; intros ds2 vals bvals; cbn [app den_all_aux fst snd]; [reflexivity|].
  destruct (den_decl A U vals bvals d) as [v m]. apply IH.
Qed.

Lemma den_all_aux_length ds : forall vals bvals,
  length (fst (den_all_aux A U vals bvals ds)) = length vals + length ds /\
  length (snd (den_all_aux A U vals bvals ds)) = length bvals + length ds.
Proof.
  induction ds as [|d ds IH]; intros vals bvals; cbn [den_all_aux fst snd length]; [lia|].
  destruct (den_decl A U vals bvals d) as [v m].
  destruct (IH (vals ++ [v]) (bvals ++ [m])) as [E1 E2]. rewrite E1, E2, !app_length. cbn [length]. lia.
Qed.

(* the values of  ds1 ; (ds2 shifted past ds1)  are the values of ds1 followed by the values of ds2 *)
Theorem den_prog_frame ds1 ds2 :
  den_prog A U (ds1 ++ map (dlift (length ds1)) ds2) = den_prog A U ds1 ++ den_prog A U ds2 /\
  bden_prog A U (ds1 ++ map (dlift (length ds1)) ds2) = bden_prog A U ds1 ++ bden_prog A U ds2.
Proof.
  unfold den_prog, bden_prog, den_all. rewrite den_all_aux_app.
  destruct (den_all_aux_length ds1 [] []) as [L1 L2]. cbn [length Nat.add] in L1, L2.
  set (v1 := fst (den_all_aux A U [] [] ds1)) in *. set (b1 := snd (den_all_aux A U [] [] ds1)) in *.
  assert (L : length b1 = length v1) by congruence.
  rewrite <- L1.
  pose proof (den_all_aux_frame ds2 v1 b1 [] [] L) as F. rewrite !app_nil_r in F. rewrite F.
  cbn [fst snd]. split; reflexivity.
Qed.

(* in particular the k-th value of the second program is the (length ds1 + k)-th of the combination *)
Corollary den_prog_frame_nth ds1 ds2 k d :
  nth (length ds1 + k) (den_prog A U (ds1 ++ map (dlift (length ds1)) ds2)) d = nth k (den_prog A U ds2) d.
Proof.
  destruct (den_prog_frame ds1 ds2) as [E _]. rewrite E.
  destruct (den_all_aux_length ds1 [] []) as [L1 _]. cbn [length Nat.add] in L1.
  unfold den_prog, den_all. rewrite <- L1. apply nth_skip.
Qed.

Corollary den_prog_frame_nth_first ds1 ds2 k d :
  k < length ds1 ->
  nth k (den_prog A U (ds1 ++ map (dlift (length ds1)) ds2)) d = nth k (den_prog A U ds1) d.
Proof.
  intros Hk. destruct (den_prog_frame ds1 ds2) as [E _]. rewrite E.
  destruct (den_all_aux_length ds1 [] []) as [L1 _]. cbn [length Nat.add] in L1.
  apply app_nth1. unfold den_prog, den_all. lia.
Qed.
End Frame.
