(* EmbedProofs.v -- independence on the specification side, general form (C12).
   A program P is EMBEDDED in a program ds along rho when the i-th declaration of P stands at position
   rho(i) of ds with its references renamed by rho, rho increasing, P well scoped.  Then every
   declaration of P has in ds exactly the value it has in P alone -- whatever else ds contains between
   and around P's declarations (order-preserving interleavings of independent programs in particular).
   For every value algebra, hence every valuation of the inputs. *)
From Coq Require Import ZArith List Bool Lia Arith.
From FV Require Import Base.Int32 Factorio.Circuit Valid.Hom Facto.Syntax Facto.Denote.
Import ListNotations.
Open Scope nat_scope.

Definition rn (rho : list nat) (i : nat) : nat := nth i rho 0.

Fixpoint rename (rho : list nat) (e : expr) : expr :=
  match e with
  | EInt z => EInt z
  | ELit t v => ELit t (rename rho v)
  | EVar i => EVar (rn rho i)
  | EBin o a b => EBin o (rename rho a) (rename rho b)
  | ECmp o a b => ECmp o (rename rho a) (rename rho b)
  | EAnd a b => EAnd (rename rho a) (rename rho b)
  | EOr a b => EOr (rename rho a) (rename rho b)
  | ENot a => ENot (rename rho a)
  | ENeg a => ENeg (rename rho a)
  | EProj a s => EProj (rename rho a) s
  | ECond c v => ECond (rename rho c) (rename rho v)
  | ESel b s => ESel (rn rho b) s
  | EAny o b c => EAny o (rn rho b) (rename rho c)
  | EAll o b c => EAll o (rn rho b) (rename rho c)
  end.

Fixpoint brename (rho : list nat) (b : bexpr) : bexpr :=
  match b with
  | BLit ms => BLit (map (fun se => (fst se, rename rho (snd se))) ms)
  | BRef i => BRef (rn rho i)
  | BMerge a b' => BMerge (brename rho a) (brename rho b')
  | BArith o b' x => BArith o (brename rho b') (rename rho x)
  | BFilter o b' x k => BFilter o (brename rho b') (rename rho x) k
  | BGate c b' => BGate (rename rho c) (brename rho b')
  end.

Definition drename (rho : list nat) (d : decl) : decl :=
  match d with
  | DIn t v => DIn t v
  | DSig e => DSig (rename rho e)
  | DInt e => DInt (rename rho e)
  | DBundle b => DBundle (brename rho b)
  | DSource c => DSource c
  end.

(* every reference is to a declaration before the n-th *)
Fixpoint scoped (n : nat) (e : expr) : Prop :=
  match e with
  | EInt _ => True
  | ELit _ v => scoped n v
  | EVar i => i < n
  | EBin _ a b | ECmp _ a b | EAnd a b | EOr a b => scoped n a /\ scoped n b
  | ENot a | ENeg a | EProj a _ => scoped n a
  | ECond c v => scoped n c /\ scoped n v
  | ESel b _ => b < n
  | EAny _ b c | EAll _ b c => b < n /\ scoped n c
  end.

Fixpoint bscoped (n : nat) (b : bexpr) : Prop :=
  match b with
  | BLit ms => Forall (fun se => scoped n (snd se)) ms
  | BRef i => i < n
  | BMerge a b' => bscoped n a /\ bscoped n b'
  | BArith _ b' x => bscoped n b' /\ scoped n x
  | BFilter _ b' x _ => bscoped n b' /\ scoped n x
  | BGate c b' => scoped n c /\ bscoped n b'
  end.

Definition dscoped (n : nat) (d : decl) : Prop :=
  match d with
  | DIn _ _ | DSource _ => True
  | DSig e | DInt e => scoped n e
  | DBundle b => bscoped n b
  end.

Section Embed.
Context {V : Type} (A : alg V).
Variable U : list sig.

(* an expression sees only the declarations it references *)
Lemma den_rename rho n valsC bvalsC valsP bvalsP e :
  scoped n e ->
  (forall j, j < n -> nth (rn rho j) valsC (a_const A 0) = nth j valsP (a_const A 0)) ->
  (forall j, j < n -> nth (rn rho j) bvalsC [] = nth j bvalsP []) ->
  den A U valsC bvalsC (rename rho e) = den A U valsP bvalsP e.
Proof.
  intros S Hv Hb. induction e; cbn [rename den scoped] in *;
    try (destruct S as [S1 S2]); try rewrite IHe by assumption;
    try rewrite IHe1 by assumption; try rewrite IHe2 by assumption; try reflexivity.
  - apply Hv, S.
  - rewrite Hb by exact S. reflexivity.
  - rewrite Hb by exact S1. reflexivity.
  - rewrite Hb by exact S1. reflexivity.
Qed.

Lemma bden_brename rho n valsC bvalsC valsP bvalsP b :
  bscoped n b ->
  (forall j, j < n -> nth (rn rho j) valsC (a_const A 0) = nth j valsP (a_const A 0)) ->
  (forall j, j < n -> nth (rn rho j) bvalsC [] = nth j bvalsP []) ->
  bden A U valsC bvalsC (brename rho b) = bden A U valsP bvalsP b.
Proof.
  intros S Hv Hb. induction b; cbn [brename bden bscoped] in *.
  - rewrite map_map. apply map_ext_in. intros [s e] I. cbn [fst snd].
    rewrite Forall_forall in S. rewrite (den_rename rho n valsC bvalsC valsP bvalsP e (S _ I) Hv Hb). reflexivity.
  - apply Hb, S.
  - destruct S as [S1 S2]. rewrite IHb1, IHb2 by assumption. reflexivity.
  - destruct S as [S1 S2]. rewrite IHb by assumption. rewrite (den_rename rho n valsC bvalsC valsP bvalsP x S2 Hv Hb). reflexivity.
  - destruct S as [S1 S2]. rewrite IHb by assumption. rewrite (den_rename rho n valsC bvalsC valsP bvalsP x S2 Hv Hb). reflexivity.
  - destruct S as [S1 S2]. rewrite IHb by assumption. rewrite (den_rename rho n valsC bvalsC valsP bvalsP c S1 Hv Hb). reflexivity.
Qed.

Lemma den_decl_drename rho n valsC bvalsC valsP bvalsP d :
  dscoped n d ->
  (forall j, j < n -> nth (rn rho j) valsC (a_const A 0) = nth j valsP (a_const A 0)) ->
  (forall j, j < n -> nth (rn rho j) bvalsC [] = nth j bvalsP []) ->
  den_decl A U valsC bvalsC (drename rho d) = den_decl A U valsP bvalsP d.
Proof.
  intros S Hv Hb. destruct d; cbn [drename den_decl dscoped] in *; try reflexivity.
  - rewrite (den_rename rho n valsC bvalsC valsP bvalsP e S Hv Hb). reflexivity.
  - rewrite (den_rename rho n valsC bvalsC valsP bvalsP e S Hv Hb). reflexivity.
  - rewrite (bden_brename rho n valsC bvalsC valsP bvalsP b S Hv Hb). reflexivity.
Qed.

(* ---- the value of the k-th declaration is computed from the values of the first k *)
Lemma den_all_aux_prefix ds : forall vals bvals,
  exists tv tb, den_all_aux A U vals bvals ds = (vals ++ tv, bvals ++ tb) /\ length tv = length ds /\ length tb = length ds.
Proof.
  induction ds as [|d ds IH]; intros vals bvals; cbn [den_all_aux].
  - exists [], []. rewrite !app_nil_r. auto.
  - destruct (den_decl A U vals bvals d) as [v m].
    destruct (IH (vals ++ [v]) (bvals ++ [m])) as (tv & tb & E & L1 & L2).
    exists (v :: tv), (m :: tb). rewrite E, <- !app_assoc. cbn [app length]. auto.
Qed.

Lemma den_all_aux_app' ds1 : forall ds2 vals bvals,
  den_all_aux A U vals bvals (ds1 ++ ds2)
  = den_all_aux A U (fst (den_all_aux A U vals bvals ds1)) (snd (den_all_aux A U vals bvals ds1)) ds2.
Proof.
  induction ds1 as [|d ds1 IH]; intros ds2 vals bvals; cbn [app den_all_aux fst snd]; [reflexivity|].
  destruct (den_decl A U vals bvals d) as [v m]. apply IH.
Qed.

Lemma den_prog_step ds k d :
  nth_error ds k = Some d ->
  let vals := den_prog A U ds in let bvals := bden_prog A U ds in
  length vals = length ds /\ length bvals = length ds /\
  (nth k vals (a_const A 0), nth k bvals []) = den_decl A U (firstn k vals) (firstn k bvals) d.
Proof.
  intros E. cbv zeta. unfold den_prog, bden_prog, den_all.
  destruct (den_all_aux_prefix ds [] []) as (tv & tb & Eall & L1 & L2). cbn [app] in Eall.
  rewrite Eall. cbn [fst snd]. split; [exact L1|]. split; [exact L2|].
  (* split ds at k *)
  apply nth_error_split in E as (l1 & l2 & -> & Lk).
  rewrite den_all_aux_app' in Eall.
  destruct (den_all_aux_prefix l1 [] []) as (tv1 & tb1 & E1 & La & Lb). cbn [app] in E1.
  rewrite E1 in Eall. cbn [fst snd den_all_aux] in Eall.
  destruct (den_decl A U tv1 tb1 d) as [v m] eqn:Ed.
  destruct (den_all_aux_prefix l2 (tv1 ++ [v]) (tb1 ++ [m])) as (tv2 & tb2 & E2 & _ & _).
  rewrite E2 in Eall. inversion Eall. subst tv tb.
  assert (Kv : k = length tv1) by congruence. assert (Kb : k = length tb1) by congruence.
  assert (N1 : nth k ((tv1 ++ [v]) ++ tv2) (a_const A 0) = v).
  { rewrite Kv, <- app_assoc. cbn [app]. apply nth_middle. }
  assert (N2 : nth k ((tb1 ++ [m]) ++ tb2) [] = m).
  { rewrite Kb, <- app_assoc. cbn [app]. apply nth_middle. }
  assert (F1 : firstn k ((tv1 ++ [v]) ++ tv2) = tv1).
  { rewrite Kv, <- app_assoc, firstn_app, Nat.sub_diag, firstn_all. cbn [firstn]. apply app_nil_r. }
  assert (F2 : firstn k ((tb1 ++ [m]) ++ tb2) = tb1).
  { rewrite Kb, <- app_assoc, firstn_app, Nat.sub_diag, firstn_all. cbn [firstn]. apply app_nil_r. }
  rewrite N1, N2, F1, F2. symmetry. exact Ed.
Qed.

(* ---- the embedding theorem *)
Record embedded (P ds : list decl) (rho : list nat) : Prop := {
  em_len : length rho = length P;
  em_mono : forall i j, i < j -> j < length P -> rn rho i < rn rho j;
  em_at : forall i d, nth_error P i = Some d -> nth_error ds (rn rho i) = Some (drename rho d);
  em_scoped : forall i d, nth_error P i = Some d -> dscoped i d
}.

Lemma nth_firstn {T} (l : list T) k j d : j < k -> nth j (firstn k l) d = nth j l d.
Proof.
  revert l j. induction k as [|k IH]; intros l j H; [lia|].
  destruct l as [|x l]; cbn [firstn nth]; [destruct j; reflexivity|].
  destruct j as [|j]; [reflexivity|]. apply IH. lia.
Qed.

Theorem embedded_values P ds rho :
  embedded P ds rho ->
  forall i, i < length P ->
    nth (rn rho i) (den_prog A U ds) (a_const A 0) = nth i (den_prog A U P) (a_const A 0) /\
    nth (rn rho i) (bden_prog A U ds) [] = nth i (bden_prog A U P) [].
Proof.
  intros [Hl Hm Ha Hs]. induction i as [i IH] using lt_wf_ind. intros Hi.
  destruct (nth_error P i) as [d|] eqn:Ed; [|apply nth_error_None in Ed; lia].
  pose proof (den_prog_step P i d Ed) as SP. cbv zeta in SP. destruct SP as (_ & _ & SP).
  pose proof (den_prog_step ds (rn rho i) (drename rho d) (Ha i d Ed)) as SC. cbv zeta in SC.
  destruct SC as (_ & _ & SC).
  assert (K : den_decl A U (firstn (rn rho i) (den_prog A U ds)) (firstn (rn rho i) (bden_prog A U ds)) (drename rho d)
              = den_decl A U (firstn i (den_prog A U P)) (firstn i (bden_prog A U P)) d).
  { apply (den_decl_drename rho i); [exact (Hs i d Ed)| |].
    - intros j Hj. rewrite !nth_firstn by (try apply Hm; lia). apply (IH j Hj). lia.
    - intros j Hj. rewrite !nth_firstn by (try apply Hm; lia). apply (IH j Hj). lia. }
  rewrite K in SC. rewrite <- SP in SC. inversion SC. split; reflexivity.
Qed.
End Embed.

(* ------------------------------------------------------------ a checker for embeddings
   run (by vm_compute, inside the kernel-checked case) on the program the compiler is given and each of
   its independent parts *)
Lemma aop_eq_dec' : forall a b : aop, {a = b} + {a <> b}.  Proof. decide equality. Defined.
Lemma cop_eq_dec' : forall a b : cop, {a = b} + {a <> b}.  Proof. decide equality. Defined.
Lemma osig_eq_dec : forall a b : option sig, {a = b} + {a <> b}.
Proof. decide equality. apply Pos.eq_dec. Defined.
Lemma expr_eq_dec : forall a b : expr, {a = b} + {a <> b}.
Proof.
  decide equality; try apply Z.eq_dec; try apply Nat.eq_dec; try apply Pos.eq_dec;
    try apply aop_eq_dec'; try apply cop_eq_dec'; apply osig_eq_dec.
Defined.
Definition expr_eqb (a b : expr) : bool := if expr_eq_dec a b then true else false.
Lemma expr_eqb_eq a b : expr_eqb a b = true -> a = b.
Proof. unfold expr_eqb. destruct (expr_eq_dec a b); [auto | discriminate]. Qed.

Fixpoint members_eqb (l1 l2 : list (sig * expr)) : bool :=
  match l1, l2 with
  | [], [] => true
  | (s1, e1) :: r1, (s2, e2) :: r2 => Pos.eqb s1 s2 && expr_eqb e1 e2 && members_eqb r1 r2
  | _, _ => false
  end.
Lemma members_eqb_eq l1 : forall l2, members_eqb l1 l2 = true -> l1 = l2.
Proof.
  induction l1 as [|[s1 e1] r1 IH]; intros [|[s2 e2] r2]; cbn; try discriminate; [reflexivity|].
  intros H. apply andb_true_iff in H as [H H3]. apply andb_true_iff in H as [H1 H2].
  apply Pos.eqb_eq in H1. apply expr_eqb_eq in H2. rewrite (IH _ H3). congruence.
Qed.

Definition oz_eqb (a b : option Z) : bool :=
  match a, b with None, None => true | Some x, Some y => Z.eqb x y | _, _ => false end.
Lemma oz_eqb_eq a b : oz_eqb a b = true -> a = b.
Proof. destruct a, b; cbn; try discriminate; [intros H; apply Z.eqb_eq in H; congruence | reflexivity]. Qed.

Fixpoint bexpr_eqb (a b : bexpr) : bool :=
  match a, b with
  | BLit m1, BLit m2 => members_eqb m1 m2
  | BRef i, BRef j => Nat.eqb i j
  | BMerge a1 a2, BMerge b1 b2 => bexpr_eqb a1 b1 && bexpr_eqb a2 b2
  | BArith o1 a1 x1, BArith o2 b1 x2 => (if aop_eq_dec' o1 o2 then true else false) && bexpr_eqb a1 b1 && expr_eqb x1 x2
  | BFilter o1 a1 x1 k1, BFilter o2 b1 x2 k2 =>
      (if cop_eq_dec' o1 o2 then true else false) && bexpr_eqb a1 b1 && expr_eqb x1 x2 && oz_eqb k1 k2
  | BGate c1 a1, BGate c2 b1 => expr_eqb c1 c2 && bexpr_eqb a1 b1
  | _, _ => false
  end.
Lemma bexpr_eqb_eq a : forall b, bexpr_eqb a b = true -> a = b.
Proof.
  induction a; intros [] H; cbn [bexpr_eqb] in H; try discriminate.
  - apply members_eqb_eq in H. congruence.
  - apply Nat.eqb_eq in H. congruence.
  - apply andb_true_iff in H as [H1 H2]. rewrite (IHa1 _ H1), (IHa2 _ H2). reflexivity.
  - apply andb_true_iff in H as [H H3]. apply andb_true_iff in H as [H1 H2].
    destruct (aop_eq_dec' o o0); [|discriminate]. apply expr_eqb_eq in H3. rewrite (IHa _ H2). congruence.
  - apply andb_true_iff in H as [H H4]. apply andb_true_iff in H as [H H3]. apply andb_true_iff in H as [H1 H2].
    destruct (cop_eq_dec' o o0); [|discriminate]. apply expr_eqb_eq in H3. apply oz_eqb_eq in H4.
    rewrite (IHa _ H2). congruence.
  - apply andb_true_iff in H as [H1 H2]. apply expr_eqb_eq in H1. rewrite (IHa _ H2). congruence.
Qed.

Fixpoint content_eqb (l1 l2 : list (sig * var)) : bool :=
  match l1, l2 with
  | [], [] => true
  | (s1, v1) :: r1, (s2, v2) :: r2 => Pos.eqb s1 s2 && Pos.eqb v1 v2 && content_eqb r1 r2
  | _, _ => false
  end.
Lemma content_eqb_eq l1 : forall l2, content_eqb l1 l2 = true -> l1 = l2.
Proof.
  induction l1 as [|[s1 v1] r1 IH]; intros [|[s2 v2] r2]; cbn; try discriminate; [reflexivity|].
  intros H. apply andb_true_iff in H as [H H3]. apply andb_true_iff in H as [H1 H2].
  apply Pos.eqb_eq in H1, H2. rewrite (IH _ H3). congruence.
Qed.

Definition decl_eqb (a b : decl) : bool :=
  match a, b with
  | DIn t1 v1, DIn t2 v2 => (if osig_eq_dec t1 t2 then true else false) && Pos.eqb v1 v2
  | DSig e1, DSig e2 => expr_eqb e1 e2
  | DInt e1, DInt e2 => expr_eqb e1 e2
  | DBundle b1, DBundle b2 => bexpr_eqb b1 b2
  | DSource c1, DSource c2 => content_eqb c1 c2
  | _, _ => false
  end.
Lemma decl_eqb_eq a b : decl_eqb a b = true -> a = b.
Proof.
  destruct a, b; cbn [decl_eqb]; intros H; try discriminate.
  - apply andb_true_iff in H as [H1 H2]. destruct (osig_eq_dec ty ty0); [|discriminate]. apply Pos.eqb_eq in H2. congruence.
  - apply expr_eqb_eq in H. congruence.
  - apply expr_eqb_eq in H. congruence.
  - apply bexpr_eqb_eq in H. congruence.
  - apply content_eqb_eq in H. congruence.
Qed.

(* boolean scoping *)
Fixpoint scopedb (n : nat) (e : expr) : bool :=
  match e with
  | EInt _ => true
  | ELit _ v => scopedb n v
  | EVar i => Nat.ltb i n
  | EBin _ a b | ECmp _ a b | EAnd a b | EOr a b => scopedb n a && scopedb n b
  | ENot a | ENeg a | EProj a _ => scopedb n a
  | ECond c v => scopedb n c && scopedb n v
  | ESel b _ => Nat.ltb b n
  | EAny _ b c | EAll _ b c => Nat.ltb b n && scopedb n c
  end.
Lemma scopedb_sound n e : scopedb n e = true -> scoped n e.
Proof.
  induction e; cbn [scopedb scoped]; intros H; auto;
    try (apply andb_true_iff in H as [H1 H2]; split; auto);
    try (apply Nat.ltb_lt; assumption).
Qed.

Fixpoint bscopedb (n : nat) (b : bexpr) : bool :=
  match b with
  | BLit ms => forallb (fun se => scopedb n (snd se)) ms
  | BRef i => Nat.ltb i n
  | BMerge a b' => bscopedb n a && bscopedb n b'
  | BArith _ b' x => bscopedb n b' && scopedb n x
  | BFilter _ b' x _ => bscopedb n b' && scopedb n x
  | BGate c b' => scopedb n c && bscopedb n b'
  end.
Lemma bscopedb_sound n b : bscopedb n b = true -> bscoped n b.
Proof.
  induction b; cbn [bscopedb bscoped]; intros H.
  - rewrite forallb_forall in H. apply Forall_forall. intros x I. apply scopedb_sound, H, I.
  - apply Nat.ltb_lt, H.
  - apply andb_true_iff in H as [H1 H2]. auto.
  - apply andb_true_iff in H as [H1 H2]. split; [auto | apply scopedb_sound, H2].
  - apply andb_true_iff in H as [H1 H2]. split; [auto | apply scopedb_sound, H2].
  - apply andb_true_iff in H as [H1 H2]. split; [apply scopedb_sound, H1 | auto].
Qed.

Definition dscopedb (n : nat) (d : decl) : bool :=
  match d with
  | DIn _ _ | DSource _ => true
  | DSig e | DInt e => scopedb n e
  | DBundle b => bscopedb n b
  end.
Lemma dscopedb_sound n d : dscopedb n d = true -> dscoped n d.
Proof. destruct d; cbn; intros H; auto; [apply scopedb_sound | apply scopedb_sound | apply bscopedb_sound]; exact H. Qed.

Fixpoint increasing (l : list nat) : bool :=
  match l with
  | a :: ((b :: _) as r) => Nat.ltb a b && increasing r
  | _ => true
  end.

Lemma increasing_nth l : increasing l = true -> forall i j, i < j -> j < length l -> nth i l 0 < nth j l 0.
Proof.
  induction l as [|a r IH]; intros H i j Hij Hj; [cbn in Hj; lia|].
  destruct r as [|b r'].
  - cbn in Hj. lia.
  - cbn [increasing] in H. apply andb_true_iff in H as [H1 H2]. apply Nat.ltb_lt in H1.
    destruct j as [|j]; [lia|]. destruct i as [|i].
    + cbn [nth]. destruct j as [|j]; [exact H1|].
      specialize (IH H2 0 (S j) ltac:(lia) ltac:(cbn [length] in *; lia)). cbn [nth] in IH. cbn [nth]. lia.
    + cbn [nth]. apply (IH H2 i j); [lia | cbn [length] in *; lia].
Qed.

Fixpoint embeds_from (i : nat) (P ds : list decl) (rho : list nat) : bool :=
  match P with
  | [] => true
  | d :: P' =>
      dscopedb i d &&
      (match nth_error ds (rn rho i) with Some d' => decl_eqb d' (drename rho d) | None => false end) &&
      embeds_from (S i) P' ds rho
  end.

Definition embeds (P ds : list decl) (rho : list nat) : bool :=
  Nat.eqb (length rho) (length P) && increasing rho && embeds_from 0 P ds rho.

Lemma embeds_from_sound P : forall i0 ds rho, embeds_from i0 P ds rho = true ->
  forall i d, nth_error P i = Some d ->
    dscoped (i0 + i) d /\ nth_error ds (rn rho (i0 + i)) = Some (drename rho d).
Proof.
  induction P as [|d0 P IH]; intros i0 ds rho H i d E; [destruct i; discriminate|].
  cbn [embeds_from] in H. apply andb_true_iff in H as [H H3]. apply andb_true_iff in H as [H1 H2].
  destruct i as [|i]; cbn [nth_error] in E.
  - inversion E. subst d0. rewrite Nat.add_0_r. split; [apply dscopedb_sound, H1|].
    destruct (nth_error ds (rn rho i0)) as [d'|]; [|discriminate]. apply decl_eqb_eq in H2. congruence.
  - replace (i0 + S i) with (S i0 + i) by lia. apply (IH (S i0) ds rho H3 i d E).
Qed.

Theorem embeds_sound P ds rho : embeds P ds rho = true -> embedded P ds rho.
Proof.
  unfold embeds. intros H. apply andb_true_iff in H as [H H3]. apply andb_true_iff in H as [H1 H2].
  apply Nat.eqb_eq in H1. constructor.
  - exact H1.
  - intros i j Hij Hj. unfold rn. apply increasing_nth; [exact H2 | exact Hij | lia].
  - intros i d E. exact (proj2 (embeds_from_sound P 0 ds rho H3 i d E)).
  - intros i d E. exact (proj1 (embeds_from_sound P 0 ds rho H3 i d E)).
Qed.
