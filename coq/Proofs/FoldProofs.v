(* FoldProofs.v -- the regenerated constant folders (Gen/Fold.v) against the
   specification of run-time combinator arithmetic (Base/Int32.v).           C11, C10 *)
From Coq Require Import ZArith String List Bool Lia.
From FV Require Import Base.Int32 Gen.Fold.
Open Scope string_scope.
Open Scope Z_scope.

(* operator spelling in the source language (AST level) *)
Definition ast_name (o : aop) : string :=
  match o with
  | Add => "+" | Sub => "-" | Mul => "*" | Div => "/" | Mod => "%" | Pow => "**"
  | Shl => "<<" | Shr => ">>" | And => "AND" | Or => "OR" | Xor => "XOR"
  end.
(* operator spelling at IR level (Factorio's own names) *)
Definition ir_name (o : aop) : string :=
  match o with Pow => "^" | _ => ast_name o end.
Definition cmp_name (o : cop) : string :=
  match o with CLt => "<" | CGt => ">" | CEq => "==" | CGe => ">=" | CLe => "<=" | CNe => "!=" end.

(* the sub-domain on which the folders are expected to agree with the run-time
   semantics: quotient/remainder with operands of the "easy" signs; shift and
   exponent in the specified range.  Everything outside is covered by the
   ..._refuted theorems below (known findings). *)
Definition fold_dom (o : aop) (a b : Z) : Prop :=
  match o with
  | Div | Mod => b = 0 \/ (0 <= a /\ 0 < b)
  | Pow => 0 <= b
  | Shl | Shr => shift_ok b
  | _ => True
  end.

Lemma land_ones32 x : Z.land x 4294967295 = x mod two32.
Proof. change 4294967295 with (Z.ones 32). rewrite Z.land_ones by lia. reflexivity. Qed.

Lemma wrap32_of_mod x : wrap32 (x mod two32) = wrap32 x.
Proof. apply wrap32_congr. unfold two32. rewrite Z.mod_mod by lia. reflexivity. Qed.

(* Whenever the folded value fits into a blueprint constant (int32) it is exactly the
   value the combinator would compute at run time. *)
Theorem ast_fold_arith_sound o a b v :
  fold_dom o a b -> ast_fold (ast_name o) a b = Some v -> in32 v -> v = arith o a b.
Proof.
  intros D H R. destruct o; cbn in H; cbn [arith].
  - inversion H; subst. symmetry. apply wrap32_small, R.
  - inversion H; subst. symmetry. apply wrap32_small, R.
  - inversion H; subst. symmetry. apply wrap32_small, R.
  - cbn in D. destruct (b =? 0) eqn:E.
    + inversion H; reflexivity.
    + inversion H; subst. apply Z.eqb_neq in E.
      destruct D as [D | [D1 D2]]; [lia|].
      rewrite Z.quot_div_nonneg by lia. symmetry. apply wrap32_small, R.
  - cbn in D. destruct (b =? 0) eqn:E.
    + inversion H; reflexivity.
    + inversion H; subst. apply Z.eqb_neq in E.
      destruct D as [D | [D1 D2]]; [lia|].
      rewrite Z.rem_mod_nonneg by lia. symmetry. apply wrap32_small, R.
  - cbn in D. destruct (b <? 0) eqn:E; [apply Z.ltb_lt in E; lia|].
    inversion H; subst. unfold pow32. symmetry. apply wrap32_small, R.
  - cbn in D. unfold shift_ok in D.
    destruct (b <? 0) eqn:E1; [apply Z.ltb_lt in E1; lia|].
    destruct (b >=? 32) eqn:E2; [rewrite Z.geb_leb in E2; apply Z.leb_le in E2; lia|].
    cbn in H. inversion H; subst. rewrite land_ones32 in *.
    rewrite <- (wrap32_small _ R) at 1. apply wrap32_of_mod.
  - cbn in D. unfold shift_ok in D.
    destruct (b <? 0) eqn:E1; [apply Z.ltb_lt in E1; lia|].
    destruct (b >=? 32) eqn:E2; [rewrite Z.geb_leb in E2; apply Z.leb_le in E2; lia|].
    cbn in H. inversion H; subst. symmetry. apply wrap32_small, R.
  - inversion H; subst. symmetry. apply wrap32_small, R.
  - inversion H; subst. symmetry. apply wrap32_small, R.
  - inversion H; subst. symmetry. apply wrap32_small, R.
Qed.

(* the folder is total on the arithmetic operators (never declines) *)
Theorem ast_fold_arith_total o a b : exists v, ast_fold (ast_name o) a b = Some v.
Proof.
  destruct o; cbn; try (eexists; reflexivity).
  - destruct (b =? 0); eexists; reflexivity.
  - destruct (b =? 0); eexists; reflexivity.
  - destruct (b <? 0); eexists; reflexivity.
  - destruct (orb (b <? 0) (b >=? 32)); eexists; reflexivity.
  - destruct (orb (b <? 0) (b >=? 32)); eexists; reflexivity.
Qed.

Theorem ast_fold_cmp_sound o a b :
  ast_fold (cmp_name o) a b = Some (b2z (cmp o a b)).
Proof. destruct o; cbn; reflexivity. Qed.

Theorem ast_fold_land a b :
  ast_fold "&&" a b = Some (b2z (nz a && nz b)).
Proof. reflexivity. Qed.
Theorem ast_fold_lor a b :
  ast_fold "||" a b = Some (b2z (nz a || nz b)).
Proof. reflexivity. Qed.

(* ---- IR-level folder (ConstantPropagationOptimizer._fold_arithmetic) *)
Theorem ir_fold_arith_sound o a b v :
  fold_dom o a b -> ir_fold_arith (ir_name o) a b = Some v -> in32 v -> v = arith o a b.
Proof.
  intros D H R. destruct o; cbn in H; cbn [arith].
  - inversion H; subst. symmetry. apply wrap32_small, R.
  - inversion H; subst. symmetry. apply wrap32_small, R.
  - inversion H; subst. symmetry. apply wrap32_small, R.
  - cbn in D. destruct (b =? 0) eqn:E; cbn in H; [discriminate|].
    inversion H; subst. apply Z.eqb_neq in E.
    destruct D as [D | [D1 D2]]; [lia|].
    rewrite Z.quot_div_nonneg by lia. symmetry. apply wrap32_small, R.
  - cbn in D. destruct (b =? 0) eqn:E; cbn in H; [discriminate|].
    inversion H; subst. apply Z.eqb_neq in E.
    destruct D as [D | [D1 D2]]; [lia|].
    rewrite Z.rem_mod_nonneg by lia. symmetry. apply wrap32_small, R.
  - cbn in D.
    destruct (orb (Z.abs a >? 1000) (Z.abs b >? 100)); [discriminate|].
    destruct (b <? 0) eqn:E; [apply Z.ltb_lt in E; lia|].
    inversion H; subst. unfold pow32. symmetry. apply wrap32_small, R.
  - cbn in D. unfold shift_ok in D.
    destruct (b <? 0) eqn:E1; [apply Z.ltb_lt in E1; lia|].
    destruct (b >=? 32) eqn:E2; [rewrite Z.geb_leb in E2; apply Z.leb_le in E2; lia|].
    cbn in H. inversion H; subst. rewrite land_ones32 in *.
    rewrite <- (wrap32_small _ R) at 1. apply wrap32_of_mod.
  - cbn in D. unfold shift_ok in D.
    destruct (b <? 0) eqn:E1; [apply Z.ltb_lt in E1; lia|].
    destruct (b >=? 32) eqn:E2; [rewrite Z.geb_leb in E2; apply Z.leb_le in E2; lia|].
    cbn in H. inversion H; subst. symmetry. apply wrap32_small, R.
  - inversion H; subst. symmetry. apply wrap32_small, R.
  - inversion H; subst. symmetry. apply wrap32_small, R.
  - inversion H; subst. symmetry. apply wrap32_small, R.
Qed.

(* the IR folder keeps a division by zero for run time (declines) *)
Theorem ir_fold_div_zero_declines a : ir_fold_arith "/" a 0 = None /\ ir_fold_arith "%" a 0 = None.
Proof. split; reflexivity. Qed.

Definition ir_cmp_name (o : cop) : string :=
  match o with CLt => "<" | CGt => ">" | CEq => "==" | CGe => ">=" | CLe => "<=" | CNe => "!=" end.
Definition ir_cmp_name2 (o : cop) : string :=
  match o with CEq => "=" | CNe => "≠" | _ => ir_cmp_name o end.

Theorem ir_fold_cmp_sound o a b :
  ir_fold_cmp (ir_cmp_name o) a b = Some (cmp o a b) /\
  ir_fold_cmp (ir_cmp_name2 o) a b = Some (cmp o a b).
Proof. destruct o; cbn; split; try reflexivity; rewrite ?Z.geb_leb, ?Z.gtb_ltb; reflexivity. Qed.

(* ---- where the faithful model of the folders contradicts the property (S2).
   Each witness is replayed against the real compiler by the C11 check. *)
Theorem ast_fold_div_negative_refuted :
  exists a b v, in32 a /\ in32 b /\ ast_fold "/" a b = Some v /\ in32 v /\ v <> arith Div a b.
Proof. exists (-7), 2, (-4). unfold in32, two31. cbn. repeat split; try lia; discriminate. Qed.

Theorem ast_fold_mod_negative_refuted :
  exists a b v, in32 a /\ in32 b /\ ast_fold "%" a b = Some v /\ in32 v /\ v <> arith Mod a b.
Proof. exists (-7), 3, 2. unfold in32, two31. cbn. repeat split; try lia; discriminate. Qed.

(* overflowing results are not wrapped: the folded value does not fit a blueprint constant *)
Theorem ast_fold_overflow_refuted :
  (exists a b v, in32 a /\ in32 b /\ ast_fold "*" a b = Some v /\ ~ in32 v) /\
  (exists a b v, in32 a /\ in32 b /\ ast_fold "+" a b = Some v /\ ~ in32 v) /\
  (exists a b v, in32 a /\ in32 b /\ shift_ok b /\ ast_fold "<<" a b = Some v /\ ~ in32 v) /\
  (exists a b v, in32 a /\ in32 b /\ 0 <= b /\ ast_fold "**" a b = Some v /\ ~ in32 v).
Proof.
  unfold in32, shift_ok, two31. repeat split.
  - exists 65536, 65536, 4294967296. cbn. repeat split; try lia.
  - exists 2147483647, 1, 2147483648. cbn. repeat split; try lia.
  - exists 1, 31, 2147483648. cbn. repeat split; try lia.
  - exists 2, 31, 2147483648. cbn. repeat split; try lia.
Qed.

Theorem ir_fold_div_negative_refuted :
  exists a b v, in32 a /\ in32 b /\ ir_fold_arith "/" a b = Some v /\ in32 v /\ v <> arith Div a b.
Proof. exists (-7), 2, (-4). unfold in32, two31. cbn. repeat split; try lia; discriminate. Qed.
