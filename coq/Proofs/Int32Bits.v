(* Int32Bits.v -- bit-level facts about the int32 range of Base/Int32.v: a Z is in
   [-2^31, 2^31) exactly when its binary digits from position 31 on repeat the sign bit, hence
   the range is closed under AND / OR / XOR / NOT and arithmetic right shifts. *)
From Coq Require Import ZArith List Bool Lia ZifyBool.
From FV Require Import Base.Int32.
Open Scope Z_scope.

Lemma in32_bits z : in32 z -> forall i, 31 <= i -> Z.testbit z i = (z <? 0).
Proof.
  unfold in32, two31. intros H i Hi.
  destruct (Z.ltb_spec z 0) as [Hn|Hp].
  - apply Z.bits_above_log2_neg; [assumption|].
    destruct (Z.eq_dec (Z.pred (- z)) 0) as [E|E].
    + rewrite E. simpl. lia.
    + assert (Z.log2 (Z.pred (- z)) < 31); [|lia].
      apply Z.log2_lt_pow2; [lia|]. change (2 ^ 31) with 2147483648. lia.
  - destruct (Z.eq_dec z 0) as [E|E].
    + subst. apply Z.bits_0.
    + apply Z.bits_above_log2; [assumption|].
      assert (Z.log2 z < 31); [|lia].
      apply Z.log2_lt_pow2; [lia|]. change (2 ^ 31) with 2147483648. lia.
Qed.

Lemma bits_in32 z : (forall i, 31 <= i -> Z.testbit z i = Z.testbit z 31) -> in32 z.
Proof.
  intros H. unfold in32, two31.
  destruct (Z.lt_ge_cases z 0) as [Hn|Hp].
  - split; [|lia].
    destruct (Z.le_gt_cases (-2147483648) z) as [|Hlt]; [assumption|exfalso].
    set (y := Z.pred (- z)).
    assert (Hy : 2147483648 <= y) by (unfold y; lia).
    assert (Hz : z = Z.lnot y) by (unfold y, Z.lnot; lia).
    assert (Hl : 31 <= Z.log2 y).
    { change 31 with (Z.log2 (2^31)). apply Z.log2_le_mono. change (2^31) with 2147483648. lia. }
    assert (T1 : Z.testbit z (Z.log2 y) = false).
    { rewrite Hz, Z.lnot_spec by lia. rewrite Z.bit_log2 by lia. reflexivity. }
    assert (T2 : Z.testbit z (Z.succ (Z.log2 y)) = true).
    { apply Z.bits_above_log2_neg; [assumption|]. fold y. lia. }
    rewrite H in T1 by lia. rewrite H in T2 by lia. congruence.
  - split; [lia|].
    destruct (Z.lt_ge_cases z 2147483648) as [|Hge]; [assumption|exfalso].
    assert (Hl : 31 <= Z.log2 z).
    { change 31 with (Z.log2 (2^31)). apply Z.log2_le_mono. change (2^31) with 2147483648. lia. }
    assert (T1 : Z.testbit z (Z.log2 z) = true) by (apply Z.bit_log2; lia).
    assert (T2 : Z.testbit z (Z.succ (Z.log2 z)) = false) by (apply Z.bits_above_log2; lia).
    rewrite H in T1 by lia. rewrite H in T2 by lia. congruence.
Qed.

Lemma in32_sext z : in32 z -> forall i, 31 <= i -> Z.testbit z i = Z.testbit z 31.
Proof. intros H i Hi. rewrite (in32_bits z H i Hi), (in32_bits z H 31); [reflexivity|lia]. Qed.

Lemma in32_land a b : in32 a -> in32 b -> in32 (Z.land a b).
Proof. intros Ha Hb. apply bits_in32. intros i Hi. rewrite !Z.land_spec, (in32_sext a Ha i Hi), (in32_sext b Hb i Hi). reflexivity. Qed.
Lemma in32_lor a b : in32 a -> in32 b -> in32 (Z.lor a b).
Proof. intros Ha Hb. apply bits_in32. intros i Hi. rewrite !Z.lor_spec, (in32_sext a Ha i Hi), (in32_sext b Hb i Hi). reflexivity. Qed.
Lemma in32_lxor a b : in32 a -> in32 b -> in32 (Z.lxor a b).
Proof. intros Ha Hb. apply bits_in32. intros i Hi. rewrite !Z.lxor_spec, (in32_sext a Ha i Hi), (in32_sext b Hb i Hi). reflexivity. Qed.
Lemma in32_shiftr a n : in32 a -> 0 <= n -> in32 (Z.shiftr a n).
Proof.
  intros Ha Hn. apply bits_in32. intros i Hi. rewrite !Z.shiftr_spec by lia.
  rewrite (in32_bits a Ha (i + n)), (in32_bits a Ha (31 + n)) by lia. reflexivity.
Qed.
Lemma in32_pow2 p : 0 <= p <= 30 -> in32 (Z.shiftl 1 p).
Proof.
  intros Hp. rewrite Z.shiftl_1_l. unfold in32, two31.
  assert (0 < 2 ^ p) by (apply Z.pow_pos_nonneg; lia).
  assert (2 ^ p <= 2 ^ 30) by (apply Z.pow_le_mono_r; lia).
  change (2 ^ 30) with 1073741824 in *. lia.
Qed.
Lemma in32_lnot a : in32 a -> in32 (Z.lnot a).
Proof. unfold in32, two31, Z.lnot. lia. Qed.
