(* GeometryProofs.v -- the boolean validators of Factorio/Geometry.v decide / imply the
   Prop-level statements.  No axioms. *)
From Coq Require Import ZArith List Bool PArith Lia.
From FV Require Import Factorio.Geometry.
Import ListNotations.
Open Scope Z_scope.

(* ------------------------------------------------------------------ lists *)
Section Lists.
  Context {A : Type} (eqb : A -> A -> bool).
  Hypothesis eqb_spec : forall x y, eqb x y = true <-> x = y.

  Lemma existsb_eqb_In x l : existsb (eqb x) l = true <-> In x l.
  Proof.
    rewrite existsb_exists. split.
    - intros [y [Hy E]]. apply eqb_spec in E. subst. exact Hy.
    - intros H. exists x. split; [exact H | apply eqb_spec; reflexivity].
  Qed.

  Lemma nodupb_iff l : nodupb eqb l = true <-> NoDup l.
  Proof.
    induction l as [|x t IH]; simpl.
    - split; [constructor | reflexivity].
    - rewrite andb_true_iff, negb_true_iff, IH. split.
      + intros [H1 H2]. constructor; [|exact H2]. intro Hin.
        apply existsb_eqb_In in Hin. congruence.
      + intros H. inversion H as [|? ? Hn Hd]; subst. split; [|exact Hd].
        destruct (existsb (eqb x) t) eqn:E; [|reflexivity].
        apply existsb_eqb_In in E. contradiction.
  Qed.
End Lists.

Lemma all_pairs_iff {A} (r : A -> A -> bool) l :
  all_pairs r l = true <-> ForallOrdPairs (fun a b => r a b = true) l.
Proof.
  induction l as [|x t IH]; simpl.
  - split; [constructor | reflexivity].
  - rewrite andb_true_iff, forallb_forall, IH. split.
    + intros [H1 H2]. constructor; [apply Forall_forall; exact H1 | exact H2].
    + intros H. inversion H as [|? ? Hf Hp]; subst. split; [apply Forall_forall; exact Hf | exact Hp].
Qed.

Lemma NoDup_map_inj {A B} (f : A -> B) l a b :
  NoDup (map f l) -> In a l -> In b l -> f a = f b -> a = b.
Proof.
  induction l as [|x t IH]; simpl; [tauto|].
  intros Hnd Ha Hb E. inversion Hnd as [|? ? Hn Hd]; subst.
  destruct Ha as [Ha|Ha], Hb as [Hb|Hb]; subst.
  - reflexivity.
  - exfalso. apply Hn. rewrite E. apply in_map. exact Hb.
  - exfalso. apply Hn. rewrite <- E. apply in_map. exact Ha.
  - apply IH; assumption.
Qed.

(* ------------------------------------------------------------------ atoms *)
Lemma disjointb_iff a b : boxes_disjointb a b = true <-> boxes_disjoint a b.
Proof.
  unfold boxes_disjointb, boxes_disjoint. rewrite !orb_true_iff, !Z.leb_le. tauto.
Qed.

Lemma boxes_disjoint_sym a b : boxes_disjoint a b -> boxes_disjoint b a.
Proof. unfold boxes_disjoint. tauto. Qed.

Lemma has_connectorb_iff e c : has_connectorb e c = true <-> has_connector e c.
Proof.
  unfold has_connectorb, has_connector. destruct (e_class e);
    rewrite ?andb_true_iff, ?orb_true_iff, ?Z.leb_le, ?Z.eqb_eq; tauto.
Qed.

Lemma same_colourb_iff c d : same_colourb c d = true <-> same_colour c d.
Proof.
  unfold same_colourb, same_colour, redb, greenb, red, green.
  rewrite ?orb_true_iff, ?andb_true_iff, ?orb_true_iff, ?Z.eqb_eq. tauto.
Qed.

Lemma creachb_iff a b : creachb a b = true <-> within_circuit_reach a b.
Proof. unfold creachb, within_circuit_reach. rewrite andb_true_iff, !Z.leb_le. tauto. Qed.

Lemma kreachb_iff a b : kreachb a b = true <-> within_copper_reach a b.
Proof. unfold kreachb, within_copper_reach. rewrite andb_true_iff, !Z.leb_le. tauto. Qed.

Lemma suppliesb_iff p e : suppliesb p e = true <-> supply_meets p e.
Proof. unfold suppliesb, supply_meets. rewrite !andb_true_iff, !Z.ltb_lt. tauto. Qed.

Lemma at_tileb_iff u p e : at_tileb u p e = true <-> at_tile u p e.
Proof. unfold at_tileb, at_tile. rewrite !andb_true_iff, Pos.eqb_eq, !Z.eqb_eq. tauto. Qed.

Lemma placed_eqb_iff p q : placed_eqb p q = true <-> p = q.
Proof.
  unfold placed_eqb. rewrite !andb_true_iff, Pos.eqb_eq, !Z.eqb_eq.
  destruct p, q; simpl. split.
  - intros [[H1 H2] H3]. subst. reflexivity.
  - intros H. inversion H. auto.
Qed.

Lemma lookup_sound l i a : lookup_ent l i = Some a -> ent_with l i a.
Proof.
  unfold lookup_ent, ent_with. intros H. apply find_some in H. destruct H as [H1 H2].
  apply Z.eqb_eq in H2. auto.
Qed.

Lemma lookup_complete l i a :
  NoDup (map e_id (l_ents l)) -> ent_with l i a -> lookup_ent l i = Some a.
Proof.
  unfold lookup_ent, ent_with. intros Hnd [Hin Hid].
  destruct (find (fun e => e_id e =? i) (l_ents l)) as [a'|] eqn:F.
  - apply find_some in F. destruct F as [Hin' E]. apply Z.eqb_eq in E.
    f_equal. apply (NoDup_map_inj e_id (l_ents l)); congruence.
  - exfalso. apply (find_none _ _ F) in Hin. apply Z.eqb_neq in Hin. contradiction.
Qed.

(* ------------------------------------------------------------------ C08 *)
Lemma wire_ok_sound l w : wire_ok l w = true -> wire_valid l w.
Proof.
  unfold wire_ok, wire_valid.
  destruct (lookup_ent l (w_e1 w)) as [a|] eqn:La; [|discriminate].
  destruct (lookup_ent l (w_e2 w)) as [b|] eqn:Lb; [|discriminate].
  intros H. apply andb_true_iff in H. destruct H as [H Hr].
  apply andb_true_iff in H. destruct H as [H Hc].
  apply andb_true_iff in H. destruct H as [H1 H2].
  exists a, b. repeat split.
  - apply (lookup_sound l _ a La).
  - apply (lookup_sound l _ a La).
  - apply (lookup_sound l _ b Lb).
  - apply (lookup_sound l _ b Lb).
  - apply has_connectorb_iff; exact H1.
  - apply has_connectorb_iff; exact H2.
  - apply same_colourb_iff; exact Hc.
  - apply creachb_iff. apply orb_true_iff in Hr. destruct Hr as [Hr|Hr]; [|exact Hr].
    apply Z.eqb_eq in Hr. contradiction.
  - apply creachb_iff. apply orb_true_iff in Hr. destruct Hr as [Hr|Hr]; [|exact Hr].
    apply Z.eqb_eq in Hr. contradiction.
Qed.

Lemma wire_ok_complete l w :
  NoDup (map e_id (l_ents l)) -> wire_valid l w -> wire_ok l w = true.
Proof.
  intros Hnd [a [b [Ha [Hb [H1 [H2 [Hc Hr]]]]]]]. unfold wire_ok.
  rewrite (lookup_complete l _ a Hnd Ha), (lookup_complete l _ b Hnd Hb).
  apply has_connectorb_iff in H1. apply has_connectorb_iff in H2. apply same_colourb_iff in Hc.
  rewrite H1, H2, Hc. simpl.
  destruct (w_c1 w =? 5) eqn:E; [reflexivity|]. simpl.
  apply creachb_iff. apply Hr. apply Z.eqb_neq. exact E.
Qed.

Lemma pairs_sound (es : list entity) :
  ForallOrdPairs (fun a b => boxes_disjointb a b = true) es ->
  forall a b, In a es -> In b es -> e_id a <> e_id b -> boxes_disjoint a b.
Proof.
  intros H a b Ha Hb Hne.
  destruct (ForallOrdPairs_In H a b Ha Hb) as [E|[E|E]].
  - subst. contradiction.
  - apply disjointb_iff. exact E.
  - apply boxes_disjoint_sym. apply disjointb_iff. exact E.
Qed.

Lemma pairs_complete (es : list entity) :
  NoDup (map e_id es) ->
  (forall a b, In a es -> In b es -> e_id a <> e_id b -> boxes_disjoint a b) ->
  ForallOrdPairs (fun a b => boxes_disjointb a b = true) es.
Proof.
  induction es as [|x t IH]; intros Hnd H; [constructor|].
  simpl in Hnd. inversion Hnd as [|? ? Hn Hd]; subst. constructor.
  - apply Forall_forall. intros y Hy. apply disjointb_iff. apply H; simpl; auto.
    intro E. apply Hn. rewrite E. apply in_map. exact Hy.
  - apply IH; [exact Hd|]. intros a b Ha Hb. apply H; simpl; auto.
Qed.

(* the validator run on every emitted blueprint DECIDES pasteability *)
Theorem valid_layout_iff l : valid_layout l = true <-> layout_valid l.
Proof.
  unfold valid_layout, layout_valid.
  rewrite !andb_true_iff, (nodupb_iff Z.eqb Z.eqb_eq), all_pairs_iff, forallb_forall. split.
  - intros [[Hnd Hp] Hw]. split; [exact Hnd|]. split.
    + apply pairs_sound. exact Hp.
    + intros w Hin. apply wire_ok_sound. apply Hw. exact Hin.
  - intros [Hnd [Hp Hw]]. split; [split; [exact Hnd|]|].
    + apply pairs_complete; assumption.
    + intros w Hin. apply wire_ok_complete; [exact Hnd|]. apply Hw. exact Hin.
Qed.

Theorem valid_layout_sound l : valid_layout l = true -> layout_valid l.
Proof. apply valid_layout_iff. Qed.

(* ------------------------------------------------------------------ C18 *)
Lemma copper_conn_trans l i j k : copper_conn l i j -> copper_conn l j k -> copper_conn l i k.
Proof.
  intros H1 H2. induction H2 as [|j m k H2 IH Hadj]; [exact H1|].
  eapply cc_step; [apply IH; exact H1 | exact Hadj].
Qed.

Lemma copper_adj_sym l i j : copper_adj l i j -> copper_adj l j i.
Proof. intros [w [Hin [H1 [H2 H]]]]. exists w. tauto. Qed.

Lemma copper_conn_sym l i j : copper_conn l i j -> copper_conn l j i.
Proof.
  intros H. induction H as [|i j k H IH Hadj]; [constructor|].
  eapply copper_conn_trans; [|exact IH].
  eapply cc_step; [constructor | apply copper_adj_sym; exact Hadj].
Qed.

Lemma memz_In i s : memz i s = true <-> In i s.
Proof. apply (existsb_eqb_In Z.eqb Z.eqb_eq). Qed.

(* every sweep keeps the invariant "everything collected is copper-connected to the root" *)
Lemma expand_inv l root ws : forall s,
  (forall w, In w ws -> In w (l_wires l)) ->
  (forall x, In x s -> copper_conn l root x) ->
  forall x, In x (expand ws s) -> copper_conn l root x.
Proof.
  induction ws as [|w t IH]; intros s Hsub Hs x Hx; simpl in Hx; [apply Hs; exact Hx|].
  apply (IH _ (fun w' H' => Hsub w' (or_intror H'))) in Hx; [exact Hx|].
  clear Hx x. intros x Hx.
  assert (Hw : In w (l_wires l)) by (apply Hsub; left; reflexivity).
  destruct ((w_c1 w =? 5) && (w_c2 w =? 5)) eqn:E5; [|apply Hs; exact Hx].
  apply andb_true_iff in E5. destruct E5 as [E1 E2]. apply Z.eqb_eq in E1, E2.
  destruct (memz (w_e1 w) s && negb (memz (w_e2 w) s)) eqn:M1.
  - destruct Hx as [Hx|Hx]; [|apply Hs; exact Hx]. subst x.
    apply andb_true_iff in M1. destruct M1 as [M1 _]. apply memz_In in M1.
    eapply cc_step; [apply Hs; exact M1|]. exists w. tauto.
  - destruct (memz (w_e2 w) s && negb (memz (w_e1 w) s)) eqn:M2; [|apply Hs; exact Hx].
    destruct Hx as [Hx|Hx]; [|apply Hs; exact Hx]. subst x.
    apply andb_true_iff in M2. destruct M2 as [M2 _]. apply memz_In in M2.
    eapply cc_step; [apply Hs; exact M2|]. exists w. tauto.
Qed.

Lemma grow_inv l root fuel : forall s,
  (forall x, In x s -> copper_conn l root x) ->
  forall x, In x (grow fuel (l_wires l) s) -> copper_conn l root x.
Proof.
  induction fuel as [|n IH]; intros s Hs x Hx; simpl in Hx; [apply Hs; exact Hx|].
  destruct (length (expand (l_wires l) s) =? length s)%nat; [apply Hs; exact Hx|].
  apply IH in Hx; [exact Hx|].
  apply expand_inv; [auto | exact Hs].
Qed.

Lemma grid_connected_sound l : grid_connected l = true ->
  forall p q, In p (l_ents l) -> In q (l_ents l) -> is_pole p = true -> is_pole q = true ->
    copper_conn l (e_id p) (e_id q).
Proof.
  unfold grid_connected. intros H p q Hp Hq Pp Pq.
  assert (Ip : In (e_id p) (pole_ids l)) by (apply in_map; apply filter_In; auto).
  assert (Iq : In (e_id q) (pole_ids l)) by (apply in_map; apply filter_In; auto).
  destruct (pole_ids l) as [|p0 rest]; [contradiction|].
  rewrite forallb_forall in H.
  assert (R : forall x, In x (p0 :: rest) -> copper_conn l p0 x).
  { intros x [Hx|Hx]; [subst; constructor|].
    apply H in Hx. apply memz_In in Hx. revert Hx. apply grow_inv.
    intros y [Hy|[]]. subst. constructor. }
  eapply copper_conn_trans; [apply copper_conn_sym; apply R; exact Ip | apply R; exact Iq].
Qed.

Lemma copper_ok_sound l w : copper_ok l w = true -> w_c1 w = 5 ->
  exists a b, ent_with l (w_e1 w) a /\ ent_with l (w_e2 w) b /\
    is_pole a = true /\ is_pole b = true /\ within_copper_reach a b.
Proof.
  unfold copper_ok. intros H E. apply Z.eqb_eq in E. rewrite E in H.
  destruct (lookup_ent l (w_e1 w)) as [a|] eqn:La; [|discriminate].
  destruct (lookup_ent l (w_e2 w)) as [b|] eqn:Lb; [|discriminate].
  apply andb_true_iff in H. destruct H as [H Hk]. apply andb_true_iff in H. destruct H as [Pa Pb].
  exists a, b. split; [apply lookup_sound; exact La|]. split; [apply lookup_sound; exact Lb|].
  split; [exact Pa|]. split; [exact Pb|]. apply kreachb_iff. exact Hk.
Qed.

Theorem poles_ok_sound t l : poles_ok t l = true -> poles_valid t l.
Proof.
  unfold poles_ok, poles_valid. rewrite !andb_true_iff, !forallb_forall.
  intros [[Hc Hw] Hg]. split; [|split].
  - intros e Hin He. specialize (Hc e Hin). rewrite He in Hc. simpl in Hc.
    unfold coveredb in Hc. apply existsb_exists in Hc. destruct Hc as [p [Hp Hb]].
    apply andb_true_iff in Hb. destruct Hb as [Hb Hs]. apply andb_true_iff in Hb. destruct Hb as [Pp Pt].
    exists p. split; [exact Hp|]. split; [exact Pp|]. split; [apply Pos.eqb_eq; exact Pt|].
    apply suppliesb_iff. exact Hs.
  - intros w Hin E. apply copper_ok_sound; [apply Hw; exact Hin | exact E].
  - apply grid_connected_sound. exact Hg.
Qed.

Theorem relays_only_sound l : relays_only l = true -> relays_only_spec l.
Proof.
  unfold relays_only, relays_only_spec. rewrite forallb_forall. intros H p Hin Pp.
  specialize (H p Hin). rewrite Pp in H. simpl in H.
  apply existsb_exists in H. destruct H as [w [Hw Hb]].
  apply andb_true_iff in Hb. destruct Hb as [H5 He]. apply negb_true_iff, Z.eqb_neq in H5.
  exists w. split; [exact Hw|]. split; [exact H5|].
  apply orb_true_iff in He. destruct He as [He|He]; apply Z.eqb_eq in He; auto.
Qed.

(* ------------------------------------------------------------------ C09 *)
Lemma filter_one {A} (f : A -> bool) (l : list A) : length (filter f l) = 1%nat ->
  exists l1 e l2, l = l1 ++ e :: l2 /\ f e = true /\
    (forall x, In x l1 -> f x = false) /\ (forall x, In x l2 -> f x = false).
Proof.
  induction l as [|x t IH]; simpl; [discriminate|].
  destruct (f x) eqn:Fx; simpl; intros H.
  - exists [], x, t. split; [reflexivity|]. split; [exact Fx|]. split; [intros ? []|].
    intros y Hy. destruct (f y) eqn:Fy; [|reflexivity].
    assert (In y (filter f t)) by (apply filter_In; auto).
    destruct (filter f t); [contradiction | discriminate].
  - destruct (IH H) as [l1 [e [l2 [E [Fe [H1 H2]]]]]].
    exists (x :: l1), e, l2. split; [simpl; congruence|]. split; [exact Fe|]. split; [|exact H2].
    intros y [Hy|Hy]; [subst; exact Fx | apply H1; exact Hy].
Qed.

Theorem placed_ok_sound ups exp l : placed_ok ups exp l = true -> placed_valid ups exp l.
Proof.
  unfold placed_ok, placed_valid. rewrite !andb_true_iff, !forallb_forall.
  intros [[Hnd Hone] Hconv]. split; [|split].
  - apply (nodupb_iff placed_eqb placed_eqb_iff). exact Hnd.
  - intros p Hp. specialize (Hone p Hp). apply Nat.eqb_eq in Hone. unfold countb in Hone.
    destruct (filter_one _ _ Hone) as [l1 [e [l2 [E [Fe [H1 H2]]]]]].
    exists l1, e, l2. split; [exact E|]. split; [apply at_tileb_iff; exact Fe|].
    split; intros x Hx Hat; apply at_tileb_iff in Hat.
    + rewrite (H1 x Hx) in Hat. discriminate.
    + rewrite (H2 x Hx) in Hat. discriminate.
  - intros e Hin Hu. specialize (Hconv e Hin).
    assert (U : existsb (Pos.eqb (e_proto e)) ups = true).
    { apply (existsb_eqb_In Pos.eqb Pos.eqb_eq). exact Hu. }
    rewrite U in Hconv. simpl in Hconv. apply existsb_exists in Hconv.
    destruct Hconv as [p [Hp Hat]]. exists p. split; [exact Hp | apply at_tileb_iff; exact Hat].
Qed.
