"""compile a list of programs sequentially in this process (fixed PYTHONHASHSEED / cwd / time limit)"""
import json, sys, os, logging, warnings
warnings.filterwarnings("ignore"); logging.disable(logging.CRITICAL)
repo = os.environ.get("VERIF_REPO", "/repo")
sys.path.insert(0, repo)
jobs = json.load(sys.stdin)
from dsl_compiler.cli import compile_dsl_source
from dsl_compiler.src.common.constants import CompilerConfig
out = []
import io, contextlib
for j in jobs:
    try:
        kw = {"use_json": True}
        if j.get("time_limit") is not None:
            kw["config"] = CompilerConfig(layout_solver_time_limit=j["time_limit"])
        buf = io.StringIO()
        with contextlib.redirect_stdout(buf), contextlib.redirect_stderr(buf):
            ok, res, _ = compile_dsl_source(j["text"], **kw)
        out.append(["ok" if ok else "rejected", res])
    except BaseException as e:  # noqa: BLE001
        out.append(["error", f"{type(e).__name__}: {e}"[:500]])
json.dump(out, sys.stdout)
