"""facto2v -- fail-closed front end for the function-definition subset of Facto used by the
bundled library (lib/math.facto), written for the verification framework.

It is INDEPENDENT of /repo's parser: a hand-written lexer and a precedence-climbing parser over
the documented precedence ladder (lowest to highest)

    ||  &&  `cond : value`  comparisons  `| "type"`  OR  XOR  AND  << >>  + -  * / %  ** (right)  unary

Accepted text:  comment lines (#...), and function definitions

    func name(Signal a, int b, ...) { Signal t = expr; int k = expr; ... return expr; }

Anything else (imports, top-level statements, memories, bundles, calls, entity access, signal
literals, a sign glued to a digit after an operand, unary plus ...) raises Abort with the offending
line -- the check reports that as a broken tie, never skips it silently.

Two consumers share one parse:
  * `to_coq(funcs)`   -> text of coq/Gen/LibMath.v: per function the locals as `list decl`, the
                         return `expr` (parameters are EVar 0..n-1, the j-th local is EVar (n+j)) and
                         `lib_<name> (args : list Z) : Z` defined through Facto/LibCall.v's `call_den`
                         (= Facto.Denote.den over the concrete algebra zalg);
  * `to_rich(funcs)`  -> facto_rich statements ('func', name, params, body, ret), which
                         facto_rich.elaborate inlines at call sites (specification side of the
                         compiled-library check).
"""
from __future__ import annotations

import re

from py2v import Abort

AOPS = {"+": "Add", "-": "Sub", "*": "Mul", "/": "Div", "%": "Mod", "**": "Pow", "<<": "Shl", ">>": "Shr",
        "AND": "And", "OR": "Or", "XOR": "Xor"}
COPS = {"<": "CLt", ">": "CGt", "==": "CEq", ">=": "CGe", "<=": "CLe", "!=": "CNe"}

TOKEN_RE = re.compile(r"""
    (?P<ws>[ \t\r]+)
  | (?P<nl>\n)
  | (?P<comment>\#[^\n]*)
  | (?P<num>0[xX][0-9a-fA-F]+|0[oO][0-7]+|0[bB][01]+|[0-9]+)
  | (?P<name>[A-Za-z_][A-Za-z0-9_]*)
  | (?P<str>"[^"\\\n]*")
  | (?P<op>\*\*|<<|>>|&&|\|\||==|!=|<=|>=|[-+*/%<>!:|(){},;=.\[\]])
""", re.X)

KEYWORDS = {"func", "return", "Signal", "int", "Memory", "Bundle", "Entity", "SignalType", "for", "in", "step",
            "when", "any", "all", "import", "place"}
WORD_OPS = {"AND", "OR", "XOR", "and", "or"}


class Tok:
    __slots__ = ("kind", "val", "line", "glued")

    def __init__(self, kind, val, line, glued):
        self.kind, self.val, self.line, self.glued = kind, val, line, glued

    def __repr__(self):
        return f"{self.kind}:{self.val!r}@{self.line}"


def lex(text):
    toks = []
    pos, line = 0, 1
    glued = False  # no white space between the previous token and this one
    while pos < len(text):
        m = TOKEN_RE.match(text, pos)
        if not m:
            raise Abort(f"facto2v: cannot tokenise line {line}: {text[pos:pos + 40]!r}")
        pos = m.end()
        k = m.lastgroup
        if k == "nl":
            line += 1
            glued = False
            continue
        if k in ("ws", "comment"):
            glued = False
            continue
        v = m.group(k)
        if k == "num":
            toks.append(Tok("num", int(v, 0) if v[:1] == "0" and len(v) > 1 and v[1] in "xXoObB" else int(v, 10), line, glued))
        elif k == "name":
            toks.append(Tok("op" if v in WORD_OPS else ("kw" if v in KEYWORDS else "name"), v, line, glued))
        elif k == "str":
            toks.append(Tok("str", v[1:-1], line, glued))
        else:
            toks.append(Tok("op", v, line, glued))
        glued = True
    toks.append(Tok("eof", None, line, False))
    return toks


class Func:
    def __init__(self, name, params, body, ret, line):
        self.name, self.params, self.body, self.ret, self.line = name, params, body, ret, line


class Parser:
    """expressions are facto_rich tuples: ('int', z) ('ref', name) ('bin', op, a, b) ('cmp', op, a, b)
    ('and', a, b) ('or', a, b) ('not', a) ('neg', a) ('proj', a, sig) ('cond', c, v) ('call', f, args)"""

    def __init__(self, text):
        self.toks = lex(text)
        self.i = 0

    # ---- token helpers
    @property
    def t(self):
        return self.toks[self.i]

    def fail(self, why):
        raise Abort(f"facto2v: unsupported construct ({why}) at line {self.t.line}, token {self.t.val!r}")

    def accept(self, kind, val=None):
        t = self.t
        if t.kind == kind and (val is None or t.val == val):
            self.i += 1
            return t
        return None

    def expect(self, kind, val=None):
        t = self.accept(kind, val)
        if t is None:
            self.fail(f"expected {val or kind}")
        return t

    def is_op(self, *vals):
        return self.t.kind == "op" and self.t.val in vals

    # ---- file
    def parse_file(self):
        funcs = []
        while self.t.kind != "eof":
            if self.t.kind == "kw" and self.t.val == "func":
                funcs.append(self.func())
            else:
                self.fail("only function definitions are accepted at top level")
        names = [f.name for f in funcs]
        if len(set(names)) != len(names):
            raise Abort("facto2v: a function is defined twice")
        return funcs

    def func(self):
        line = self.expect("kw", "func").line
        name = self.expect("name").val
        self.expect("op", "(")
        params = []
        if not self.is_op(")"):
            while True:
                kind = self.accept("kw", "Signal") or self.accept("kw", "int")
                if kind is None:
                    self.fail("parameter kind other than Signal / int")
                params.append((kind.val, self.expect("name").val))
                if not self.accept("op", ","):
                    break
        self.expect("op", ")")
        self.expect("op", "{")
        body = []
        ret = None
        while not self.is_op("}"):
            if ret is not None:
                self.fail("statement after return")
            if self.accept("kw", "return"):
                ret = self.expr()
                self.expect("op", ";")
                continue
            kind = self.accept("kw", "Signal") or self.accept("kw", "int")
            if kind is None:
                self.fail("statement other than `Signal x = e;`, `int x = e;`, `return e;`")
            nm = self.expect("name").val
            self.expect("op", "=")
            e = self.expr()
            self.expect("op", ";")
            body.append(("sig" if kind.val == "Signal" else "int", nm, e))
        self.expect("op", "}")
        if ret is None:
            raise Abort(f"facto2v: function {name} (line {line}) has no return")
        seen = [p for _, p in params]
        for _, nm, _ in body:
            if nm in seen:
                raise Abort(f"facto2v: function {name} redeclares {nm} (shadowing is outside the subset)")
            seen.append(nm)
        return Func(name, params, body, ret, line)

    # ---- expressions: one method per rung of the ladder
    def expr(self):
        return self.logic_or()

    def logic_or(self):
        a = self.logic_and()
        while self.is_op("||", "or"):
            self.i += 1
            a = ("or", a, self.logic_and())
        return a

    def logic_and(self):
        a = self.output_spec()
        while self.is_op("&&", "and"):
            self.i += 1
            a = ("and", a, self.output_spec())
        return a

    def output_spec(self):
        c = self.comparison()
        if self.is_op(":"):
            self.i += 1
            return ("cond", c, self.primary())
        return c

    def comparison(self):
        a = self.projection()
        while self.is_op(*COPS):
            op = self.t.val
            self.i += 1
            a = ("cmp", op, a, self.projection())
        return a

    def projection(self):
        a = self.binlevel(0)
        while self.is_op("|"):
            self.i += 1
            s = self.accept("str")
            if s is None:
                self.fail("projection target other than a string literal")
            a = ("proj", a, s.val)
        return a

    LEVELS = [("OR",), ("XOR",), ("AND",), ("<<", ">>"), ("+", "-"), ("*", "/", "%")]

    def binlevel(self, k):
        if k == len(self.LEVELS):
            return self.power()
        a = self.binlevel(k + 1)
        while self.is_op(*self.LEVELS[k]):
            t = self.t
            if t.val in ("+", "-") and self.toks[self.i + 1].kind == "num" and self.toks[self.i + 1].glued:
                # `x -1`: the sign would be swallowed by a signed number token in some lexers
                self.fail("sign glued to a number after an operand (ambiguous)")
            self.i += 1
            a = ("bin", t.val, a, self.binlevel(k + 1))
        return a

    def power(self):
        a = self.unary()
        if self.is_op("**"):
            self.i += 1
            return ("bin", "**", a, self.power())
        return a

    def unary(self):
        if self.is_op("-"):
            nxt = self.toks[self.i + 1]
            self.i += 1
            if nxt.kind == "num" and nxt.glued:
                self.i += 1
                return ("int", -nxt.val)  # a signed number literal
            return ("neg", self.unary())
        if self.is_op("!"):
            self.i += 1
            return ("not", self.unary())
        if self.is_op("+"):
            self.fail("unary plus")
        return self.primary()

    def primary(self):
        t = self.t
        if t.kind == "num":
            self.i += 1
            e = ("int", t.val)
        elif t.kind == "name":
            self.i += 1
            if self.is_op("("):
                self.i += 1
                args = []
                if not self.is_op(")"):
                    while True:
                        args.append(self.expr())
                        if not self.accept("op", ","):
                            break
                self.expect("op", ")")
                e = ("call", t.val, args)
            else:
                e = ("ref", t.val)
        elif self.is_op("("):
            self.i += 1
            if self.t.kind == "str":
                self.fail("signal literal")
            e = self.expr()
            self.expect("op", ")")
        else:
            self.fail("expression")
        if self.is_op(".", "["):
            self.fail("property access / bundle selection")
        return e


def parse_library(text):
    return Parser(text).parse_file()


# ------------------------------------------------------------------ consumers
def to_rich(funcs):
    return [("func", f.name, list(f.params), list(f.body), f.ret) for f in funcs]


def zc(n):
    return f"({n})" if n < 0 else str(n)


class _Sigs:
    def __init__(self):
        self.tab = {}

    def p(self, s):
        return f"{self.tab.setdefault(s, len(self.tab) + 1)}%positive"


def coq_expr(e, env, sigs, fname):
    k = e[0]
    rec = lambda x: coq_expr(x, env, sigs, fname)
    if k == "int":
        return f"(EInt {zc(e[1])})"
    if k == "ref":
        if e[1] not in env:
            raise Abort(f"facto2v: {fname} refers to {e[1]}, which is neither a parameter nor an earlier local")
        return f"(EVar {env[e[1]]}%nat)"
    if k == "bin":
        return f"(EBin {AOPS[e[1]]} {rec(e[2])} {rec(e[3])})"
    if k == "cmp":
        return f"(ECmp {COPS[e[1]]} {rec(e[2])} {rec(e[3])})"
    if k == "and":
        return f"(EAnd {rec(e[1])} {rec(e[2])})"
    if k == "or":
        return f"(EOr {rec(e[1])} {rec(e[2])})"
    if k == "not":
        return f"(ENot {rec(e[1])})"
    if k == "neg":
        return f"(ENeg {rec(e[1])})"
    if k == "proj":
        return f"(EProj {rec(e[1])} {sigs.p(e[2])})"
    if k == "cond":
        return f"(ECond {rec(e[1])} {rec(e[2])})"
    if k == "call":
        raise Abort(f"facto2v: {fname} calls {e[1]}; calls inside library functions are outside the subset")
    raise Abort(f"facto2v: unknown expression node {k}")


COQ_HEADER = """(* GENERATED by /verif/py/facto2v.py from {src} -- do not edit; regenerated on every run.
   Per library function: the parameter kinds (true = Signal, false = int), the local declarations
   (parameters are EVar 0..n-1, the j-th local is EVar (n+j)), the returned expression, and the
   function's meaning on concrete arguments through Facto/LibCall.v (Facto.Denote.den over zalg). *)
From Coq Require Import ZArith List Bool.
From FV Require Import Base.Int32 Factorio.Circuit Facto.Syntax Facto.Denote Facto.LibCall.
Import ListNotations.
Open Scope Z_scope.
"""


def to_coq(funcs, src="lib/math.facto"):
    out = [COQ_HEADER.format(src=src)]
    sigs = _Sigs()
    for f in funcs:
        env = {}
        for _, p in f.params:
            if p in env:
                raise Abort(f"facto2v: {f.name} has two parameters named {p}")
            env[p] = len(env)
        locs = []
        for kind, nm, e in f.body:
            ce = coq_expr(e, env, sigs, f.name)
            locs.append(f"{'DSig' if kind == 'sig' else 'DInt'} {ce}")
            env[nm] = len(env)
        ret = coq_expr(f.ret, env, sigs, f.name)
        kinds = "; ".join("true" if k == "Signal" else "false" for k, _ in f.params)
        names = ", ".join(f"{k} {p}" for k, p in f.params)
        out.append(f"(* func {f.name}({names})   -- {src} line {f.line} *)")
        out.append(f"Definition lib_{f.name}_params : list bool := [{kinds}].")
        out.append(f"Definition lib_{f.name}_locals : list decl :=\n  [" + ";\n   ".join(locs) + "].")
        out.append(f"Definition lib_{f.name}_ret : expr :=\n  {ret}.")
        out.append(f"Definition lib_{f.name} (args : list Z) : Z := call_den lib_{f.name}_locals lib_{f.name}_ret args.\n")
    out.append("Definition lib_functions : list (nat * (list Z -> Z)) :=\n  ["
               + ";\n   ".join(f"({len(f.params)}%nat, lib_{f.name})" for f in funcs) + "].")
    return "\n".join(out) + "\n"
