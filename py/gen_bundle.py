"""Random stateless programs over bundles (C02)."""
from __future__ import annotations

import random

from gen_scalar import Gen, program_safe

TYPES = ["iron-plate", "copper-plate", "signal-B", "signal-C", "signal-D", "water", "signal-red", "steel-plate"]
CMPS = ["<", ">", "==", ">=", "<=", "!="]


def gen_bundle_program(seed):
    for attempt in range(40):
        r = random.Random(seed * 40 + attempt)
        decls = []
        names = iter([c for c in "abcdefghijklmnopqrstuvwxyz"] + [f"v{i}" for i in range(50)])
        types = r.sample(TYPES, k=len(TYPES))
        n_in = r.randint(2, 4)
        for i in range(n_in):
            decls.append(("in", next(names), types[i], r.choice([2, 3, 5, 7, 9, 11, 20, -4, 100, 0])))
        scal = list(range(n_in))          # indices of scalar signal decls (typed inputs)
        bundles = {}                      # decl index -> set of member types

        def scalar_operand(members=(), arith=False):
            # a signal operand whose type is a member of the bundle is in the region of known finding S24 for
            # filters and gating (operand and bundle are not reliably kept on different colours).  Each-arithmetic
            # asks for wire separation, so there a SEPARATE signal on a member's type is fine (and must not be
            # added to that member): `twins` are extra inputs declared on a member's type
            free = [i for i in scal if decls[i][2] not in members]
            if arith:
                free += [i for i in twins if decls[i][2] in members]
            x = r.random()
            if x < 0.5 and free:
                return ("var", r.choice(free))
            return ("int", r.choice([0, 1, 2, 3, 5, 10, 100, -1, -3]))

        def new_bundle(b, members):
            decls.append(("bundle", next(names), b))
            bundles[len(decls) - 1] = set(members)

        # a literal first
        k = r.randint(2, min(4, n_in + 2))
        mem = []
        used = set()
        for i in r.sample(scal, k=min(len(scal), r.randint(1, len(scal)))):
            mem.append((decls[i][2], ("var", i)))
            used.add(decls[i][2])
        for t in types[n_in:]:
            if len(mem) >= k + 1:
                break
            if r.random() < 0.6:
                mem.append((t, ("lit", t, ("int", r.choice([1, 3, 10, -5, 0, 50])))))
                used.add(t)
        new_bundle(("blit", mem), used)
        twins = []
        if r.random() < 0.6:
            decls.append(("in", next(names), r.choice(sorted(used)), r.choice([2, 3, 5, 7, 10, -4])))
            twins.append(len(decls) - 1)
        for _ in range(r.randint(2, 5)):
            x = r.random()
            src = r.choice(list(bundles))
            if x < 0.3:
                op = r.choice(["+", "-", "*", "/", "%", "AND", "OR", "XOR", "<<", ">>"])
                opd = scalar_operand(bundles[src], arith=True)
                if op in ("<<", ">>"):
                    opd = ("int", r.randint(0, 8))
                if op in ("/", "%") and opd[0] == "int":
                    opd = ("int", r.choice([2, 3, 7, -2]))
                new_bundle(("barith", op, ("bref", src), opd), bundles[src])
            elif x < 0.5:
                kk = None if r.random() < 0.6 else r.choice([1, 5, -1])
                opd = scalar_operand(bundles[src])
                # known finding S34: a signal operand travels on the bundle's own wire, so under a comparison that
                # holds between a value and itself (== >= <=) the operand passes its own filter and joins the result
                cmp_ = r.choice(["<", ">", "!="]) if opd[0] == "var" else r.choice(CMPS)
                new_bundle(("bfilter", cmp_, ("bref", src), opd, kk), bundles[src])
            elif x < 0.65:
                # gating `(s CMP c) : bundle` is known finding S24 (the condition signal travels on the same
                # colour as the bundle and is forwarded with it): replayed as a witness, not generated
                continue
            elif x < 0.75 and len(bundles) >= 1:
                # merge with a fresh literal over unused types
                free = [t for t in types if t not in bundles[src]]
                if not free:
                    continue
                t = r.choice(free)
                new_bundle(("bmerge", ("bref", src), ("blit", [(t, ("lit", t, ("int", r.choice([1, 4, 9]))))])),
                           bundles[src] | {t})
            elif x < 0.87:
                t = r.choice(sorted(bundles[src]))
                decls.append(("sig", next(names), ("sel", src, t)))
                scal_idx = len(decls) - 1
            else:
                q = r.choice(["any", "all"])
                decls.append(("sig", next(names), (q, r.choice(CMPS), src, ("int", r.choice([0, 1, 5, 10, 100])))))
        if any(d[0] == "bundle" for d in decls):
            return decls
    return decls
