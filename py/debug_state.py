"""debug helper for stateful replays: print the cut, the next-state terms and the specification terms"""
import json, sys
sys.path.insert(0, '/verif/py')
import harness as H, scalar_check as S, facto_ast as fa, facto_rich as fr, bpexport, engine
from props.c01 import to_tuple
src = json.load(open(sys.argv[1]))
text = src["program"]
# re-elaborate is not possible from text: use the stored decls + mems if present
decls = [to_tuple(d) for d in src["decls"]]
mems = src.get("mems")
r = H.compile_many([(text, src.get("options") or {})])[0]
j = json.loads(r[1])
if "dump" in sys.argv:
    for i, e in enumerate(j['blueprint']['entities']):
        print(i, e['entity_number'], e['name'][:6], e.get('player_description'), json.dumps(e.get('control_behavior'))[:300])
    print(j['blueprint']['wires'])
mm = {k: {kk: (to_tuple(vv) if isinstance(vv, list) else vv) for kk, vv in m.items()} for k, m in mems.items()}
defs, expr, meta = S.case_for(0, decls, j, mems=mm)
print(expr); print(meta.get("mem_problems"), meta.get("rings"))
n = meta["entities"]
print([l for l in defs.splitlines() if l.startswith("Definition cut_") or l.startswith("Definition ring_") or l.startswith("Definition latches_") or l.startswith("Definition cells_")])
ex = [f"match cell_step bp_0 cut_0 {n+2}%nat with Some (k, st, st') => Some (k, map (fun m => m) st') | None => None end",
      "den_prog talg (b_univ bp_0) ds_0"]
rc, outs, t = H.coq_eval(defs, ex, S.EXTRA, tag="dbgst")
for o in outs: print((o or t[-2000:])[:5000])
