"""Shared harness: build the Coq project, compile Facto programs with the real compiler in
/repo (worker pool), run generated Coq case files, write evidence, report violations."""
from __future__ import annotations

import fcntl
import hashlib
import json
import multiprocessing as mp
import os
import re
import subprocess
import sys
import time

VERIF = os.path.dirname(os.path.dirname(os.path.abspath(__file__)))
REPO = os.environ.get("VERIF_REPO", "/repo")
COQ = os.path.join(VERIF, "coq")
CASES = os.path.join(COQ, "Cases")
PY = "/venv/bin/python"
NPROC = int(os.environ.get("VERIF_NPROC", "16"))
GUARD = "FACTOMPILER_VERIF"

os.environ.setdefault("PYTHONHASHSEED", "0")
os.environ[GUARD] = "1"

_t0 = time.time()


def log(*a):
    print(f"[{time.time() - _t0:7.1f}s]", *a, file=sys.stderr, flush=True)


# ------------------------------------------------------------------ repo hash / cache
def repo_hash():
    h = hashlib.sha256()
    roots = [os.path.join(REPO, "dsl_compiler"), os.path.join(REPO, "lib")]
    files = [os.path.join(REPO, "compile.py")]
    for root in roots:
        for d, dn, fn in os.walk(root):
            dn[:] = sorted(x for x in dn if x not in ("__pycache__", "tests"))
            for f in sorted(fn):
                if f.endswith((".py", ".lark", ".facto")):
                    files.append(os.path.join(d, f))
    for f in sorted(files):
        h.update(f.encode())
        try:
            with open(f, "rb") as fh:
                h.update(fh.read())
        except OSError:
            pass
    return h.hexdigest()


# ------------------------------------------------------------------ Coq build
def coq_build():
    """regenerate Gen/*.v from /repo, then make (full .vo build) under a lock.
    returns (ok, errors:dict, log text)"""
    sys.path.insert(0, os.path.join(VERIF, "py"))
    import gen as gen_mod

    os.makedirs(CASES, exist_ok=True)
    with open(os.path.join(VERIF, ".buildlock"), "w") as lk:
        fcntl.flock(lk, fcntl.LOCK_EX)
        errs = gen_mod.main()
        if not os.path.exists(os.path.join(COQ, "Makefile")) or (
            os.path.getmtime(os.path.join(COQ, "_CoqProject")) > os.path.getmtime(os.path.join(COQ, "Makefile"))
        ):
            subprocess.run(["coq_makefile", "-f", "_CoqProject", "-o", "Makefile"], cwd=COQ, check=True,
                           capture_output=True)
        p = subprocess.run(["timeout", "1500", "make", "-j", str(NPROC), "-k"], cwd=COQ, capture_output=True, text=True)
        out = p.stdout + p.stderr
        failed = re.findall(r'File "\./([^"]+)", line (\d+)', out)
        return p.returncode == 0 and not errs, errs, out, failed


# ------------------------------------------------------------------ compiler workers
_compile = None


def _init_worker():
    global _compile
    import logging
    import warnings

    warnings.filterwarnings("ignore")
    logging.disable(logging.CRITICAL)
    sys.path.insert(0, REPO)
    os.chdir(REPO)
    from dsl_compiler.cli import compile_dsl_source

    _compile = compile_dsl_source
    # harness-side observation (in this process only; /repo is not modified): remember the
    # ConnectionPlanner of the last layout attempt so that the compiler's own logical edge
    # list can be read after the public entry point returns.
    try:
        from dsl_compiler.src.layout import connection_planner as cp

        orig = cp.ConnectionPlanner.plan_connections

        def wrapped(self, *a, **k):
            r = orig(self, *a, **k)
            _HARVEST["cp"] = self
            return r

        cp.ConnectionPlanner.plan_connections = wrapped
        orig_pop = cp.ConnectionPlanner._populate_wire_connections

        def wrapped_pop(self, *a, **k):
            r = orig_pop(self, *a, **k)
            self._verif_routed = len(self.layout_plan.wire_connections)
            return r

        cp.ConnectionPlanner._populate_wire_connections = wrapped_pop
    except Exception:  # noqa: BLE001
        pass


_HARVEST = {}


def _harvest():
    c = _HARVEST.pop("cp", None)
    if c is None:
        return None
    try:
        edges = []
        for e in c._circuit_edges:
            if not e.source_entity_id:
                continue
            key = (e.source_entity_id, e.sink_entity_id, e.resolved_signal_name)
            col = c._edge_color_map.get(key)
            if col is None:
                col = "red"  # memory feedback edges are always red (ConnectionPlanner.plan_connections)
            edges.append([e.source_entity_id, e.sink_entity_id, e.resolved_signal_name, col, e.originating_merge_id])
        places = {}
        for k, pl in c.layout_plan.entity_placements.items():
            if pl.position is not None:
                places[k] = [pl.entity_type, float(pl.position[0]), float(pl.position[1]), pl.role]
        # explicit connections preserved outside the routed edge set (memory gates, latch feedback,
        # multipliers, self feedback): output side -> input side
        n_routed = getattr(c, "_verif_routed", None)
        preserved = []
        if n_routed is not None:
            for wc in c.layout_plan.wire_connections[n_routed:]:
                if (wc.source_side in (None, "output")) and (wc.sink_side in (None, "input")):
                    preserved.append([wc.source_entity_id, wc.sink_entity_id, wc.signal_name, wc.wire_color, None])
        have = {(e[0], e[1], e[3]) for e in edges}
        for e in preserved:
            if (e[0], e[1], e[3]) not in have:
                edges.append(e)
                have.add((e[0], e[1], e[3]))
        # arithmetic self feedback (ConnectionPlanner._add_self_feedback_connections) is a direct wire
        for k, pl in c.layout_plan.entity_placements.items():
            if pl.properties.get("has_self_feedback") and pl.properties.get("feedback_signal"):
                fs = pl.properties.get("feedback_signal")
                name = c.signal_usage.get(fs).resolved_signal_name if hasattr(c, "signal_usage") and c.signal_usage.get(fs) else fs
                edges.append([k, k, name or fs, "red", None])
        # the gate pair of a memory cell is wired by explicit connections outside the edge list
        # (MemoryBuilder._setup_standard_write): write gate -> hold gate and the hold gate's self loop,
        # both red; every reader of the hold gate therefore also sees the write gate
        for k, pl in places.items():
            if pl[3] == "memory_hold_gate" and k.endswith("_hold_gate"):
                wg = k[: -len("_hold_gate")] + "_write_gate"
                if wg not in places:
                    continue
                sigs = {e[2] for e in edges if e[0] == k} | {e[2] for e in edges if e[1] == wg and e[2] != "signal-W"}
                for sg in sorted(sigs):
                    edges.append([wg, k, sg, "red", None])
                    edges.append([k, k, sg, "red", None])
                    for e in list(edges):
                        if e[0] == k and e[1] != k and e[2] == sg:
                            edges.append([wg, e[1], sg, e[3], None])
        return {"edges": edges, "places": places}
    except Exception as e:  # noqa: BLE001
        return {"error": str(e)}


def _compile_one(job):
    text, opts = job
    import io
    import contextlib

    try:
        kw = dict(use_json=True)
        o = dict(opts)
        tl = o.pop("time_limit", None)
        if tl is not None:
            from dsl_compiler.src.common.constants import CompilerConfig

            kw["config"] = CompilerConfig(layout_solver_time_limit=tl)
        o.pop("_harvest", None)
        kw.update(o)
        buf = io.StringIO()
        with contextlib.redirect_stdout(buf), contextlib.redirect_stderr(buf):
            ok, res, diags = _compile(text, **kw)
        if not ok:
            return ("rejected", str(res))
        if opts.get("_harvest", True):
            return ("ok", res, _harvest())
        return ("ok", res)
    except BaseException as e:  # noqa: BLE001
        return ("error", f"{type(e).__name__}: {e}"[:2000])


_pool = None


def pool():
    global _pool
    if _pool is None:
        ctx = mp.get_context("fork")
        _pool = ctx.Pool(NPROC, initializer=_init_worker)
    return _pool


def compile_many(jobs):
    """jobs: list of (text, opts dict) -> list of (status, payload)"""
    if not jobs:
        return []
    return pool().map(_compile_one, jobs, chunksize=1)


# ------------------------------------------------------------------ running case files
COQ_HEADER = """From Coq Require Import ZArith List Bool PArith NArith String.
From FV Require Import Base.Int32 Factorio.Circuit Valid.Hom Valid.Term Valid.SymExec Facto.Syntax Facto.Denote {extra}.
Import ListNotations.
Open Scope Z_scope.
"""


def run_coq_files(files, timeout=300):
    """compile the given .v files (paths relative to COQ) in parallel; returns dict file -> (rc, output)"""
    procs = {}
    res = {}
    pending = list(files)
    running = {}
    while pending or running:
        while pending and len(running) < NPROC:
            f = pending.pop(0)
            p = subprocess.Popen(["timeout", str(timeout), "coqc", "-Q", ".", "FV", f], cwd=COQ,
                                 stdout=subprocess.PIPE, stderr=subprocess.STDOUT, text=True)
            running[f] = p
        for f, p in list(running.items()):
            if p.poll() is not None:
                res[f] = (p.returncode, p.stdout.read())
                del running[f]
        time.sleep(0.05)
    return res


def shard_cases(prop, cases, extra_imports, per=40, _depth=0):
    """cases: list of (case_id, definitions_text, bool_expr_text).  Each case gets a kernel-checked
    `assert (expr = true) by (vm_compute; reflexivity)` inside one Qed-closed lemma per shard;
    PASS/FAIL is printed per case.  returns dict case_id -> bool and the coqc command used"""
    os.makedirs(CASES, exist_ok=True)
    for f in os.listdir(CASES):
        if f.startswith(prop + "_"):
            os.unlink(os.path.join(CASES, f))
    files = []
    for si in range(0, len(cases), per):
        chunk = cases[si:si + per]
        name = f"Cases/{prop}_{si // per}.v"
        with open(os.path.join(COQ, name), "w") as fh:
            fh.write(COQ_HEADER.format(extra=extra_imports))
            for cid, defs, expr in chunk:
                fh.write(f"(* case {cid} *)\n{defs}\n")
            fh.write(f"Lemma shard_{si // per} : True.\nProof.\n")
            for cid, defs, expr in chunk:
                for suffix, ex1 in (expr if isinstance(expr, list) else [("", expr)]):
                    fh.write(
                        f'  first [ assert (({ex1}) = true) by (vm_compute; reflexivity); idtac "CASE {cid}{suffix} PASS"'
                        f' | idtac "CASE {cid}{suffix} FAIL" ].\n'
                    )
            fh.write("  exact I.\nQed.\n")
        files.append(name)
    out = run_coq_files(files, timeout=300 if _depth == 0 else 180)
    results = {}
    logs = []
    for f, (rc, text) in out.items():
        for m in re.finditer(r"CASE (\S+) (PASS|FAIL)", text):
            results[m.group(1)] = m.group(2) == "PASS"
        if rc != 0:
            logs.append(f"{f}: rc={rc}\n{text[-2000:]}")
    # cases whose shard was stopped before they were reached (or while they ran): run each alone, so that one
    # expensive case does not take the rest of its shard with it
    def keys_of(c):
        cid, _, expr = c
        return [f"{cid}{s}" for s, _ in (expr if isinstance(expr, list) else [("", expr)])]

    missing = [c for c in cases if any(k not in results for k in keys_of(c))]
    if missing and _depth == 0:
        r2, l2, _ = shard_cases(prop + "R", missing, extra_imports, per=1, _depth=1)
        for k, v in r2.items():
            results.setdefault(k, v)
        logs += l2
    for c in cases:
        for k in keys_of(c):
            if k not in results:
                results[k] = False
                results.setdefault("__unfinished__", []).append(k)
    return results, logs, "coqc -Q . FV Cases/" + prop + "_<shard>.v  (assert (check = true) by (vm_compute; reflexivity) ... Qed)"


def coq_eval(defs, exprs, extra_imports, tag="eval", timeout=600):
    """evaluate expressions with vm_compute and return the printed results (raw text per expr)"""
    name = f"Cases/{tag}_{os.getpid()}.v"
    with open(os.path.join(COQ, name), "w") as fh:
        fh.write(COQ_HEADER.format(extra=extra_imports))
        fh.write(defs + "\n")
        for i, e in enumerate(exprs):
            fh.write(f'Goal True. idtac "BEGIN {i}". Abort.\nEval vm_compute in ({e}).\nGoal True. idtac "END {i}". Abort.\n')
    rc, text = run_coq_files([name], timeout=timeout)[name]
    outs = []
    for i in range(len(exprs)):
        m = re.search(rf"BEGIN {i}\n(.*?)END {i}", text, re.S)
        outs.append(m.group(1).strip() if m else None)
    for ext in (".v", ".vo", ".vok", ".vos", ".glob"):
        try:
            os.unlink(os.path.join(COQ, name[:-2] + ext))
        except OSError:
            pass
    return rc, outs, text


# ------------------------------------------------------------------ evidence / reporting
def write_evidence(prop, tier, seed, coverage, wall, violations, assumptions=None):
    os.makedirs(os.path.join(VERIF, "evidence"), exist_ok=True)
    ev = {
        "property_id": prop,
        "tier": tier,
        "seed": int(seed),
        "level": "proof",
        "coverage": coverage,
        "assumptions": assumptions or [],
        "wall_s": round(wall, 1),
        "violations": violations,
    }
    with open(os.path.join(VERIF, "evidence", f"{prop}.json"), "w") as fh:
        json.dump(ev, fh, indent=1)


def write_replay(prop, payload):
    d = os.path.join(VERIF, "replays", prop)
    os.makedirs(d, exist_ok=True)
    blob = json.dumps(payload, indent=1, sort_keys=True)
    h = hashlib.sha256(blob.encode()).hexdigest()[:12]
    path = os.path.join(d, f"{h}.json")
    with open(path, "w") as fh:
        fh.write(blob)
    return path


def known_findings(prop):
    p = os.path.join(VERIF, "known_findings.json")
    if not os.path.exists(p):
        return []
    with open(p) as fh:
        return [f for f in json.load(fh)["findings"] if f["property"] == prop]


TRUSTED = [
    "Coq 8.16.1 kernel + vm_compute (no native_compute)",
    "no axioms: Print Assumptions reports 'Closed under the global context' for every property theorem",
    "specification models coq/Base/Int32.v, coq/Factorio/Circuit.v (Factorio 2.0 rules as stated in DESIGN.md section 5), coq/Facto/*.v",
    "py/bpexport.py (blueprint JSON -> Coq term: entity configurations with exporter defaults, wire list; the network ids are NOT trusted: "
    "bp_nets_ok (coq/Factorio/Nets.v) re-derives them from the wires inside every kernel-checked case), "
    "py/facto_ast.py / py/facto_rich.py (printer, Coq export and specification-side elaboration of the generator AST)",
    "py/py2v.py translator for coq/Gen/*.v",
]
