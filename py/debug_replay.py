"""debug helper: recompile a replay (or a decls json) and print symbolic terms / blueprint"""
import json, sys, random
sys.path.insert(0, '/verif/py')
import harness as H, scalar_check as S, facto_ast as fa, bpexport, engine
from props.c01 import to_tuple
src = json.load(open(sys.argv[1]))
decls = [to_tuple(d) for d in src["decls"]]
text = src.get("program") or fa.program_text(decls)
print(text)
r = H.compile_many([(text, src.get("options") or {})])[0]
if r[0] != "ok":
    print(r); sys.exit()
j = json.loads(r[1])
if "dump" in sys.argv:
    for e in j['blueprint']['entities']:
        print(e['entity_number'], e['name'][:6], e.get('player_description'), json.dumps(e.get('control_behavior'))[:500])
    print(j['blueprint']['wires'])
    for e in r[2]["edges"]: print(e)
ideal = r[2] if "ideal" in sys.argv else None
ents = src.get("entities")
if ents:
    ents = [dict(e, enable=to_tuple(e["enable"]) if e.get("enable") is not None else None) for e in ents]
defs, expr, meta = S.case_for(0, decls, j, ideal=ideal, entities=ents)
print(meta)
print(S.debug_case(0, defs, meta["entities"])[:8000])
print(S.search_failing_input(0, defs, meta["entities"], meta["n_inputs"], random.Random(1), S.thresholds(decls)))
