"""Geometry family (C08, C09, C18): prototype table from the game data, blueprint JSON -> Coq
`layout` term (coq/Factorio/Geometry.v), a Python mirror of the validators that NAMES the
offending pair / wire / entity after a certificate failed, the relay-partition clause and the
known-finding plumbing shared by py/props/c08.py, c09.py, c18.py.

Units: everything is converted to 1/1000 tile; a number of the game data or of the blueprint
that is not an exact multiple aborts the export (fail closed)."""
from __future__ import annotations

import json
import math
import os
from fractions import Fraction

import bpexport as bx
import harness as H

UNIT = 1000
COMB_TYPES = {"arithmetic-combinator", "decider-combinator", "selector-combinator"}
COMPILER_PROTOS = {"arithmetic-combinator", "decider-combinator", "constant-combinator", "selector-combinator",
                   "small-electric-pole", "medium-electric-pole", "big-electric-pole", "substation"}
POLE_PROTO = {"small": "small-electric-pole", "medium": "medium-electric-pole", "big": "big-electric-pole",
              "substation": "substation"}


class GeomError(Exception):
    pass


def units(x, what=""):
    """exact conversion of a decimal number of tiles to integer units"""
    f = Fraction(str(x)) * UNIT
    if f.denominator != 1:
        raise GeomError(f"{what}: {x} is not a multiple of 1/{UNIT} tile")
    return int(f)


# ------------------------------------------------------------------ prototype table
_TABLE = None


def proto_table():
    """name -> dict(idx, type, box (x1,y1,x2,y2 in units, facing north), tw, th (units), cls,
    creach, kreach, supply, elec) for every entity prototype of the draftsman game data;
    dumped to coq/Gen/prototypes.json on every run (the oracle the property texts name)"""
    global _TABLE
    if _TABLE is not None:
        return _TABLE
    from draftsman.data import entities

    tab = {}
    for idx, name in enumerate(sorted(entities.raw), start=1):
        r = entities.raw[name]
        box = r.get("collision_box")
        if not box:
            continue
        try:
            (x1, y1), (x2, y2) = box
            b = (units(x1), units(y1), units(x2), units(y2))
            tw = r.get("tile_width")
            th = r.get("tile_height")
            # draftsman / the game: footprint = the prototype's tile size, else the box rounded up
            tw = int(tw) if tw is not None else int(math.ceil(Fraction(b[2] - b[0], UNIT)))
            th = int(th) if th is not None else int(math.ceil(Fraction(b[3] - b[1], UNIT)))
            ty = r.get("type")
            cls = "CComb" if ty in COMB_TYPES else ("CPole" if ty == "electric-pole" else "COther")
            if ty == "electric-pole":
                kreach = units(r.get("maximum_wire_distance", 0))
                creach = kreach  # a pole's circuit wires reach as far as its copper wires
                supply = units(r.get("supply_area_distance", 0))
            else:
                kreach = 0
                supply = 0
                creach = units(r.get("circuit_wire_max_distance", 0) or 0)
            es = r.get("energy_source") or {}
            tab[name] = {"idx": idx, "type": ty, "box": b, "tw": tw * UNIT, "th": th * UNIT, "cls": cls,
                         "creach": creach, "kreach": kreach, "supply": supply, "elec": es.get("type") == "electric"}
        except GeomError as e:
            tab[name] = {"idx": idx, "error": str(e)}
    _TABLE = tab
    try:
        os.makedirs(os.path.join(H.COQ, "Gen"), exist_ok=True)
        with open(os.path.join(H.COQ, "Gen", "prototypes.json"), "w") as fh:
            json.dump(tab, fh, indent=0, sort_keys=True)
    except OSError:
        pass
    return tab


def proto(name):
    p = proto_table().get(name)
    if p is None:
        raise GeomError(f"prototype {name} not in the game data")
    if "error" in p:
        raise GeomError(p["error"])
    return p


# ------------------------------------------------------------------ blueprint -> entities
def rotated(p, direction):
    """collision box offsets and footprint for a blueprint direction (16-way, 0 N, 4 E, 8 S, 12 W)"""
    x1, y1, x2, y2 = p["box"]
    tw, th = p["tw"], p["th"]
    d = int(direction or 0) % 16
    if d == 0:
        return (x1, y1, x2, y2), tw, th
    if d == 8:
        return (-x2, -y2, -x1, -y1), tw, th
    if d == 4:
        return (-y2, x1, -y1, x2), th, tw
    if d == 12:
        return (y1, -x2, y2, -x1), th, tw
    raise GeomError(f"direction {direction} is not axis-aligned")


def ents(bpj):
    """list of dicts: id, name, x, y (units), box, tw, th, cls, creach, kreach, supply, elec, idx"""
    out = []
    for e in bx.entities_of(bpj):
        p = proto(e["name"])
        box, tw, th = rotated(p, e.get("direction", 0))
        out.append({"id": int(e["entity_number"]), "name": e["name"], "idx": p["idx"],
                    "x": units(e["position"]["x"], "position"), "y": units(e["position"]["y"], "position"),
                    "box": box, "tw": tw, "th": th, "cls": p["cls"], "creach": p["creach"], "kreach": p["kreach"],
                    "supply": p["supply"], "elec": p["elec"]})
    return out


def zc(n):
    return f"({n})" if n < 0 else str(n)


def layout_term(bpj, name):
    """Coq text defining `name : layout`; one constructor function per prototype (and rotation)
    keeps the term small"""
    es = ents(bpj)
    ctors = {}
    defs = []
    items = []
    for e in es:
        key = (e["name"], e["box"], e["tw"], e["th"])
        if key not in ctors:
            cn = f"{name}_p{len(ctors)}"
            ctors[key] = cn
            b = e["box"]
            defs.append(
                f"Definition {cn} (i x y : Z) : entity := {{| e_id := i; e_proto := {e['idx']}%positive; e_x := x; e_y := y; "
                f"e_bx1 := {zc(b[0])}; e_by1 := {zc(b[1])}; e_bx2 := {zc(b[2])}; e_by2 := {zc(b[3])}; "
                f"e_tw := {e['tw']}; e_th := {e['th']}; e_class := {e['cls']}; e_creach := {e['creach']}; "
                f"e_kreach := {e['kreach']}; e_supply := {e['supply']}; e_elec := {'true' if e['elec'] else 'false'} |}}."
                f" (* {e['name']} *)")
        items.append(f"{ctors[key]} {e['id']} {zc(e['x'])} {zc(e['y'])}")
    ws = []
    for w in bx.wires_of(bpj):
        if len(w) != 4:
            raise GeomError(f"wire {w} is not [e1, c1, e2, c2]")
        ws.append("{| w_e1 := %s; w_c1 := %s; w_e2 := %s; w_c2 := %s |}" % tuple(zc(int(v)) for v in w))
    body = ";\n  ".join(items)
    wtxt = ";\n  ".join(ws)
    defs.append(f"Definition {name} : layout := {{| l_unit := {UNIT}; l_ents := [\n  {body}];\n l_wires := [\n  {wtxt}] |}}.")
    return "\n".join(defs) + "\n"


def placed_term(expected):
    """expected: list of (prototype name, tile x, tile y) -> Coq list of `placed`"""
    return "[" + "; ".join(
        f"{{| p_proto := {proto(n)['idx']}%positive; p_tx := {zc(int(x))}; p_ty := {zc(int(y))} |}}" for n, x, y in expected) + "]"


def user_protos_term(names):
    return "[" + "; ".join(f"{proto(n)['idx']}%positive" for n in sorted(names)) + "]"


# ------------------------------------------------------------------ mirror of the validators
def dist2(a, b):
    return (a["x"] - b["x"]) ** 2 + (a["y"] - b["y"]) ** 2


def tiles(v):
    return v / UNIT


def describe(e):
    return {"entity_number": e["id"], "name": e["name"], "centre": [tiles(e["x"]), tiles(e["y"])],
            "collision_box": [[tiles(e["x"] + e["box"][0]), tiles(e["y"] + e["box"][1])],
                              [tiles(e["x"] + e["box"][2]), tiles(e["y"] + e["box"][3])]]}


def connector_ok(e, c):
    if e["cls"] == "CComb":
        return 1 <= c <= 4
    if e["cls"] == "CPole":
        return c in (1, 2, 5)
    return c in (1, 2)


def colour(c):
    return {1: "red", 3: "red", 2: "green", 4: "green", 5: "copper"}.get(c)


def layout_failures(bpj, limit=20):
    """what valid_layout refuses, with the offending entities / wire named"""
    es = ents(bpj)
    out = []
    ids = [e["id"] for e in es]
    if len(set(ids)) != len(ids):
        out.append({"kind": "duplicate-entity-number"})
    # overlaps: sweep over x-sorted boxes (the Coq validator checks all pairs)
    order = sorted(es, key=lambda e: e["x"] + e["box"][0])
    for i, a in enumerate(order):
        ax2 = a["x"] + a["box"][2]
        for b in order[i + 1:]:
            if b["x"] + b["box"][0] >= ax2:
                break
            if not (a["y"] + a["box"][3] <= b["y"] + b["box"][1] or b["y"] + b["box"][3] <= a["y"] + a["box"][1]):
                out.append({"kind": "overlap", "a": describe(a), "b": describe(b)})
                if len(out) >= limit:
                    return out
    by = {e["id"]: e for e in es}
    for w in bx.wires_of(bpj):
        e1, c1, e2, c2 = (int(v) for v in w)
        a, b = by.get(e1), by.get(e2)
        if a is None or b is None:
            out.append({"kind": "wire-endpoint-missing", "wire": list(w)})
        elif not connector_ok(a, c1) or not connector_ok(b, c2):
            out.append({"kind": "no-such-connector", "wire": list(w), "a": describe(a), "b": describe(b)})
        elif colour(c1) is None or colour(c1) != colour(c2):
            out.append({"kind": "colour-mismatch", "wire": list(w)})
        elif c1 != 5:
            d2 = dist2(a, b)
            r = min(a["creach"], b["creach"])
            if d2 > a["creach"] ** 2 or d2 > b["creach"] ** 2:
                out.append({"kind": "circuit-wire-too-long", "wire": list(w), "a": describe(a), "b": describe(b),
                            "distance": math.sqrt(d2) / UNIT, "reach": r / UNIT,
                            "reach_a": a["creach"] / UNIT, "reach_b": b["creach"] / UNIT})
        if len(out) >= limit:
            break
    return out


def supplies(p, e):
    return (2 * e["x"] - e["tw"] < 2 * p["x"] + 2 * p["supply"] and 2 * p["x"] - 2 * p["supply"] < 2 * e["x"] + e["tw"]
            and 2 * e["y"] - e["th"] < 2 * p["y"] + 2 * p["supply"] and 2 * p["y"] - 2 * p["supply"] < 2 * e["y"] + e["th"])


def pole_failures(bpj, pole_name, limit=20):
    """what poles_ok refuses: uncovered consumers, bad copper wires, copper components"""
    es = ents(bpj)
    by = {e["id"]: e for e in es}
    poles = [e for e in es if e["cls"] == "CPole"]
    tpoles = [p for p in poles if p["name"] == pole_name]
    out = []
    unc = [e for e in es if e["elec"] and not any(supplies(p, e) for p in tpoles)]
    for e in unc[:limit]:
        near = min(tpoles, key=lambda p: max(abs(p["x"] - e["x"]), abs(p["y"] - e["y"])), default=None)
        d = {"kind": "uncovered", "entity": describe(e), "uncovered_total": len(unc), "consumers_total": sum(1 for x in es if x["elec"])}
        if near is not None:
            d["nearest_pole"] = describe(near)
            d["supply_area_distance"] = near["supply"] / UNIT
            d["chebyshev_gap_tiles"] = max(abs(near["x"] - e["x"]) - e["tw"] / 2, abs(near["y"] - e["y"]) - e["th"] / 2) / UNIT
        out.append(d)
    dsu = bx.DSU()
    for w in bx.wires_of(bpj):
        e1, c1, e2, c2 = (int(v) for v in w)
        if c1 != 5:
            continue
        a, b = by.get(e1), by.get(e2)
        if a is None or b is None or a["cls"] != "CPole" or b["cls"] != "CPole":
            out.append({"kind": "copper-wire-not-between-poles", "wire": list(w)})
            continue
        d2 = dist2(a, b)
        if d2 > a["kreach"] ** 2 or d2 > b["kreach"] ** 2:
            out.append({"kind": "copper-wire-too-long", "wire": list(w), "a": describe(a), "b": describe(b),
                        "distance": math.sqrt(d2) / UNIT, "reach": min(a["kreach"], b["kreach"]) / UNIT})
        if c2 == 5:
            dsu.union(e1, e2)
    comps = {}
    for p in poles:
        comps.setdefault(dsu.find(p["id"]), []).append(p)
    if len(comps) > 1:
        cl = sorted(comps.values(), key=len, reverse=True)
        out.append({"kind": "grid-disconnected", "components": len(cl), "sizes": [len(c) for c in cl],
                    "a": describe(cl[0][0]), "b": describe(cl[1][0]),
                    "gap_tiles": min(math.sqrt(dist2(x, y)) for x in cl[0] for y in cl[1]) / UNIT,
                    "copper_reach": min(cl[0][0]["kreach"], cl[1][0]["kreach"]) / UNIT})
    return out


def off_grid(bpj):
    """entities whose footprint corners are not on tile boundaries (observation only: the property texts
    do not speak about grid alignment; the game snaps such an entity when the blueprint is pasted)"""
    return [describe(e) for e in ents(bpj)
            if (2 * e["x"] - e["tw"]) % (2 * UNIT) or (2 * e["y"] - e["th"]) % (2 * UNIT)]


def idle_poles(bpj):
    """poles without a circuit wire (what relays_only refuses)"""
    es = ents(bpj)
    wired = set()
    for w in bx.wires_of(bpj):
        if int(w[1]) != 5:
            wired.add(int(w[0]))
            wired.add(int(w[2]))
    return [describe(e) for e in es if e["cls"] == "CPole" and e["id"] not in wired]


def user_entities(bpj, user_names):
    """(name, top-left tile x, y, entity dict) of the blueprint entities of the user prototypes"""
    out = []
    raw = {int(e["entity_number"]): e for e in bx.entities_of(bpj)}
    for e in ents(bpj):
        if e["name"] in user_names:
            tx = Fraction(2 * e["x"] - e["tw"], 2 * UNIT)
            ty = Fraction(2 * e["y"] - e["th"], 2 * UNIT)
            out.append((e["name"], tx, ty, raw[e["id"]]))
    return out


def placed_failures(bpj, expected, user_names):
    """multiset difference between expected (name, x, y) and the blueprint's user entities"""
    got = {}
    for n, tx, ty, _ in user_entities(bpj, user_names):
        got[(n, tx, ty)] = got.get((n, tx, ty), 0) + 1
    exp = {}
    for n, x, y in expected:
        exp[(n, Fraction(x), Fraction(y))] = exp.get((n, Fraction(x), Fraction(y)), 0) + 1
    missing = [k for k, c in exp.items() if got.get(k, 0) < c]
    extra = [k for k, c in got.items() if exp.get(k, 0) < c]
    f = lambda ks: [[k[0], float(k[1]), float(k[2])] for k in sorted(ks)]
    if not missing and not extra:
        return None
    return {"kind": "placement-mismatch", "missing": f(missing)[:12], "unexpected": f(extra)[:12],
            "missing_total": len(missing), "unexpected_total": len(extra),
            "expected_total": len(expected), "entities_total": len(bx.entities_of(bpj))}


# ------------------------------------------------------------------ relay-partition clause
def partition_check(bpj, harvest):
    """the partition of non-pole connectors induced by the blueprint's circuit wires against the
    partition implied by the compiler's own logical edges (relay chains contracted).
    returns (status, detail): 'equal' | 'differs' | 'undecided'"""
    if not harvest or "edges" not in harvest:
        return "undecided", {"why": "no logical edges harvested"}
    try:
        actual = bx.partition_actual(bpj)
    except bx.Unsupported as e:
        return "differs", {"why": str(e)}
    note = None
    expected = bx.partition_expected(bpj, harvest)
    if expected is None:
        # an edge endpoint that has no entity (region of S17): compare on the edges that have both
        num = bx.id_to_number(bpj, harvest)
        h2 = dict(harvest)
        h2["edges"] = [e for e in harvest["edges"] if e[0] in num and e[1] in num]
        note = f"{len(harvest['edges']) - len(h2['edges'])} logical edges without an entity ignored"
        expected = bx.partition_expected(bpj, h2)
    if expected == actual:
        return "equal", {"blocks": len(actual), "note": note}
    # which blocks were merged / split
    names = {e["entity_number"]: e["name"] for e in bx.entities_of(bpj)}
    merged = [sorted(a) for a in actual if not any(a <= x for x in expected)]
    split = [sorted(x) for x in expected if not any(x <= a for a in actual)]
    fmt = lambda blocks: [[[en, c, names.get(en)] for en, c in blk] for blk in blocks[:4]]
    return "differs", {"joined_by_wires_but_not_by_design": fmt(merged), "designed_but_not_wired": fmt(split), "note": note}


def extra_wires_region(bpj, harvest):
    """wires the compiler adds outside its routed edge list (memory / latch feedback): the oracle
    of the partition clause does not describe them"""
    places = (harvest or {}).get("places", {})
    return any(v[3] and ("memory" in str(v[3]) or "latch" in str(v[3])) for v in places.values())


# ------------------------------------------------------------------ known findings (both files)
def known_findings(prop):
    out = list(H.known_findings(prop))
    p = os.path.join(H.VERIF, "known_findings.geom.json")
    if os.path.exists(p):
        with open(p) as fh:
            seen = {f["id"] for f in out}
            out += [f for f in json.load(fh)["findings"] if f["property"] == prop and f["id"] not in seen]
    return out


# ------------------------------------------------------------------ programs
def chain_program(n, seed=0):
    """n-statement arithmetic chain over three inputs (a long, narrow dependency graph)"""
    import random

    r = random.Random(seed)
    lines = ['Signal i0 = ("signal-A", 5);', 'Signal i1 = ("signal-B", 7);', 'Signal i2 = ("signal-C", 11);']
    names = ["i0", "i1", "i2"]
    for k in range(n):
        a = names[-1]
        b = r.choice(names)
        op = r.choice(["+", "-", "*", "+", "-"])
        c = r.choice([1, 2, 3, 5, 7])
        lines.append(f"Signal s{k} = ({a} {op} {b}) + {c};" if r.random() < 0.5 else f"Signal s{k} = {a} {op} {c};")
        names.append(f"s{k}")
    return "\n".join(lines) + "\n"


def lamp_rows_program(rows, extra=None):
    """rows: list of (count, y, wired).  Each row is a loop placing `count` lamps at (0..count-1, y),
    wired rows are enabled by one shared signal (so the row is one connected component).
    returns (text, expected placements)"""
    lines = ['Signal go = ("signal-A", 1);']
    exp = []
    for k, (count, y, wired) in enumerate(rows):
        lines.append(f"for i{k} in 0..{count} {{")
        lines.append(f'    Entity l{k} = place("small-lamp", i{k}, {y});')
        if wired:
            lines.append(f"    l{k}.enable = go > 0;")
        lines.append("}")
        exp += [("small-lamp", x, y) for x in range(count)]
    for line in extra or []:
        lines.append(line)
    return "\n".join(lines) + "\n", exp


# ------------------------------------------------------------------ configurations, cases
POLES = [None, "small", "medium", "big", "substation"]
ALL_CONFIGS = [(p, o, tl) for p in POLES for o in (True, False) for tl in (0, 1, None)]


def opts_of(cfg):
    p, o, tl = cfg
    d = {"power_pole_type": p, "optimize": o}
    if tl is not None:
        d["time_limit"] = tl
    return d


def explicit_steps(stmts):
    """a descending range written without a step gets an explicit `step -1` (the documents give
    the default step as 1, the specification function of C16 as -1 for start > stop: that
    question belongs to C16 and is kept out of the geometry checks)"""
    out = []
    for s in stmts:
        if s[0] == "for":
            it = s[2]
            if it[0] == "range" and it[3] is None and isinstance(it[1], int) and isinstance(it[2], int) and it[1] > it[2]:
                it = ("range", it[1], it[2], -1)
            out.append(("for", s[1], it, explicit_steps(s[3])))
        else:
            out.append(s)
    return out


def rich_program(seed, need_lamps=0):
    """(text, expected placements [(proto, x, y)], entity count estimate) from gen_rich"""
    import facto_rich as fr
    import gen_rich

    for k in range(40):
        st, el = gen_rich.gen_rich(seed * 40 + k)
        st = explicit_steps(st)
        try:
            el = fr.elaborate(st)
        except Exception:  # noqa: BLE001
            continue
        pos = [(e["x"], e["y"]) for e in el.entities]
        if len(el.entities) >= need_lamps and len(set(pos)) == len(pos):
            return fr.text(st), [(e["proto"], e["x"], e["y"]) for e in el.entities]
    raise GeomError("no rich program found")


def scalar_program(seed):
    import facto_ast as fa
    import gen_scalar

    i = 0
    while True:
        p = gen_scalar.gen_program(seed * 1000003 + i)
        i += 1
        if max(fa.unfolded_size(p)) < 300:
            return fa.program_text(p)


HAND_PROGRAMS = [
    # (name, text, expected placements, static properties to compare: {(proto,x,y): {json key: value}})
    ("multi-tile", '''Signal go = ("signal-A", 1);
Signal h = go * 2;
int base = 6;
Entity asm = place("assembling-machine-1", base * 2, -7);
Entity chest = place("steel-chest", -9, base - 2);
Entity st = place("train-stop", 20, 8, {station: "Iron Pickup"});
Entity sw = place("power-switch", -4, -12);
Entity l1 = place("small-lamp", base + 1, base);
l1.enable = h > 1;
Entity l2 = place("small-lamp", 0 - base, 0 - base, {use_colors: 1, always_on: 1});
l2.enable = h > 2;
Entity ins = place("inserter", 3, -9, {direction: 4, override_stack_size: 2});
Entity asm2 = place("assembling-machine-1", -15, 9, {recipe: "iron-gear-wheel"});
''', [("assembling-machine-1", 12, -7), ("steel-chest", -9, 4), ("train-stop", 20, 8), ("power-switch", -4, -12),
      ("small-lamp", 7, 6), ("small-lamp", -6, -6), ("inserter", 3, -9), ("assembling-machine-1", -15, 9)],
     {("train-stop", 20, 8): {"station": "Iron Pickup"}, ("small-lamp", -6, -6): {"use_colors": True, "always_on": True},
      ("inserter", 3, -9): {"direction": 4, "override_stack_size": 2},
      ("assembling-machine-1", -15, 9): {"recipe": "iron-gear-wheel"}}),
    ("negative-far", '''Signal go = ("signal-B", 3);
Signal h = go + 4;
for i in -3..3 {
    Entity l = place("small-lamp", i * 11, -25 + i);
    l.enable = h > i;
}
''', [("small-lamp", i * 11, -25 + i) for i in range(-3, 3)], {}),
    ("int-arith", '''Signal go = ("signal-C", 3);
Signal h = go - 1;
int w = 4;
int k = w * 3 - 2;
for r in 0..3 {
    for c in 0..w {
        Entity l = place("small-lamp", c * 2 - k, r * 3 + w);
        l.enable = h > c + r;
    }
}
''', [("small-lamp", c * 2 - 10, r * 3 + 4) for r in range(3) for c in range(4)], {}),
    ("unwired", '''Signal go = ("signal-A", 2);
Signal out = go * 3;
Entity a = place("small-lamp", 30, 30);
Entity b = place("small-lamp", -30, 30);
Entity c = place("iron-chest", 5, -20);
''', [("small-lamp", 30, 30), ("small-lamp", -30, 30), ("iron-chest", 5, -20)], {}),
]


def user_names_of(expected):
    return {n for n, _, _ in expected}


class Case:
    def __init__(self, cid, text, cfg, kind, expected=None, props=None, note=None):
        self.cid, self.text, self.cfg, self.kind = str(cid), text, cfg, kind
        self.expected = expected  # None: the program places nothing we know of
        self.props = props or {}
        self.note = note
        self.fault = False  # compiled by the fault-injecting workers
        self.status = None  # ok | rejected | error
        self.msg = None
        self.bpj = None
        self.harvest = None

    @property
    def opts(self):
        return opts_of(self.cfg)

    def describe(self):
        d = {"program": self.text, "options": self.opts, "kind": self.kind}
        if self.fault:
            d["fault_injection"] = f"the first {FAULT_FAILS} calls of IntegerLayoutEngine._solve_with_strategy of every layout attempt fail"
        return d


def compile_cases(cases):
    res = H.compile_many([(c.text, c.opts) for c in cases])
    for c, r in zip(cases, res):
        c.status = r[0]
        if r[0] == "ok":
            try:
                c.bpj = json.loads(r[1])
                c.harvest = r[2] if len(r) > 2 else None
            except ValueError as e:
                c.status, c.msg = "error", f"blueprint is not JSON: {e}"
        else:
            c.msg = r[1]
    return cases


# ------------------------------------------------------------------ regions of the known findings
CFG_RADIUS = {"small": 2500, "medium": 3500, "big": 5000, "substation": 9000}  # what the pinned compiler plans with (S7: big)
RELAY_SPAN = 9000  # the relay router's span, whatever the pole prototype (S7: small poles reach 7.5)


def entity_total(bpj):
    return len(bx.entities_of(bpj))


def mismarked_tiles(expected):
    """finding G1: before optimisation TileGrid.rebuild_from_placements reads the TILE position of a
    user-placed entity as its CENTRE, so the w x h tiles from int(x - w/2), int(y - h/2) (truncated) are
    marked occupied instead of those from (x, y)"""
    out = set()
    for n, x, y in expected:
        p = proto(n)
        w, h = p["tw"] // UNIT, p["th"] // UNIT
        mx, my = int(x - w / 2.0), int(y - h / 2.0)
        out |= {(mx + i, my + j) for i in range(w) for j in range(h)}
    return out


def planned_grid(case, n_entities):
    """the pole grid PowerPlanner.add_power_pole_grid of the pinned tree plans for this program (needed
    only to tell the listed findings G1 and G2 apart): lattice of spacing 2 x CFG_RADIUS over the extent
    estimated from the entity count and the user placements.  returns (planned centres, skipped centres)
    in units; skipped = planned poles whose footprint meets a tile marked (wrongly) for a user entity"""
    pole = case.cfg[0]
    pp = proto(POLE_PROTO[pole])
    fw, fh = pp["tw"] // UNIT, pp["th"] // UNIT
    r = CFG_RADIUS[pole] / UNIT
    est = math.sqrt(n_entities * 3.5 * 3.5) + 10.0
    exp = case.expected or []
    if exp:
        umin_x = min([0.0] + [float(x) for _, x, _ in exp])
        umin_y = min([0.0] + [float(y) for _, _, y in exp])
        umax_x = max([0.0] + [x + proto(n)["tw"] // UNIT for n, x, _ in exp])
        umax_y = max([0.0] + [y + proto(n)["th"] // UNIT for n, _, y in exp])
        width = max(est, umax_x - umin_x + 10.0)
        height = max(est, umax_y - umin_y + 10.0)
        off_x, off_y = min(0.0, umin_x) - 5.0, min(0.0, umin_y) - 5.0
    else:
        width = height = est
        off_x = off_y = 0.0
    spacing = 2.0 * r
    base = -spacing / 2.0 + fw / 2.0
    marked = mismarked_tiles(exp)
    planned, skipped = [], []
    x = off_x + base
    while x < off_x + width:
        y = off_y + base
        while y < off_y + height:
            tx, ty = int(round(x)), int(round(y))
            c = (tx * UNIT + pp["tw"] // 2, ty * UNIT + pp["th"] // 2)
            planned.append(c)
            if any((tx + i, ty + j) in marked for i in range(fw) for j in range(fh)):
                skipped.append(c)
            y += spacing
        x += spacing
    return planned, set(skipped)


def classify_uncovered(case, e, tpoles, n_entities):
    """which listed region explains that consumer e (ents() dict) is outside every supply square"""
    pole = case.cfg[0]
    r = CFG_RADIUS[pole]
    if pole == "big" and any(supplies(dict(p, supply=r), e) for p in tpoles):
        return "S7-big"
    planned, skipped = planned_grid(case, n_entities)
    # the planner keeps a pole when some entity CENTRE is within the radius (LayoutPlanner._trim_power_poles)
    near = [c for c in planned if abs(c[0] - e["x"]) <= r and abs(c[1] - e["y"]) <= r]
    if not near:
        return "G2"  # beyond the planned extent
    if all(c in skipped for c in near):
        return "G1"  # the planned pole was skipped because of a wrongly marked tile
    return None


def pole_roles(case):
    """entity_number -> role of the compiler's placement ('power_pole' | 'wire_relay'), when harvested"""
    h = case.harvest or {}
    if "places" not in h:
        return {}
    num = bx.id_to_number(case.bpj, h)
    return {n: h["places"][pid][3] for pid, n in num.items() if h["places"][pid][0] in bx.POLES}


def nearest_rank(a, b, poles):
    """how many poles other than a and b lie at least as near to a as b does (with ties the sort order of
    the emitter decides, so only a count below the cut proves that b was among the candidates tried)"""
    d = dist2(a, b)
    return sum(1 for p in poles if p["id"] != a["id"] and p["id"] != b["id"] and dist2(a, p) <= d)


def classify_pole_failure(case, f, es, roles, s8=False):
    k = f["kind"]
    pole = case.cfg[0]
    if s8 and k in ("uncovered", "grid-disconnected"):
        # the decomposition path treats every grid pole as a component of its own and shifts it away
        return "S8"
    if k == "uncovered":
        by = {e["id"]: e for e in es}
        tp = [p for p in es if p["cls"] == "CPole" and p["name"] == POLE_PROTO[pole]]
        return classify_uncovered(case, by[f["entity"]["entity_number"]], tp, sum(1 for x in es if x["cls"] != "CPole"))
    if k == "grid-disconnected":
        # G3: the components are farther apart than any copper wire could span
        if not f["cross_pairs_within_reach"]:
            return "G3"
        # G4: every legal wire between two components joins poles that are not among each other's
        # nearest neighbours (5 for grid poles, 2 for relays): the emitter never tried them
        poles = [e for e in es if e["cls"] == "CPole"]
        by = {e["id"]: e for e in poles}
        for ia, ib in f["cross_pairs_within_reach"]:
            a, b = by[ia], by[ib]
            ka = 2 if roles.get(ia) == "wire_relay" else 5
            kb = 2 if roles.get(ib) == "wire_relay" else 5
            if nearest_rank(a, b, poles) < ka or nearest_rank(b, a, poles) < kb:
                return None
        return "G4"
    return None


def pole_failures_classified(case):
    """[(failure dict, finding id or None)] for a build with a pole option"""
    es = ents(case.bpj)
    pole_name = POLE_PROTO[case.cfg[0]]
    fs = pole_failures(case.bpj, pole_name, limit=10 ** 6)
    roles = pole_roles(case)
    # enrich grid-disconnected with the pole pairs of different components that a legal wire could join
    dsu = bx.DSU()
    for w in bx.wires_of(case.bpj):
        if int(w[1]) == 5 and int(w[3]) == 5:
            dsu.union(int(w[0]), int(w[2]))
    poles = [e for e in es if e["cls"] == "CPole"]
    for f in fs:
        if f["kind"] == "grid-disconnected":
            pairs = []
            for i, a in enumerate(poles):
                for b in poles[i + 1:]:
                    if dsu.find(a["id"]) != dsu.find(b["id"]):
                        d2 = dist2(a, b)
                        if d2 <= a["kreach"] ** 2 and d2 <= b["kreach"] ** 2:
                            pairs.append((a["id"], b["id"]))
            f["cross_pairs_within_reach"] = pairs
            if pairs:
                a, b = [p for p in poles if p["id"] == pairs[0][0]][0], [p for p in poles if p["id"] == pairs[0][1]][0]
                f["unwired_pair_within_reach"] = {"a": describe(a), "b": describe(b), "distance": math.sqrt(dist2(a, b)) / UNIT,
                                                  "nearer_poles_than_partner": [nearest_rank(a, b, poles), nearest_rank(b, a, poles)]}
    s8 = bool(fs) and s8_region(case)
    out = [(f, classify_pole_failure(case, f, es, roles, s8)) for f in fs]
    for f, _ in out:
        if "cross_pairs_within_reach" in f:
            f["cross_pairs_within_reach"] = f["cross_pairs_within_reach"][:10]
    return out


def classify_layout_failure(case, f):
    if f["kind"] == "circuit-wire-too-long":
        ends = [f["a"]["name"], f["b"]["name"]]
        if "small-electric-pole" in ends and f["distance"] * UNIT <= RELAY_SPAN + 1e-6 and f["reach"] == 7.5:
            return "S7-small"
    return None


def classify_compile_error(case, baseline_ok):
    """G1: with a pole option and user-placed entities the layout stage reports that no feasible layout
    exists although the pole-less build of the same program succeeds"""
    if case.cfg[0] and case.expected and baseline_ok and "Failed to find feasible layout" in (case.msg or ""):
        return "G1"
    return None


def s8_region(case):
    """finding S8: the layout engine sees more than 500 entities and takes _optimize_with_decomposition.
    What it sees is every circuit entity plus every PLANNED grid pole (poles are trimmed only afterwards),
    so with a pole option the count is recomputed from the planned grid"""
    if entity_total(case.bpj) > 500:
        return True
    if case.cfg[0]:
        es = ents(case.bpj)
        n = sum(1 for e in es if e["cls"] != "CPole")
        planned, skipped = planned_grid(case, n)
        return n + len(planned) - len(skipped) > 500
    return False


def witnesses(prop):
    """[(finding, Case)] for the listed findings of this property that carry a witness program"""
    out = []
    for f in known_findings(prop):
        w = f.get("witness")
        if f.get("kind") != "finding" or not w:
            continue
        if "lamp_rows" in w:
            # large witness given by its generator arguments: rows of (count, y, wired) lamps
            w = dict(w)
            w["text"], exp_rows = lamp_rows_program([tuple(r) for r in w["lamp_rows"]])
            w["expected"] = [list(x) for x in exp_rows]
        if "text" not in w:
            continue
        o = w.get("opts", {})
        cfg = (o.get("power_pole_type"), o.get("optimize", True), o.get("time_limit"))
        exp = [tuple(x) for x in w["expected"]] if w.get("expected") is not None else None
        text = w["text"]
        out.append((f, Case("w" + f["id"].replace("-", "_"), text, cfg, "witness", expected=exp)))
    return out


def static_props_failures(case):
    """C09, static properties: every property given in place(...) is on the emitted entity"""
    out = []
    for n, tx, ty, raw in user_entities(case.bpj, user_names_of(case.expected or [])):
        want = case.props.get((n, int(tx), int(ty)))
        for k, v in (want or {}).items():
            # draftsman serialises a property at the top level of the entity or inside control_behavior
            got = raw.get(k, (raw.get("control_behavior") or {}).get(k))
            if got != v:
                out.append({"kind": "static-property", "entity": [n, int(tx), int(ty)], "property": k, "expected": v,
                            "observed": got})
    return out


def far_program(seed):
    """lamps far apart, driven by two different producers: forces relay chains (and, with a pole
    option, a pole grid that has to span the gaps)"""
    import random

    r = random.Random(seed)
    n = r.randint(3, 5)
    pos = set()
    while len(pos) < n:
        pos.add((r.randint(-35, 35), r.randint(-20, 20)))
    pos = sorted(pos)
    lines = ['Signal p = ("signal-A", 3);', 'Signal q = ("signal-B", 4);', "Signal u = p * 2;", "Signal v = q + p;"]
    for k, (x, y) in enumerate(pos):
        lines.append(f'Entity l{k} = place("small-lamp", {x}, {y});')
        lines.append(f"l{k}.enable = {r.choice(['u', 'v'])} > {k};")
    return "\n".join(lines) + "\n", [("small-lamp", x, y) for x, y in pos]


def obstacle_program(seed):
    """a user-placed chest drives a lamp 14-22 tiles away in one of eight directions (a relay chain is
    needed), and a block of unrelated user-placed entities lies across the way -- where a relay pole would
    like to stand.  Exercises the occupancy map at negative and positive coordinates alike."""
    import random

    r = random.Random(seed)
    dx, dy = r.choice([(1, 0), (-1, 0), (0, 1), (0, -1), (-1, -1), (1, -1), (-1, 1), (1, 1)])
    dist = r.randint(14, 22)
    ox, oy = r.choice([(0, 0), (0, 0), (r.randint(-6, 6), r.randint(-6, 6))])
    fx, fy = ox + dx * dist, oy + dy * dist
    lines = [f'Entity src = place("steel-chest", {ox}, {oy});',
             f'Entity far = place("small-lamp", {fx}, {fy});',
             'far.enable = src.output["iron-plate"] > 100;']
    exp = [("steel-chest", ox, oy), ("small-lamp", fx, fy)]
    used = {(ox, oy), (fx, fy)}
    k = 0
    # the block: every tile at distance 5..10 along the way, one or two tiles to each side
    w = r.choice([0, 1, 1, 2])
    for t in range(5, 11):
        for s in range(-w, w + 1):
            x, y = ox + dx * t + (-dy if dx and dy else (0 if dx else s)) * (s if dx and dy else 1), \
                   oy + dy * t + (dx if dx and dy else (s if dx else 0)) * (s if dx and dy else 1)
            if (x, y) in used or r.random() < 0.15:
                continue
            used.add((x, y))
            proto = r.choice(["small-lamp", "small-lamp", "steel-chest", "iron-chest"])
            lines.append(f'Entity ob{k} = place("{proto}", {x}, {y});')
            if proto == "small-lamp" and r.random() < 0.4:
                lines.append(f'ob{k}.enable = src.output["copper-plate"] > {k};')
            exp.append((proto, x, y))
            k += 1
    return "\n".join(lines) + "\n", exp


# ------------------------------------------------------------------ twin: pole build vs pole-less build
def logical_view(bpj, harvest):
    """the circuit without poles, in terms of the compiler's placement ids: configuration of every
    non-pole entity and the partition of their connectors"""
    if not harvest or "places" not in harvest:
        return None
    num = bx.id_to_number(bpj, harvest)
    back = {}
    for pid, n in num.items():
        back.setdefault(n, pid)
    raw = {int(e["entity_number"]): e for e in bx.entities_of(bpj)}
    cfg = {}
    for n, e in raw.items():
        if e["name"] in bx.POLES:
            continue
        pid = back.get(n)
        if pid is None:
            return None
        rest = {k: v for k, v in e.items() if k not in ("entity_number", "position", "player_description")}
        cfg[pid] = json.dumps(rest, sort_keys=True)
    part = {frozenset((back[en], c) for en, c in blk) for blk in bx.partition_actual(bpj)}
    return cfg, part


def twin_diff(with_poles, without):
    """None if the two builds are the same circuit (same entities, same configuration, same networks
    up to relays); else a description of the first difference"""
    a = logical_view(with_poles.bpj, with_poles.harvest)
    b = logical_view(without.bpj, without.harvest)
    if a is None or b is None:
        return {"kind": "twin-undecided"}
    if set(a[0]) != set(b[0]):
        return {"kind": "twin-entities", "only_with_poles": sorted(set(a[0]) - set(b[0]))[:5],
                "only_without": sorted(set(b[0]) - set(a[0]))[:5]}
    for pid in sorted(a[0]):
        if a[0][pid] != b[0][pid]:
            return {"kind": "twin-configuration", "entity": pid, "with_poles": a[0][pid][:600], "without": b[0][pid][:600]}
    if a[1] != b[1]:
        f = lambda blocks: [sorted(map(list, blk)) for blk in list(blocks)[:3]]
        return {"kind": "twin-networks", "only_with_poles": f(a[1] - b[1]), "only_without": f(b[1] - a[1])}
    return None


# ------------------------------------------------------------------ fault injection (harness side)
# The property quantifies over every outcome of the layout search, also after failed attempts.  These
# workers run the same public entry point, but the first FAULT_FAILS calls of
# IntegerLayoutEngine._solve_with_strategy of every layout attempt report "no solution", which sends the
# engine down its relaxation ladder (/repo is not modified; the patch lives in the worker processes).
FAULT_FAILS = 2
_fault_pool = None


def _init_fault_worker():
    H._init_worker()
    from dsl_compiler.src.layout import integer_layout_solver as ils

    orig = ils.IntegerLayoutEngine._solve_with_strategy

    def wrapped(self, strategy, *a, **k):
        n = getattr(self, "_verif_calls", 0)
        self._verif_calls = n + 1
        if n < FAULT_FAILS:
            return ils.OptimizationResult(positions={}, violations=0, total_wire_length=0, success=False,
                                          strategy_used=str(strategy.get("name", "?")), solve_time=0.0)
        return orig(self, strategy, *a, **k)

    ils.IntegerLayoutEngine._solve_with_strategy = wrapped


def compile_cases_faulty(cases):
    """like compile_cases, with the first solver calls of every layout attempt failing"""
    global _fault_pool
    if not cases:
        return cases
    if _fault_pool is None:
        import multiprocessing as mp

        _fault_pool = mp.get_context("fork").Pool(H.NPROC, initializer=_init_fault_worker)
    res = _fault_pool.map(H._compile_one, [(c.text, c.opts) for c in cases], chunksize=1)
    for c, r in zip(cases, res):
        c.status = r[0]
        if r[0] == "ok":
            c.bpj = json.loads(r[1])
            c.harvest = r[2] if len(r) > 2 else None
        else:
            c.msg = r[1]
    return cases
