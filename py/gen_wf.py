"""Generator for property C14 (ill-formed programs are rejected).

A small generator-side AST (the Python mirror of coq/Facto/Wf.v), its printer to Facto text (fully
parenthesised: precedence is C01's business, not C14's), its export as a Coq `program` term, the
conversion of accepted programs of gen_rich / gen_scalar into it, and the mutation engine:

  host program (accepted)  +  context shape (top / func / loop / func>loop / loop>loop / ...)
                           +  rule  ->  (base program, mutant program)

where base and mutant differ in exactly the seeded violation: both contain the host, the frames
of the context and the (valid) set-up statements of the rule; the base has the harmless variant
of the statement, the mutant the violating one.  Every choice derives from one PRNG.

expressions:  ('int', z) ('var', x) ('lit', ty, e) ('proj', e, ty) ('bin', op, a, b)
              ('cmp', op, a, b) ('and'|'or', a, b) ('not'|'neg', a) ('call', f, [args])
              ('bundle', [els]) ('sel', e, ty) ('any'|'all', e) ('read', m) ('out', c, v)
              ('place', proto, x, y, props|None)
statements:   ('decl', 'int'|'Signal'|'Bundle'|'Entity', x, e) ('mem', x, ty|None)
              ('assign', x, e) ('enable', ent, prop, e) ('write', m, v, when|None) ('expr', e)
              ('ret', e) ('func', f, [(kind, p)..], body) ('for', it, iter, body)
              iter = ('range', a, b, step|None) with int or name bounds | ('list', [ints])
"""
from __future__ import annotations

import random

import facto_ast as fa
import facto_rich as fr
import gen_rich
import gen_scalar

KINDS = {"int": "KInt", "Signal": "KSignal", "Bundle": "KBundle", "Entity": "KEntity"}
ATOMS = ("var", "lit", "call", "bundle", "any", "all", "read", "place")


# ------------------------------------------------------------------ text
def _atomic(e):
    k = e[0]
    if k == "int":
        return e[1] >= 0
    if k == "sel":
        return True
    return k in ATOMS


def pe(e, top=False):
    """Facto text of e; nested compound expressions are parenthesised"""
    s = _pe(e)
    return s if top or _atomic(e) else f"({s})"


def _pe(e):
    k = e[0]
    if k == "int":
        return str(e[1])
    if k == "var":
        return e[1]
    if k == "lit":
        return f'("{e[1]}", {pe(e[2], True)})'
    if k == "proj":
        return f'{pe(e[1])} | "{e[2]}"'
    if k in ("bin", "cmp"):
        return f"{pe(e[2])} {e[1]} {pe(e[3])}"
    if k == "and":
        return f"{pe(e[1])} && {pe(e[2])}"
    if k == "or":
        return f"{pe(e[1])} || {pe(e[2])}"
    if k == "not":
        return f"!{pe(e[1]) if e[1][0] != 'int' else '(' + _pe(e[1]) + ')'}"
    if k == "neg":
        return f"-({_pe(e[1])})"
    if k == "call":
        return f"{e[1]}(" + ", ".join(pe(a, True) for a in e[2]) + ")"
    if k == "bundle":
        return "{ " + ", ".join(pe(a, True) for a in e[1]) + " }" if e[1] else "{}"
    if k == "sel":
        return f'{pe(e[1])}["{e[2]}"]'
    if k in ("any", "all"):
        return f"{k}({pe(e[1], True)})"
    if k == "read":
        return f"{e[1]}.read()"
    if k == "out":
        return f"({_pe(e[1])}) : {pe(e[2])}"
    if k == "place":
        props = ""
        if e[4]:
            props = ", {" + ", ".join(f"{a}: {b}" for a, b in e[4].items()) + "}"
        return f'place("{e[1]}", {pe(e[2], True)}, {pe(e[3], True)}{props})'
    raise ValueError(k)


def _bound(b):
    return str(b)


def ps(stmts, ind=""):
    out = []
    for s in stmts:
        k = s[0]
        if k == "decl":
            out.append(f"{ind}{s[1]} {s[2]} = {pe(s[3], True)};")
        elif k == "mem":
            out.append(f"{ind}Memory {s[1]};" if s[2] is None else f'{ind}Memory {s[1]}: "{s[2]}";')
        elif k == "assign":
            out.append(f"{ind}{s[1]} = {pe(s[2], True)};")
        elif k == "enable":
            out.append(f"{ind}{s[1]}.{s[2]} = {pe(s[3], True)};")
        elif k == "write":
            w = "" if s[3] is None else f", when={pe(s[3], True)}"
            out.append(f"{ind}{s[1]}.write({pe(s[2], True)}{w});")
        elif k == "expr":
            out.append(f"{ind}{pe(s[1], True)};")
        elif k == "ret":
            out.append(f"{ind}return {pe(s[1], True)};")
        elif k == "func":
            out.append(f"{ind}func {s[1]}(" + ", ".join(f"{kk} {n}" for kk, n in s[2]) + ") {")
            out.extend(ps(s[3], ind + "    "))
            out.append(f"{ind}}}")
        elif k == "for":
            it = s[2]
            if it[0] == "range":
                hdr = f"{_bound(it[1])}..{_bound(it[2])}" + (f" step {_bound(it[3])}" if it[3] is not None else "")
            else:
                hdr = "[" + ", ".join(str(v) for v in it[1]) + "]"
            out.append(f"{ind}for {s[1]} in {hdr} {{")
            out.extend(ps(s[3], ind + "    "))
            out.append(f"{ind}}}")
        else:
            raise ValueError(k)
    return out


def text(stmts):
    return "\n".join(ps(stmts)) + "\n"


# ------------------------------------------------------------------ Coq (Facto/Wf.v)
def cz(z):
    return f"({z})%Z" if z < 0 else f"{z}%Z"


def cstr(s):
    assert '"' not in s
    return f'"{s}"'


def ce(e):
    k = e[0]
    if k == "int":
        return f"(WInt {cz(e[1])})"
    if k == "var":
        return f"(WVar {cstr(e[1])})"
    if k == "lit":
        return f"(WLit {cstr(e[1])} {ce(e[2])})"
    if k == "proj":
        return f"(WProj {ce(e[1])} {cstr(e[2])})"
    if k == "bin":
        return f"(WBin {ce(e[2])} {ce(e[3])})"
    if k == "cmp":
        return f"(WCmp {ce(e[2])} {ce(e[3])})"
    if k in ("and", "or"):
        return f"(WLogic {ce(e[1])} {ce(e[2])})"
    if k in ("not", "neg"):
        return f"(WUn {ce(e[1])})"
    if k == "call":
        return f"(WCall {cstr(e[1])} [" + "; ".join(ce(a) for a in e[2]) + "])"
    if k == "bundle":
        return "(WBundle [" + "; ".join(ce(a) for a in e[1]) + "])"
    if k == "sel":
        return f"(WSel {ce(e[1])} {cstr(e[2])})"
    if k in ("any", "all"):
        return f"(WAny {ce(e[1])})"
    if k == "read":
        return f"(WRead {cstr(e[1])})"
    if k == "out":
        return f"(WOut {ce(e[1])} {ce(e[2])})"
    if k == "place":
        return f"(WPlace {ce(e[2])} {ce(e[3])})"
    raise ValueError(k)


def cbound(b):
    return f"(BNum {cz(b)})" if isinstance(b, int) else f"(BVar {cstr(b)})"


def cs(s):
    k = s[0]
    if k == "decl":
        return f"(SDecl {KINDS[s[1]]} {cstr(s[2])} {ce(s[3])})"
    if k == "mem":
        return f"(SMem {cstr(s[1])} " + ("None" if s[2] is None else f"(Some {cstr(s[2])})") + ")"
    if k == "assign":
        return f"(SAssign {cstr(s[1])} {ce(s[2])})"
    if k == "enable":
        return f"(SEnable {cstr(s[1])} {ce(s[3])})"
    if k == "write":
        return f"(SWrite {cstr(s[1])} {ce(s[2])} " + ("None" if s[3] is None else f"(Some {ce(s[3])})") + ")"
    if k == "expr":
        return f"(SExpr {ce(s[1])})"
    if k == "ret":
        return f"(SReturn {ce(s[1])})"
    if k == "func":
        ps_ = "[" + "; ".join(f"({KINDS[kk]}, {cstr(n)})" for kk, n in s[2]) + "]"
        return f"(SFunc {cstr(s[1])} {ps_} {cstmts(s[3])})"
    if k == "for":
        it = s[2]
        if it[0] == "range":
            st = "None" if it[3] is None else f"(Some {cbound(it[3])})"
            ci = f"(IRange {cbound(it[1])} {cbound(it[2])} {st})"
        else:
            ci = "(IList [" + "; ".join(cz(v) for v in it[1]) + "])"
        return f"(SFor {cstr(s[1])} {ci} {cstmts(s[3])})"
    raise ValueError(k)


def cstmts(stmts):
    return "[" + ";\n  ".join(cs(s) for s in stmts) + "]"


def coq_program(stmts):
    return cstmts(stmts)


# ------------------------------------------------------------------ hosts: accepted programs
def range_vals(a, b, s):
    """LANGUAGE_SPEC, Range Iteration: start inclusive, end exclusive, `step` default 1 (a
    descending range without an explicit negative step is therefore empty)"""
    s = 1 if s is None else s
    out = []
    if s == 0:
        return out
    i = a
    while (i < b) if s > 0 else (i > b):
        out.append(i)
        i += s
    return out


def loop_count(it):
    if it[0] == "list":
        return len(it[1])
    a, b, s = it[1], it[2], it[3]
    if not all(isinstance(x, int) or x is None for x in (a, b, s)):
        return None
    return len(range_vals(a, b, s))


def _conv_e(e):
    k = e[0]
    if k == "ref":
        return ("var", e[1])
    if k == "int":
        return e
    if k == "lit":
        return _conv_e(e[2]) if e[1] is None else ("lit", e[1], _conv_e(e[2]))
    if k == "call":
        return ("call", e[1], [_conv_e(a) for a in e[2]])
    if k == "cond":
        return ("out", _conv_e(e[1]), _conv_e(e[2]))
    if k in ("bin", "cmp"):
        return (k, e[1], _conv_e(e[2]), _conv_e(e[3]))
    if k in ("and", "or"):
        return (k, _conv_e(e[1]), _conv_e(e[2]))
    if k in ("not", "neg"):
        return (k, _conv_e(e[1]))
    if k == "proj":
        return ("proj", _conv_e(e[1]), e[2])
    raise ValueError(k)


def from_rich(stmts):
    out = []
    for s in stmts:
        k = s[0]
        if k == "in":
            v = ("int", s[3])
            out.append(("decl", "Signal", s[1], v if s[2] is None else ("lit", s[2], v)))
        elif k == "sig":
            out.append(("decl", "Signal", s[1], _conv_e(s[2])))
        elif k == "int":
            out.append(("decl", "int", s[1], _conv_e(s[2])))
        elif k == "for":
            out.append(("for", s[1], s[2], from_rich(s[3])))
        elif k == "func":
            out.append(("func", s[1], list(s[2]), from_rich(s[3]) + [("ret", _conv_e(s[4]))]))
        elif k == "place":
            out.append(("decl", "Entity", s[1], ("place", s[2], _conv_e(s[3]), _conv_e(s[4]), s[5])))
        elif k == "enable":
            out.append(("enable", s[1], "enable", _conv_e(s[2])))
        else:
            raise ValueError(k)
    return out


def from_scalar(decls):
    names = [d[1] for d in decls]
    return from_rich([(d[0], d[1]) + tuple(gen_rich.var_to_ref(x, names) if isinstance(x, tuple) else x for x in d[2:])
                      for d in decls])


def template_host(rng):
    """hand-written accepted programs with memories and bundles (the random generators have neither)"""
    a, b = rng.sample(["signal-A", "signal-B", "signal-C", "signal-D"], 2)
    i1, i2 = rng.sample(["iron-plate", "copper-plate", "coal", "water"], 2)
    k1, k2 = rng.randint(1, 9), rng.randint(2, 30)
    st = [
        ("decl", "Signal", "a", ("lit", a, ("int", k1))),
        ("decl", "Signal", "b", ("lit", b, ("int", k2))),
        ("mem", "m", a),
        ("write", "m", ("proj", ("bin", "+", ("var", "a"), ("var", "b")), a), ("cmp", ">", ("var", "b"), ("int", k1))),
        ("decl", "Signal", "c", ("bin", "*", ("read", "m"), ("int", 2))),
        ("decl", "Bundle", "d", ("bundle", [("lit", i1, ("int", k1)), ("lit", i2, ("int", k2)), ("var", "a")])),
        ("decl", "Signal", "e", ("sel", ("var", "d"), i1)),
        ("decl", "Signal", "g", ("cmp", ">", ("any", ("var", "d")), ("int", 3))),
    ]
    if rng.random() < 0.6:
        st.append(("decl", "Bundle", "h", ("bin", rng.choice(["*", "+", ">>"]), ("var", "d"), ("int", 2))))
        st.append(("decl", "Bundle", "j", ("out", ("cmp", ">", ("var", "h"), ("int", 0)), ("var", "h"))))
    if rng.random() < 0.6:
        st.append(("func", "fk", [("Signal", "p"), ("int", "n")],
                   [("mem", "q", b), ("write", "q", ("proj", ("bin", "+", ("var", "p"), ("var", "n")), b), None),
                    ("ret", ("bin", "+", ("read", "q"), ("var", "p")))]))
        st.append(("decl", "Signal", "k", ("call", "fk", [("var", "c"), ("int", 3)])))
    if rng.random() < 0.6:
        st.append(("for", "l", ("range", 0, rng.randint(1, 3), None),
                   [("decl", "Signal", "o", ("bin", "+", ("var", "c"), ("var", "l"))),
                    ("decl", "Entity", "r", ("place", "small-lamp", ("var", "l"), ("int", 7), None)),
                    ("enable", "r", "enable", ("cmp", ">", ("var", "o"), ("int", k2)))]))
    st.append(("decl", "Signal", "s", ("out", ("cmp", ">", ("var", "a"), ("int", 1)), ("var", "c"))))
    return st


def small_host(stmts, max_decls=5, max_loops=1, max_iters=3):
    """keep the program cheap to lay out: at most one loop (loops export no names, so dropping one
    is safe), loops of at most three iterations (a prefix of the original sequence, so the lamp
    positions stay distinct), and a prefix of the remaining declarations"""
    out, nd, nl = [], 0, 0
    for s in stmts:
        if s[0] == "for":
            if nl >= max_loops:
                continue
            nl += 1
            out.append(_clamp_loop(s, max_iters))
        elif s[0] == "func":
            out.append(s)
        else:
            is_input = s[0] == "decl" and s[3][0] in ("int", "lit") and s[1] == "Signal"
            if not is_input:
                if nd >= max_decls:
                    break
                nd += 1
            out.append(s)
    return out


def _clamp_loop(s, max_iters):
    it = s[2]
    n = loop_count(it)
    if n is not None and n > max_iters:
        vals = it[1] if it[0] == "list" else range_vals(it[1], it[2], it[3])
        it = ("list", list(vals[:max_iters]))
    return ("for", s[1], it, [_clamp_loop(x, max_iters) if x[0] == "for" else x for x in s[3]])


def host(rng, seed):
    x = rng.random()
    if x < 0.5:
        st, _ = gen_rich.gen_rich(seed)
        return "rich", small_host(from_rich(st))
    if x < 0.7:
        return "scalar", small_host(from_scalar(gen_scalar.gen_program(seed, max_depth=3)))
    return "template", template_host(rng)


# ------------------------------------------------------------------ contexts
class Ctx:
    """where the hole is: `path` = list of frames from the outside in; each frame is
    ('func', name, params) | ('for', it, iter); `sigs` / `iters` = names usable at the hole"""

    def __init__(self, rng, fresh):
        self.r = rng
        self.fresh = fresh
        self.path = []
        self.sigs = []     # signal-valued names visible at the hole
        self.iters = []    # iterator names (compile-time ints) visible at the hole
        self.funcs = []    # (name, params) of functions that may be called at the hole
        self.min_iters = None  # iteration count of the innermost enclosing loop

    @property
    def shape(self):
        return ">".join("func" if f[0] == "func" else "loop" for f in self.path) or "top"

    @property
    def encl_func(self):
        fs = [f for f in self.path if f[0] == "func"]
        return fs[-1] if fs else None

    def hs(self):
        """a signal-valued expression over what is visible at the hole"""
        r = self.r
        if self.sigs and r.random() < 0.85:
            return ("var", r.choice(self.sigs))
        return ("lit", r.choice(["signal-B", "signal-C", "iron-plate"]), ("int", r.randint(2, 9)))

    def pos(self):
        """coordinates that differ between iterations of every enclosing loop, far from the host's"""
        x, y = ("int", 40 + self.r.randint(0, 20)), ("int", 50 + self.r.randint(0, 20))
        for i, it in enumerate(self.iters):
            if i % 2 == 0:
                x = ("bin", "+", x, ("bin", "*", ("var", it), ("int", 2)))
            else:
                y = ("bin", "+", y, ("bin", "*", ("var", it), ("int", 2)))
        return x, y


def top_names(stmts, upto):
    sigs, funcs = [], []
    for s in stmts[:upto]:
        if s[0] == "decl" and s[1] == "Signal":
            sigs.append(s[2])
        elif s[0] == "func":
            funcs.append((s[1], s[2]))
    return sigs, funcs


SHAPES = ["top", "func", "loop", "func>loop", "loop>loop", "loop>func"]


def make_iter(rng, n=None):
    """a loop header with n iterations (n >= 1 unless asked otherwise)"""
    n = rng.choice([1, 2, 2, 3]) if n is None else n
    x = rng.random()
    if n == 0:
        return rng.choice([("range", 3, 3, None), ("list", []), ("range", 0, 4, -1)])
    if x < 0.3:
        return ("list", rng.sample(range(0, 9), n))
    if x < 0.6:
        return ("range", 0, n, None)
    if x < 0.8:
        return ("range", 0, 2 * n, 2)
    return ("range", n, 0, -1)


def build(host_stmts, shape, rng, fresh, zero_iter=False, prefer_host=True):
    """choose a hole of the given shape in the host.  returns (ctx, plug) where
    plug(setup_top, inner) -> program"""
    c = Ctx(rng, fresh)
    want = [] if shape == "top" else shape.split(">")
    # host-owned frames: a top-level function / loop of the host itself
    if prefer_host and want and rng.random() < 0.5 and not zero_iter:
        cands = []
        for i, s in enumerate(host_stmts):
            if want == ["func"] and s[0] == "func":
                cands.append(i)
            if want == ["loop"] and s[0] == "for" and (loop_count(s[2]) or 0) >= 1:
                cands.append(i)
        if cands:
            i = rng.choice(cands)
            s = host_stmts[i]
            body = s[3]
            nret = len([x for x in body if x[0] == "ret"])
            j = rng.randint(0, len(body) - nret)
            local = [x[2] for x in body[:j] if x[0] == "decl" and x[1] == "Signal"]
            sigs, funcs = top_names(host_stmts, i)
            if s[0] == "func":
                c.path = [("func", s[1], s[2])]
                c.sigs = [n for k, n in s[2] if k == "Signal"] + local
                c.funcs = funcs
            else:
                c.path = [("for", s[1], s[2])]
                c.sigs = sigs + local
                c.iters = [s[1]]
                c.funcs = funcs
                c.min_iters = loop_count(s[2])
            c.host_owned = True

            def plug(setup_top, inner, i=i, j=j, s=s, body=body):
                ns = s[:3] + (body[:j] + inner + body[j:],)
                return host_stmts[:i] + setup_top + [ns] + host_stmts[i + 1:]
            return c, plug
    c.host_owned = False
    # new frames wrapped around the hole, inserted at a top-level position after the first input
    i = rng.randint(1, len(host_stmts))
    sigs, funcs = top_names(host_stmts, i)
    c.funcs = funcs
    vis = list(sigs)
    frames = []
    in_func = False
    for w in want:
        if w == "func":
            f, p = fresh("g"), fresh("p")
            params = [("Signal", p)] + ([("int", fresh("n"))] if rng.random() < 0.4 else [])
            frames.append(("func", f, params))
            vis = [p]
            in_func = True
            c.iters = []
        else:
            it = fresh("q")
            n = 0 if (zero_iter and w is want[-1] and w == "loop") else None
            itr = make_iter(rng, n)
            frames.append(("for", it, itr))
            c.iters = c.iters + [it]
            c.min_iters = loop_count(itr)
    c.path = frames
    c.sigs = vis
    top_sig = sigs

    def plug(setup_top, inner, i=i, frames=frames, top_sig=top_sig):
        cur = inner
        after = []
        for fr_ in reversed(frames):
            if fr_[0] == "func":
                p = fr_[2][0][1]
                cur = [("func", fr_[1], fr_[2], cur + [("ret", ("bin", "+", ("var", p), ("int", 1)))])]
            else:
                cur = [("for", fr_[1], fr_[2], cur)]
        # a top-level function gets a call so that it is inlined at least once
        if frames and frames[0][0] == "func":
            arg = ("var", rng.choice(top_sig)) if top_sig else ("lit", "signal-B", ("int", 4))
            args = [arg] + [("int", 2)] * (len(frames[0][2]) - 1)
            after = [("decl", "Signal", fresh("r"), ("call", frames[0][1], args))]
        return host_stmts[:i] + setup_top + cur + after + host_stmts[i:]
    return c, plug


# ------------------------------------------------------------------ rules
# every rule function returns dict(variant, setup_top, setup, good, bad); `good` / `bad` are
# statement lists put into the hole after `setup`; setup_top goes to the top level before the
# outermost frame of the context.
A_, B_, C_ = "signal-A", "signal-B", "signal-C"


def _d(variant, good, bad, setup=None, setup_top=None, **kw):
    d = dict(variant=variant, setup_top=setup_top or [], setup=setup or [], good=good, bad=bad)
    d.update(kw)
    return d


def _ds(subject, *a, **kw):
    kw["subject"] = subject
    return _d(*a, **kw)


def r_undef_var(c):
    r, n, nope = c.r, c.fresh("x"), c.fresh("nope")
    h, h2 = c.hs(), c.hs()
    v = r.choice(["operand", "deep", "cond", "out_value", "bundle_elem", "write_value", "unary", "loop_bound"])
    if v == "operand":
        return _ds(nope, v, [("decl", "Signal", n, ("bin", "+", h, ("int", 1)))], [("decl", "Signal", n, ("bin", "+", h, ("var", nope)))])
    if v == "deep":
        mk = lambda z: ("proj", ("bin", "+", ("bin", "*", h, ("int", 2)), ("bin", "-", ("int", 1), ("bin", "%", h2, z))), C_)
        return _ds(nope, v, [("decl", "Signal", n, mk(("int", 7)))], [("decl", "Signal", n, mk(("var", nope)))])
    if v == "cond":
        return _ds(nope, v, [("decl", "Signal", n, ("out", ("cmp", ">", h, ("int", 0)), h2))],
                  [("decl", "Signal", n, ("out", ("cmp", ">", ("var", nope), ("int", 0)), h2))])
    if v == "out_value":
        return _ds(nope, v, [("decl", "Signal", n, ("out", ("cmp", ">", h, ("int", 0)), h2))],
                  [("decl", "Signal", n, ("out", ("cmp", ">", h, ("int", 0)), ("var", nope)))])
    if v == "bundle_elem":
        return _ds(nope, v, [("decl", "Bundle", n, ("bundle", [("lit", "coal", ("int", 1))]))],
                  [("decl", "Bundle", n, ("bundle", [("lit", "coal", ("int", 1)), ("var", nope)]))])
    if v == "write_value":
        m = c.fresh("m")
        return _ds(nope, v, [("write", m, ("proj", h, A_), None)], [("write", m, ("proj", ("bin", "+", h, ("var", nope)), A_), None)],
                  setup=[("mem", m, A_)])
    if v == "unary":
        return _ds(nope, v, [("decl", "Signal", n, ("neg", h))], [("decl", "Signal", n, ("bin", "+", h, ("not", ("var", nope))))])
    q = c.fresh("q")
    body = [("decl", "Signal", n, ("bin", "+", h, ("var", q)))]
    return _ds(nope, "loop_bound", [("for", q, ("range", 0, 2, None), body)], [("for", q, ("range", 0, nope, None), body)])


def r_undef_func(c):
    n, f, h = c.fresh("x"), c.fresh("nofn"), c.hs()
    v = c.r.choice(["value", "nested", "stmt"])
    if v == "value":
        return _ds(f, v, [("decl", "Signal", n, ("bin", "+", h, ("int", 1)))], [("decl", "Signal", n, ("bin", "+", ("call", f, [h]), ("int", 1)))])
    if v == "nested":
        return _ds(f, v, [("decl", "Signal", n, ("cmp", ">", h, ("int", 1)))],
                  [("decl", "Signal", n, ("cmp", ">", h, ("bin", "*", ("call", f, []), ("int", 2))))])
    return _ds(f, v, [], [("expr", ("call", f, [h, ("int", 1)]))])


def r_undef_mem(c):
    n, m, h = c.fresh("x"), c.fresh("nomem"), c.hs()
    v = c.r.choice(["read", "write", "write_when", "read_deep"])
    if v == "read":
        return _ds(m, v, [("decl", "Signal", n, h)], [("decl", "Signal", n, ("read", m))])
    if v == "read_deep":
        return _ds(m, v, [("decl", "Signal", n, ("bin", "+", h, ("int", 3)))], [("decl", "Signal", n, ("bin", "+", h, ("bin", "*", ("read", m), ("int", 3))))])
    if v == "write":
        return _ds(m, v, [], [("write", m, h, None)])
    return _ds(m, v, [], [("write", m, h, ("cmp", ">", h, ("int", 0)))])


def r_undef_entity(c):
    e, h = c.fresh("nolamp"), c.hs()
    return _ds(e, "enable", [], [("enable", e, "enable", ("cmp", ">", h, ("int", 0)))])


def r_redef(c):
    n, h = c.fresh("x"), c.hs()
    v = c.r.choice(["signal_signal", "signal_int", "signal_memory", "signal_func", "memory_signal", "func_func", "param"])
    first = [("decl", "Signal", n, ("bin", "+", h, ("int", 1)))]
    if v == "param" and c.encl_func and c.path[-1][0] == "func":
        p = c.encl_func[2][0][1]
        return _ds(p, v, [], [("decl", "Signal", p, ("int", 1))])
    if v == "signal_int":
        return _ds(n, v, [], [("decl", "int", n, ("int", 3))], setup=first)
    if v == "signal_memory":
        return _ds(n, v, [], [("mem", n, A_)], setup=first)
    if v == "signal_func":
        p = c.fresh("p")
        return _ds(n, v, [], [("func", n, [("Signal", p)], [("ret", ("var", p))])], setup=first)
    if v == "memory_signal":
        return _ds(n, v, [], [("decl", "Signal", n, h)], setup=[("mem", n, B_)])
    if v == "func_func":
        p = c.fresh("p")
        fn = ("func", n, [("Signal", p)], [("ret", ("bin", "+", ("var", p), ("int", 1)))])
        return _ds(n, v, [], [fn], setup=[fn])
    return _ds(n, "signal_signal", [], [("decl", "Signal", n, ("bin", "+", h, ("int", 2)))], setup=first)


def r_immutable(c):
    n, h = c.fresh("x"), c.hs()
    v = c.r.choice(["signal", "int", "iterator", "param", "host_signal"])
    if v == "iterator" and c.iters:
        return _ds(c.iters[-1], v, [], [("assign", c.iters[-1], ("int", 5))])
    if v == "param" and c.encl_func:
        return _ds(c.encl_func[2][0][1], v, [], [("assign", c.encl_func[2][0][1], ("bin", "+", h, ("int", 1)))])
    if v == "host_signal" and c.sigs:
        tgt = c.r.choice(c.sigs)
        return _ds(tgt, v, [], [("assign", tgt, ("bin", "+", h, ("int", 1)))])
    if v == "int":
        return _ds(n, v, [], [("assign", n, ("int", 4))], setup=[("decl", "int", n, ("int", 3))])
    return _ds(n, "signal", [], [("assign", n, ("bin", "+", h, ("int", 2)))], setup=[("decl", "Signal", n, ("bin", "+", h, ("int", 1)))])


def r_kind_decl(c):
    n, h = c.fresh("x"), c.hs()
    bl = ("bundle", [("lit", "iron-plate", ("int", 1)), ("lit", "coal", ("int", 2))])
    x, y = c.pos()
    v = c.r.choice(["int_from_signal", "entity_from_int", "signal_from_bundle", "signal_from_entity",
                    "bundle_from_int", "bundle_from_signal", "int_from_bundle", "entity_from_signal"])
    good = [("decl", "Signal", n, ("bin", "+", h, ("int", 1)))]
    if v == "int_from_signal":
        return _d(v, good, [("decl", "int", n, ("bin", "+", ("lit", A_, ("int", 1)), h))])
    if v == "entity_from_int":
        return _d(v, good, [("decl", "Entity", n, ("int", 42))])
    if v == "entity_from_signal":
        return _d(v, good, [("decl", "Entity", n, ("bin", "+", h, ("int", 1)))])
    if v == "signal_from_bundle":
        return _d(v, [("decl", "Bundle", n, bl)], [("decl", "Signal", n, bl)])
    if v == "signal_from_entity":
        return _d(v, [("decl", "Entity", n, ("place", "small-lamp", x, y, None))], [("decl", "Signal", n, ("place", "small-lamp", x, y, None))])
    if v == "bundle_from_int":
        return _d(v, [("decl", "Bundle", n, bl)], [("decl", "Bundle", n, ("int", 5))])
    if v == "bundle_from_signal":
        return _d(v, [("decl", "Bundle", n, bl)], [("decl", "Bundle", n, ("bin", "+", h, ("int", 1)))])
    return _d("int_from_bundle", [("decl", "int", n, ("int", 3))], [("decl", "int", n, bl)])


def r_kind_param(c):
    n, h, g, p = c.fresh("x"), c.hs(), c.fresh("g"), c.fresh("p")
    bl = ("bundle", [("lit", "iron-plate", ("int", 1))])
    x, y = c.pos()
    v = c.r.choice(["signal_param_bundle", "int_param_bundle", "entity_param_int", "entity_param_signal", "signal_param_entity"])
    if v in ("signal_param_bundle", "int_param_bundle", "signal_param_entity"):
        kind = "int" if v == "int_param_bundle" else "Signal"
        fn = ("func", g, [(kind, p)], [("ret", ("bin", "+", ("var", p), ("int", 1)))])
        good = [("decl", "Signal", n, ("call", g, [("int", 3) if kind == "int" else h]))]
        if v == "signal_param_entity":
            e = c.fresh("e")
            return _d(v, good, [("decl", "Signal", n, ("call", g, [("var", e)]))], setup_top=[fn],
                      setup=[("decl", "Entity", e, ("place", "small-lamp", x, y, None))])
        return _d(v, good, [("decl", "Signal", n, ("call", g, [bl]))], setup_top=[fn])
    e = c.fresh("e")
    fn = ("func", g, [("Entity", p)], [("enable", p, "enable", ("cmp", ">", ("int", 1), ("int", 0))), ("ret", ("int", 0))])
    bad_arg = ("int", 5) if v == "entity_param_int" else ("bin", "+", h, ("int", 1))
    return _d(v, [("decl", "Signal", n, ("call", g, [("var", e)]))], [("decl", "Signal", n, ("call", g, [bad_arg]))],
              setup_top=[fn], setup=[("decl", "Entity", e, ("place", "small-lamp", x, y, None))])


def r_arity(c):
    n, h, g, p, p2 = c.fresh("x"), c.hs(), c.fresh("g"), c.fresh("p"), c.fresh("p")
    v = c.r.choice(["too_few", "too_many", "none", "host_func"])
    if v == "host_func" and c.funcs and not c.encl_func:
        f, params = c.r.choice(c.funcs)
        okargs = [h if k == "Signal" else ("int", 2) for k, _ in params]
        bad = okargs[:-1] if c.r.random() < 0.5 else okargs + [("int", 1)]
        return _ds(f, v, [("decl", "Signal", n, ("call", f, okargs))], [("decl", "Signal", n, ("call", f, bad))])
    fn = ("func", g, [("Signal", p), ("int", p2)], [("ret", ("bin", "+", ("var", p), ("var", p2)))])
    good = [("decl", "Signal", n, ("call", g, [h, ("int", 2)]))]
    bad = {"too_few": [h], "too_many": [h, ("int", 2), ("int", 3)], "none": []}.get(v, [h])
    return _ds(g, v if v != "host_func" else "too_few", good, [("decl", "Signal", n, ("bin", "+", ("call", g, bad), ("int", 1)))], setup_top=[fn])


def r_recursion(c):
    n, h, f, g, p = c.fresh("x"), c.hs(), c.fresh("rf"), c.fresh("rg"), c.fresh("p")
    v = c.r.choice(["direct", "direct_deep", "indirect", "self_call", "nested_decl"])
    if v == "self_call" and c.encl_func:
        fn, params = c.encl_func[1], c.encl_func[2]
        args = [h if k == "Signal" else ("int", 2) for k, _ in params]
        return _d(v, [("decl", "Signal", n, ("bin", "+", h, ("int", 1)))], [("decl", "Signal", n, ("bin", "+", ("call", fn, args), ("int", 1)))])
    if v == "nested_decl" and c.encl_func:
        fn, params = c.encl_func[1], c.encl_func[2]
        args = [("var", p) if k == "Signal" else ("int", 2) for k, _ in params]
        return _d(v, [("func", f, [("Signal", p)], [("ret", ("var", p))])],
                  [("func", f, [("Signal", p)], [("ret", ("call", fn, args))])])
    if v == "indirect":
        return _d(v, [("func", f, [("Signal", p)], [("ret", ("var", p))]), ("func", g, [("Signal", p)], [("ret", ("call", f, [("var", p)]))])],
                  [("func", f, [("Signal", p)], [("ret", ("call", g, [("var", p)]))]), ("func", g, [("Signal", p)], [("ret", ("call", f, [("var", p)]))])])
    if v == "direct_deep":
        t = c.fresh("t")
        return _d(v, [("func", f, [("Signal", p)], [("decl", "Signal", t, ("bin", "*", ("var", p), ("int", 2))), ("ret", ("var", t))])],
                  [("func", f, [("Signal", p)], [("decl", "Signal", t, ("bin", "*", ("out", ("cmp", ">", ("var", p), ("int", 0)), ("call", f, [("bin", "-", ("var", p), ("int", 1))])), ("int", 2))), ("ret", ("var", t))])])
    return _d("direct", [("func", f, [("Signal", p)], [("ret", ("bin", "+", ("var", p), ("int", 1)))])],
              [("func", f, [("Signal", p)], [("ret", ("bin", "+", ("call", f, [("var", p)]), ("int", 1)))])])


def r_dup_member(c):
    n, n2 = c.fresh("x"), c.fresh("x")
    r = c.r
    i1, i2 = r.sample(["iron-plate", "copper-plate", "coal", "water", A_, C_], 2)
    v = r.choice(["literal", "literal_far", "via_variable", "nested_bundle", "via_projection"])
    good = [("decl", "Bundle", n, ("bundle", [("lit", i1, ("int", 1)), ("lit", i2, ("int", 2))]))]
    if v == "literal":
        return _ds(i1, v, good, [("decl", "Bundle", n, ("bundle", [("lit", i1, ("int", 1)), ("lit", i1, ("int", 2))]))])
    if v == "literal_far":
        return _ds(i1, v, good, [("decl", "Bundle", n, ("bundle", [("lit", i1, ("int", 1)), ("lit", i2, ("int", 2)), ("lit", "stone", ("int", 3)), ("lit", i1, ("int", 4))]))])
    if v == "via_variable":
        return _ds(i1, v, [("decl", "Bundle", n, ("bundle", [("var", n2), ("lit", i2, ("int", 1))]))],
                  [("decl", "Bundle", n, ("bundle", [("var", n2), ("lit", i1, ("int", 1))]))], setup=[("decl", "Signal", n2, ("lit", i1, ("int", 5)))])
    if v == "via_projection":
        h = c.hs()
        return _ds(i1, v, [("decl", "Bundle", n, ("bundle", [("proj", h, i1), ("lit", i2, ("int", 1))]))],
                  [("decl", "Bundle", n, ("bundle", [("proj", h, i1), ("lit", i2, ("int", 1)), ("proj", h, i1)]))])
    return _ds(i1, "nested_bundle", [("decl", "Bundle", n, ("bundle", [("var", n2), ("lit", "stone", ("int", 1))]))],
              [("decl", "Bundle", n, ("bundle", [("var", n2), ("lit", i1, ("int", 1))]))],
              setup=[("decl", "Bundle", n2, ("bundle", [("lit", i1, ("int", 1)), ("lit", i2, ("int", 2))]))])


def _two_bundles(c):
    n1, n2 = c.fresh("x"), c.fresh("x")
    return n1, n2, [("decl", "Bundle", n1, ("bundle", [("lit", "iron-plate", ("int", 3)), ("lit", "coal", ("int", 9))])),
                    ("decl", "Bundle", n2, ("bundle", [("lit", "copper-plate", ("int", 2))]))]


def r_bundle_op_bundle(c):
    n1, n2, setup = _two_bundles(c)
    n3 = c.fresh("x")
    op = c.r.choice(["+", "-", "*", "/", "AND", ">>"])
    v = c.r.choice(["decl", "nested"])
    if v == "decl":
        return _d(v, [("decl", "Bundle", n3, ("bin", op, ("var", n1), ("int", 2)))], [("decl", "Bundle", n3, ("bin", op, ("var", n1), ("var", n2)))], setup=setup)
    return _d(v, [("decl", "Bundle", n3, ("bin", "+", ("bin", op, ("var", n1), ("int", 2)), ("int", 1)))],
              [("decl", "Bundle", n3, ("bin", "+", ("bin", op, ("var", n1), ("var", n2)), ("int", 1)))], setup=setup)


def r_bare_bundle_cmp(c):
    n1, n2, setup = _two_bundles(c)
    n3 = c.fresh("x")
    op = c.r.choice([">", "<", "==", "!=", ">="])
    v = c.r.choice(["decl", "decl", "nested_arith", "nested_logic"])
    good = [("decl", "Signal", n3, ("cmp", op, ("any", ("var", n1)), ("int", 0)))]
    if v == "decl":
        return _d(v, good, [("decl", "Signal", n3, ("cmp", op, ("var", n1), ("int", 0)))], setup=setup)
    if v == "nested_arith":
        return _d(v, good, [("decl", "Signal", n3, ("bin", "+", ("cmp", op, ("var", n1), ("int", 0)), ("int", 1)))], setup=setup)
    h = c.hs()
    return _d(v, good, [("decl", "Signal", n3, ("and", ("cmp", op, ("var", n1), ("int", 0)), ("cmp", ">", h, ("int", 0))))], setup=setup)


def r_select_absent(c):
    n1, n2, setup = _two_bundles(c)
    n3 = c.fresh("x")
    v = c.r.choice(["decl", "nested", "derived"])
    if v == "decl":
        return _ds("copper-plate", v, [("decl", "Signal", n3, ("sel", ("var", n1), "coal"))], [("decl", "Signal", n3, ("sel", ("var", n1), "copper-plate"))], setup=setup)
    if v == "nested":
        return _ds("coal", v, [("decl", "Signal", n3, ("bin", "*", ("sel", ("var", n1), "coal"), ("int", 2)))],
                  [("decl", "Signal", n3, ("bin", "*", ("sel", ("var", n2), "coal"), ("int", 2)))], setup=setup)
    n4 = c.fresh("x")
    return _ds("stone", v, [("decl", "Signal", n3, ("sel", ("var", n4), "iron-plate"))], [("decl", "Signal", n3, ("sel", ("var", n4), "stone"))],
              setup=setup + [("decl", "Bundle", n4, ("bin", "*", ("var", n1), ("int", 2)))])


BOGUS = ["signal-nonexistent", "iron-plat", "no-such-item", "signal-AA", "Signal-A", "copper plate"]


def _signal_use(c, bad_name, good_name):
    n, h = c.fresh("x"), c.hs()
    v = c.r.choice(["literal", "literal_deep", "projection", "memory_decl", "bundle_member"])
    if v == "literal":
        mk = lambda t: [("decl", "Signal", n, ("lit", t, ("int", 5)))]
    elif v == "literal_deep":
        mk = lambda t: [("decl", "Signal", n, ("bin", "+", h, ("bin", "*", ("lit", t, ("int", 5)), ("int", 2))))]
    elif v == "projection":
        mk = lambda t: [("decl", "Signal", n, ("proj", ("bin", "+", h, ("int", 1)), t))]
    elif v == "memory_decl":
        mk = lambda t: [("mem", n, t)]
    else:
        mk = lambda t: [("decl", "Bundle", n, ("bundle", [("lit", "coal", ("int", 1)), ("lit", t, ("int", 2))]))]
    return _ds(bad_name, v, mk(good_name), mk(bad_name))


def r_unknown_signal(c):
    return _signal_use(c, c.r.choice(BOGUS), c.r.choice([A_, "iron-plate", "water"]))


def r_reserved(c):
    return _signal_use(c, "signal-W", c.r.choice([A_, "signal-V", "signal-X"]))


def r_write_type(c):
    m, h = c.fresh("m"), c.hs()
    t0, t1 = c.r.sample(["iron-plate", "copper-plate", A_, B_, "water"], 2)
    v = c.r.choice(["projection", "literal", "variable", "when"])
    setup = [("mem", m, t0)]
    if v == "projection":
        return _ds(m, v, [("write", m, ("proj", h, t0), None)], [("write", m, ("proj", h, t1), None)], setup=setup)
    if v == "literal":
        return _ds(m, v, [("write", m, ("lit", t0, ("int", 5)), None)], [("write", m, ("lit", t1, ("int", 5)), None)], setup=setup)
    if v == "when":
        w = ("cmp", ">", h, ("int", 1))
        return _ds(m, v, [("write", m, ("proj", h, t0), w)], [("write", m, ("proj", h, t1), w)], setup=setup)
    n = c.fresh("x")
    return _ds(m, v, [("decl", "Signal", n, ("lit", t0, ("int", 3))), ("write", m, ("var", n), None)],
              [("decl", "Signal", n, ("lit", t1, ("int", 3))), ("write", m, ("var", n), None)], setup=setup)


def r_second_write(c):
    m, h = c.fresh("m"), c.hs()
    opts = ["same_scope", "same_scope_when"]
    if c.path:
        opts += ["outer_cell"]
    if c.path and c.path[-1][0] == "for" and (c.min_iters or 0) >= 2:
        opts += ["loop_unrolled"]
    v = c.r.choice(opts)
    w1 = ("write", m, ("proj", h, A_), None)
    if v == "same_scope":
        return _ds(m, v, [], [("write", m, ("lit", A_, ("int", 7)), None)], setup=[("mem", m, A_), w1])
    if v == "same_scope_when":
        return _ds(m, v, [], [("write", m, ("proj", h, A_), ("cmp", ">", h, ("int", 2)))], setup=[("mem", m, A_), w1])
    if v == "outer_cell":
        # the cell is declared and written once at the top level; the second write is in the hole
        return _ds(m, v, [], [("write", m, ("lit", A_, ("int", 7)), None)],
                  setup_top=[("mem", m, A_), ("write", m, ("lit", A_, ("int", 1)), None)])
    # one write() in the body of a loop with >= 2 iterations, to a cell declared outside the loop
    return _ds(m, v, [], [("write", m, ("lit", A_, ("int", 7)), None)], setup_top=[("mem", m, A_)], base_setup_extra=True)


def r_zero_step(c):
    n, q, h = c.fresh("x"), c.fresh("q"), c.hs()
    body = [("decl", "Signal", n, ("bin", "+", h, ("var", q)))]
    a, b = c.r.randint(0, 2), c.r.randint(3, 5)
    v = c.r.choice(["literal", "literal", "descending", "named"])
    if v == "literal":
        return _d(v, [("for", q, ("range", a, b, 1), body)], [("for", q, ("range", a, b, 0), body)])
    if v == "descending":
        return _d(v, [("for", q, ("range", b, a, -1), body)], [("for", q, ("range", b, a, 0), body)])
    z = c.fresh("z")
    # the step constant is declared at the top level (an int declared inside a loop body is not
    # accepted as a loop bound by the compiler -- an over-rejection that is not C14's business)
    z1 = c.fresh("z")
    return _d(v, [("for", q, ("range", a, b, z1), body)], [("for", q, ("range", a, b, z), body)],
              setup_top=[("decl", "int", z, ("int", 0)), ("decl", "int", z1, ("int", 1))])


def r_noncmp(c):
    n, h, h2 = c.fresh("x"), c.hs(), c.hs()
    v = c.r.choice(["arith", "literal", "variable", "negated", "nested", "logic_half"])
    good = [("decl", "Signal", n, ("out", ("cmp", ">", h, ("int", 0)), h2))]
    if v == "arith":
        return _d(v, good, [("decl", "Signal", n, ("out", ("bin", "+", h, ("int", 1)), h2))])
    if v == "literal":
        return _d(v, good, [("decl", "Signal", n, ("out", ("int", 1), h2))])
    if v == "variable":
        t = c.fresh("x")
        return _d(v, [("decl", "Signal", n, ("out", ("cmp", ">", ("var", t), ("int", 0)), h2))], [("decl", "Signal", n, ("out", ("var", t), h2))],
                  setup=[("decl", "Signal", t, ("bin", "+", ("lit", B_, ("int", 2)), ("int", 1)))])
    if v == "negated":
        return _d(v, good, [("decl", "Signal", n, ("out", ("not", ("cmp", ">", h, ("int", 0))), h2))])
    if v == "nested":
        return _d(v, [("decl", "Signal", n, ("bin", "+", ("out", ("cmp", ">", h, ("int", 0)), h2), ("int", 1)))],
                  [("decl", "Signal", n, ("bin", "+", ("out", ("bin", "*", h, ("int", 2)), h2), ("int", 1)))])
    return _d("logic_half", [("decl", "Signal", n, ("out", ("and", ("cmp", ">", h, ("int", 0)), ("cmp", "<", h, ("int", 9))), h2))],
              [("decl", "Signal", n, ("out", ("and", ("cmp", ">", h, ("int", 0)), ("bin", "+", h, ("int", 9))), h2))])


RULES = {
    "undef-var": r_undef_var, "undef-func": r_undef_func, "undef-mem": r_undef_mem, "undef-entity": r_undef_entity,
    "redef": r_redef, "immutable": r_immutable, "kind-decl": r_kind_decl, "kind-param": r_kind_param,
    "arity": r_arity, "recursion": r_recursion, "dup-member": r_dup_member, "bundle-op-bundle": r_bundle_op_bundle,
    "bare-bundle-cmp": r_bare_bundle_cmp, "absent-member": r_select_absent, "unknown-signal": r_unknown_signal,
    "reserved": r_reserved, "write-type": r_write_type, "second-write": r_second_write, "zero-step": r_zero_step,
    "non-cmp": r_noncmp,
}


class Fresh:
    def __init__(self):
        self.n = 0

    def __call__(self, prefix):
        self.n += 1
        return f"{prefix}w{self.n}"


def make_case(rule, shape, seed, zero_iter=False):
    """one (base, mutant) pair.  deterministic in (rule, shape, seed)"""
    rng = random.Random(f"{rule}|{shape}|{seed}|{zero_iter}")
    hk, hs_ = host(rng, rng.randrange(1 << 30))
    fresh = Fresh()
    c, plug = build(hs_, shape, rng, fresh, zero_iter=zero_iter)
    sn = RULES[rule](c)
    base = plug(sn["setup_top"], sn["setup"] + sn["good"])
    mut = plug(sn["setup_top"], sn["setup"] + sn["bad"])
    return {
        "rule": rule, "variant": sn["variant"], "shape": ("loop0:" + shape) if zero_iter else shape,
        "host": hk, "host_owned": bool(getattr(c, "host_owned", False)), "seed": seed,
        "base": base, "mut": mut, "base_text": text(base), "mut_text": text(mut),
        "bad_text": text(sn["bad"]).strip(), "iters": c.min_iters, "subject": sn.get("subject"),
    }


def cases(seed, per_cell, shapes=None, rules=None, loop0=4):
    out = []
    shapes = shapes or SHAPES
    k = 0
    for rule in (rules or RULES):
        for shape in shapes:
            for j in range(per_cell):
                out.append(make_case(rule, shape, seed * 1000 + j))
                k += 1
    # a few embeddings into the body of a loop that never iterates (the body is never unrolled)
    rl = list(rules or RULES)
    rng = random.Random(seed)
    for j in range(loop0):
        out.append(make_case(rl[(seed + 5 * j) % len(rl)], rng.choice(["loop", "func>loop"]), seed * 1000 + j, zero_iter=True))
    for i, c in enumerate(out):
        c["id"] = f"m{i}"
    return out


# ------------------------------------------------------------------ syntax errors
# Each mutation yields a text that is outside the grammar by construction:
#   drop-semicolon   every simple statement ends in ";" and none of the generated statements starts
#                    with a token that could continue the previous expression (they start with a
#                    type keyword, Memory, for, func, return or a NAME; the next token may also be
#                    "}" or the end of the text) -- `expr NAME`, `expr KEYWORD`, `expr }` have no rule
#   drop-paren / extra-paren / drop-brace   every rule that opens ( [ { closes it, strings hold none
#   drop-name        `type_name "="`: type_name must be followed by NAME
#   drop-equals      `type_name NAME expr`: "=" is mandatory
#   double-operator  `a + * b`: no operand may start with * / % == && (they are not unary)
#   step-without-bound / for-without-in   `step {`, `for NAME NUMBER`
#   dangling-operator `= ;` after removing the whole right-hand side
SYNTAX_KINDS = ["drop-semicolon", "drop-paren", "extra-paren", "drop-brace", "drop-name", "drop-equals",
                "double-operator", "dangling-operator", "extra-close", "for-without-in", "step-without-bound"]


def syntax_mutants(rng, src, n, start=0):
    import re
    out = []
    kinds = SYNTAX_KINDS
    tries = 0
    while len(out) < n and tries < len(kinds):
        k = kinds[(start + tries) % len(kinds)]
        tries += 1
        t = None
        if k == "drop-semicolon":
            pos = [m.start() for m in re.finditer(";", src)]
            if pos:
                p = rng.choice(pos)
                t = src[:p] + src[p + 1:]
        elif k == "drop-paren":
            pos = [m.start() for m in re.finditer(r"[()]", src)]
            if pos:
                p = rng.choice(pos)
                t = src[:p] + src[p + 1:]
        elif k == "extra-paren":
            pos = [m.end() for m in re.finditer(r"= ", src)]
            if pos:
                p = rng.choice(pos)
                t = src[:p] + "(" + src[p:]
        elif k == "extra-close":
            pos = [m.start() for m in re.finditer(";", src)]
            if pos:
                p = rng.choice(pos)
                t = src[:p] + rng.choice([")", "]", "}"]) + src[p:]
        elif k == "drop-brace":
            pos = [m.start() for m in re.finditer(r"[{}]", src)]
            if pos:
                p = rng.choice(pos)
                t = src[:p] + src[p + 1:]
        elif k == "drop-name":
            ms = list(re.finditer(r"\b(Signal|int|Bundle|Entity) (\w+) =", src))
            if ms:
                m = rng.choice(ms)
                t = src[:m.start(2)] + src[m.end(2) + 1:]
        elif k == "drop-equals":
            ms = list(re.finditer(r"\b(Signal|int|Bundle|Entity) (\w+) = ", src))
            if ms:
                m = rng.choice(ms)
                t = src[:m.end(2)] + " " + src[m.end():]
        elif k == "double-operator":
            ms = list(re.finditer(r" (\+|\*|/|%|==|<|>|&&|\|\||AND|OR|XOR|<<|>>) ", src))
            if ms:
                m = rng.choice(ms)
                t = src[:m.end()] + rng.choice(["* ", "/ ", "% ", "== ", "&& "]) + src[m.end():]
        elif k == "dangling-operator":
            ms = list(re.finditer(r"\b(Signal|int) (\w+) = [^;{}]*;", src))
            if ms:
                m = rng.choice(ms)
                t = src[:m.start()] + f"{m.group(1)} {m.group(2)} = ;" + src[m.end():]
        elif k == "for-without-in":
            ms = list(re.finditer(r"\bfor (\w+) in ", src))
            if ms:
                m = rng.choice(ms)
                t = src[:m.end(1)] + " " + src[m.end():]
        elif k == "step-without-bound":
            ms = list(re.finditer(r"\bfor (\w+) in ([^{]*?)( step [-\w]+)? \{", src))
            if ms:
                m = rng.choice(ms)
                t = src[:m.start()] + f"for {m.group(1)} in {m.group(2)} step {{" + src[m.end():]
        if t is not None and t != src:
            out.append({"kind": k, "text": t})
    return out


def syntax_cases(seed, n):
    rng = random.Random(seed * 7919 + 13)
    out = []
    g = seed
    while len(out) < n:
        hk, hs_ = host(rng, rng.randrange(1 << 30))
        src = text(hs_)
        for m in syntax_mutants(rng, src, 3, start=g):
            m.update({"id": f"s{len(out)}", "host": hk, "base_text": src})
            out.append(m)
        g += 3
    return out[:n]
