"""Random stateless scalar programs (C01 and the twins built on it)."""
from __future__ import annotations

import random

from facto_ast import arith, ev, wrap32

SIGNALS = ["signal-A", "signal-B", "signal-C", "signal-D", "iron-plate", "copper-plate", "signal-red", "water"]
ARITH = ["+", "-", "*", "/", "%"]
BITS = ["AND", "OR", "XOR"]
CMPS = ["<", ">", "==", ">=", "<=", "!="]
INTS = [0, 1, 2, 3, 5, 7, 10, 16, 100, 255, 1000, -1, -2, -3, -7, 65535, 2147483647, -2147483648]


def in32(z):
    return -(1 << 31) <= z < (1 << 31)


class Gen:
    def __init__(self, rng: random.Random, max_depth=4, allow=None):
        self.r = rng
        self.max_depth = max_depth
        self.decls = []  # ('in'|'sig'|'int', name, ...)
        self.kinds = []  # 'sig' | 'int' | 'bool' (a signal that is a comparison result)
        self.consts = []  # value for int decls (compile-time), None otherwise
        self.allow = allow or {}

    # -- leaves
    def int_lit(self):
        r = self.r
        if r.random() < 0.7:
            return ("int", r.choice([0, 1, 2, 3, 4, 5, 7, 10, 12, 50]))
        return ("int", r.choice(INTS))

    def small_pos(self, lo, hi):
        return ("int", self.r.randint(lo, hi))

    def sig_leaf(self):
        r = self.r
        idx = [i for i, k in enumerate(self.kinds) if k in ("sig", "bool")]
        if idx and r.random() < 0.85:
            return ("var", r.choice(idx))
        return ("lit", r.choice(SIGNALS), self.int_lit())

    def int_leaf(self):
        idx = [i for i, k in enumerate(self.kinds) if k == "int"]
        if idx and self.r.random() < 0.5:
            return ("var", self.r.choice(idx))
        return self.int_lit()

    def is_const(self, e):
        k = e[0]
        if k == "int":
            return True
        if k == "var":
            return self.kinds[e[1]] == "int"
        if k == "lit":
            return self.is_const(e[2])  # the compiler folds through typed literals
        return all(self.is_const(x) for x in e[1:] if isinstance(x, tuple))

    def const_val(self, e):
        vals = [c if c is not None else 0 for c in self.consts]
        return ev(e, vals)

    # -- int expressions (compile-time).  Kept inside the region where the documented
    # run-time arithmetic and unbounded/floor arithmetic agree (outside it: known finding S2,
    # exercised by the C11 check).
    def int_expr(self, d):
        r = self.r
        if d <= 0 or r.random() < 0.4:
            return self.int_leaf()
        for _ in range(20):
            op = r.choice(["+", "-", "*", "/", "%", "**", "<<", ">>", "AND", "OR", "XOR"])
            a = self.int_expr(d - 1)
            if op == "**":
                b = self.small_pos(0, 4)
            elif op in ("<<", ">>"):
                b = self.small_pos(0, 8)
            else:
                b = self.int_expr(d - 1)
            va, vb = self.const_val(a), self.const_val(b)
            if op in ("/", "%") and (va < 0 or vb <= 0):
                continue
            if op == "<<" and va < 0:
                continue
            exact = {"+": lambda: va + vb, "-": lambda: va - vb, "*": lambda: va * vb, "**": lambda: va ** vb,
                     "<<": lambda: va << vb}.get(op)
            if exact is not None and not in32(exact()):
                continue
            return ("bin", op, a, b)
        return self.int_leaf()

    # -- comparisons
    def simple_operand(self):
        r = self.r
        if r.random() < 0.7:
            return self.sig_leaf() if r.random() < 0.9 else self.int_lit()
        return self.int_lit()

    def simple_cmp(self):
        a = self.sig_leaf()
        b = self.simple_operand()
        if a[0] == "lit" and b[0] != "var":
            b = self.sig_leaf()
        return ("cmp", self.r.choice(CMPS), a, b)

    def cmp_expr(self, d):
        r = self.r
        a = self.sig_expr(d - 1)
        b = self.sig_expr(d - 1) if r.random() < 0.5 else self.int_lit()
        return ("cmp", r.choice(CMPS), a, b)

    def cond_condition(self, d):
        r = self.r
        x = r.random()
        bools = [i for i, k in enumerate(self.kinds) if k == "bool"]
        if x < 0.15 and bools:
            return ("var", r.choice(bools))
        if x < 0.45:
            n = r.randint(2, 3)
            kind = r.choice(["and", "or"])
            e = self.simple_cmp()
            for _ in range(n - 1):
                e = (kind, e, self.simple_cmp())
            return e
        return self.cmp_expr(d)

    # -- general signal-valued expression
    def sig_expr(self, d):
        r = self.r
        if d <= 0 or r.random() < 0.25:
            return self.sig_leaf()
        x = r.random()
        if x < 0.40:
            op = r.choice(ARITH)
            a = self.sig_expr(d - 1)
            b = self.sig_expr(d - 1) if r.random() < 0.6 else self.int_expr(1)
            if r.random() < 0.15:
                a, b = b, a
            if self.is_const(a) and self.is_const(b):
                a = self.sig_leaf()
            if self.is_const(a) and (a[0] not in ("int", "var") or (
                    a[0] == "var" and self.decls[a[1]][0] == "int" and self.decls[a[1]][2][0] != "int")):
                # compound constant on the left of a signal: known finding S14 (typed as an implicit
                # signal instead of being absorbed); exercised by its fixed witness
                a = self.int_leaf()
            return ("bin", op, a, b)
        if x < 0.50:
            op = r.choice(BITS)
            a = self.sig_expr(d - 1)
            b = self.sig_expr(d - 1) if r.random() < 0.5 else self.int_lit()
            return ("bin", op, a, b)
        if x < 0.57:
            op = r.choice(["<<", ">>", "**"])
            a = self.sig_expr(d - 1)
            b = self.small_pos(0, 31) if op != "**" else self.small_pos(0, 5)
            return ("bin", op, a, b)
        if x < 0.70:
            return self.cmp_expr(d)
        if x < 0.80:
            kind = r.choice(["and", "or"])
            mk = lambda: (self.cmp_expr(d - 1) if r.random() < 0.6 else self.sig_expr(d - 1))
            return (kind, mk(), mk())
        if x < 0.85:
            return ("not", self.sig_expr(d - 1))
        if x < 0.90:
            return ("neg", self.sig_expr(d - 1))
        if x < 0.95:
            return ("proj", self.sig_expr(d - 1), r.choice(SIGNALS))
        v = self.sig_leaf() if r.random() < 0.7 else self.int_lit()
        if r.random() < 0.3:
            v = self.sig_expr(d - 1)
        return ("cond", self.cond_condition(d), v)

    def program(self, n_inputs=None, n_decls=None):
        r = self.r
        n_inputs = n_inputs or r.randint(1, 4)
        n_decls = n_decls or r.randint(1, 6)
        names = iter("abcdefghijklmnopqrstuvwxyz")
        for _ in range(n_inputs):
            nm = next(names)
            ty = r.choice(SIGNALS[:5]) if r.random() < 0.85 else None
            # declared values 0 and 1 are excluded: known finding S13 (the boolean shortcut of && / ||
            # trusts the declared value of an input); exercised by its fixed witness
            self.decls.append(("in", nm, ty, r.choice([2, 3, 5, 7, 9, 11, 20, -4, 100])))
            self.kinds.append("sig")
            self.consts.append(None)
        for _ in range(n_decls):
            nm = next(names)
            if r.random() < 0.12:
                e = self.int_expr(2)
                self.decls.append(("int", nm, e))
                self.kinds.append("int")
                self.consts.append(self.const_val(e))
            else:
                e = self.sig_expr(self.max_depth)
                if self.is_const(e):
                    e = ("bin", "+", self.sig_leaf(), e)
                self.decls.append(("sig", nm, e))
                self.kinds.append("bool" if e[0] == "cmp" else "sig")
                self.consts.append(None)
        return self.decls


class Unsafe(Exception):
    pass


def const_check(e, kinds, consts):
    """every constant sub-expression must lie in the region where the compiler's unbounded /
    floor arithmetic and the documented int32 run-time arithmetic agree (outside: known finding S2).
    returns the value if e is constant, else None"""
    k = e[0]
    if k == "int":
        return e[1]
    if k == "var":
        # an int, or a named signal whose value is a compile-time constant (the compiler's constant
        # propagation sees through names)
        return consts[e[1]] if kinds[e[1]] in ("int", "sig") else None
    if k == "sel":
        return None
    subs = [const_check(x, kinds, consts) for x in e[1:] if isinstance(x, tuple)]
    if any(s is None for s in subs):
        return None
    if k == "lit" or k == "proj":
        return subs[0]
    if k == "neg":
        v = -subs[0]
    elif k == "not":
        v = 1 if subs[0] == 0 else 0
    elif k == "bin":
        a, b = subs
        op = e[1]
        if op in ("/", "%") and b != 0 and (a < 0 or b < 0):
            raise Unsafe(e)
        if op in ("<<", ">>", "**") and not (0 <= b < 32):
            raise Unsafe(e)
        if op == "<<" and a < 0:
            raise Unsafe(e)
        v = {"+": lambda: a + b, "-": lambda: a - b, "*": lambda: a * b, "**": lambda: a ** b, "<<": lambda: a << b,
             ">>": lambda: a >> b, "/": lambda: 0 if b == 0 else a // b, "%": lambda: 0 if b == 0 else a % b,
             "AND": lambda: a & b, "OR": lambda: a | b, "XOR": lambda: a ^ b}[op]()
    elif k == "cmp":
        from facto_ast import cmp as _cmp
        v = 1 if _cmp(e[1], subs[0], subs[1]) else 0
    elif k == "and":
        v = 1 if (subs[0] != 0 and subs[1] != 0) else 0
    elif k == "or":
        v = 1 if (subs[0] != 0 or subs[1] != 0) else 0
    elif k == "cond":
        v = subs[1] if subs[0] != 0 else 0
    else:
        raise Unsafe(e)
    if not in32(v):
        raise Unsafe(e)
    return v


def program_safe(decls):
    kinds, consts = [], []
    try:
        for d in decls:
            if d[0] in ("in", "source", "bundle"):
                kinds.append("sig")
                consts.append(None)
            else:
                v = const_check(d[2], kinds, consts)
                kinds.append(d[0])
                consts.append(v)
    except Unsafe:
        return False
    return True


def constant_value(decls, e):
    """value of e if it is a compile-time constant over the flat program (typed literals included), else None"""
    kinds, consts = [], []
    try:
        for d in decls:
            if d[0] in ("in", "source", "bundle"):
                kinds.append("sig")
                consts.append(None)
            else:
                v = const_check(d[2], kinds, consts)
                kinds.append(d[0])
                consts.append(v if d[0] == "int" else None)
        return const_check(e, kinds, consts)
    except Unsafe:
        return None


def s14_free(decls):
    """outside the region of known finding S14: no binary operation whose left operand is a compound
    all-integer constant expression (or an int variable initialised by one) and whose right operand is a signal"""
    kinds = [d[0] for d in decls]

    def is_int(e):
        k = e[0]
        if k == "int":
            return True
        if k == "var":
            return kinds[e[1]] == "int"
        if k in ("lit", "sel"):
            return False
        return all(is_int(x) for x in e[1:] if isinstance(x, tuple))

    def simple(e):
        if e[0] == "int":
            return True
        if e[0] == "var":
            d = decls[e[1]]
            return d[0] == "int" and isinstance(d[2], tuple) and d[2][0] == "int"
        return False

    def all_const(e):
        k = e[0]
        if k == "int":
            return True
        if k == "var":
            return kinds[e[1]] == "int"
        if k == "sel":
            return False
        return all(all_const(x) for x in e[1:] if isinstance(x, tuple))

    def all_const(e):
        k = e[0]
        if k == "int":
            return True
        if k == "var":
            return kinds[e[1]] == "int"
        if k == "sel":
            return False
        return all(all_const(x) for x in e[1:] if isinstance(x, tuple))

    def lit_const(e):
        k = e[0]
        if k in ("int", "lit"):
            return True
        if k in ("var", "sel"):
            return k == "var" and kinds[e[1]] == "int"
        return all(lit_const(x) for x in e[1:] if isinstance(x, tuple))

    def ok(e):
        if not isinstance(e, tuple):
            return True
        if e[0] == "bin" and is_int(e[2]) and not is_int(e[3]) and not simple(e[2]):
            return False
        if e[0] == "cond" and all_const(e[1]):
            # a constant condition folds `c : v` to an implicitly typed constant (S14 family)
            return False
        if e[0] == "cond" and e[2][0] == "proj" and lit_const(e[2]):
            # known finding S31 (single-condition form): `c : (("t", k) | "u")` - a projected typed literal as the
            # conditional value - copies the (absent) input count of u instead of emitting k
            return False
        if e[0] == "cond" and e[1][0] in ("and", "or") and e[2][0] not in ("int", "lit", "var") and lit_const(e[2]):
            # known finding S31: a multi-condition `c : v` whose value is a compound constant expression over
            # typed literals copies the (absent) input count instead of emitting the folded constant
            return False
        return all(ok(x) for x in e[1:])

    return all(ok(d[2]) for d in decls if d[0] not in ("in", "source", "bundle"))


def gen_program(seed, **kw):
    for k in range(50):
        g = Gen(random.Random(seed * 50 + k if k else seed), **kw)
        p = g.program()
        if program_safe(p) and s14_free(p):
            return p
    return p
