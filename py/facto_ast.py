"""Generator-side Facto AST: construction, pretty-printing with the minimal parentheses the
documented precedence table allows, reference evaluation (documented semantics) and export
to Coq (Facto/Syntax.v).  Independent of /repo's parser and AST classes.

Expressions are tuples:
  ('int', z) ('lit', ty|None, e) ('var', i) ('bin', op, a, b) ('cmp', op, a, b)
  ('and', a, b) ('or', a, b) ('not', a) ('neg', a) ('proj', a, sig) ('cond', c, v)
Declarations:
  ('in', name, ty|None, value)  ('sig', name, e)  ('int', name, e)
"""
from __future__ import annotations

AOPS = {"+": "Add", "-": "Sub", "*": "Mul", "/": "Div", "%": "Mod", "**": "Pow", "<<": "Shl", ">>": "Shr",
        "AND": "And", "OR": "Or", "XOR": "Xor"}
COPS = {"<": "CLt", ">": "CGt", "==": "CEq", ">=": "CGe", "<=": "CLe", "!=": "CNe"}

# precedence levels (higher binds tighter), from LANGUAGE_SPEC / the documented ladder
L_OR, L_AND, L_COND, L_CMP, L_PROJ, L_BOR, L_BXOR, L_BAND, L_SHIFT, L_ADD, L_MUL, L_POW, L_UNARY, L_PRIM = range(1, 15)
BIN_LEVEL = {"+": L_ADD, "-": L_ADD, "*": L_MUL, "/": L_MUL, "%": L_MUL, "**": L_POW, "<<": L_SHIFT, ">>": L_SHIFT,
             "AND": L_BAND, "OR": L_BOR, "XOR": L_BXOR}

M32 = 1 << 32


def wrap32(z):
    return ((z + (1 << 31)) % M32) - (1 << 31)


def tquot(a, b):
    q = abs(a) // abs(b)
    return q if (a >= 0) == (b >= 0) else -q


def arith(op, a, b):
    """documented run-time semantics (Int32.arith)"""
    if op == "+":
        return wrap32(a + b)
    if op == "-":
        return wrap32(a - b)
    if op == "*":
        return wrap32(a * b)
    if op == "/":
        return 0 if b == 0 else wrap32(tquot(a, b))
    if op == "%":
        return 0 if b == 0 else wrap32(a - b * tquot(a, b))
    if op == "**":
        return wrap32(a ** b) if b >= 0 else None
    if op == "<<":
        return wrap32(a << b) if 0 <= b < 32 else None
    if op == ">>":
        return wrap32(a >> b) if 0 <= b < 32 else None
    if op == "AND":
        return wrap32(a & b)
    if op == "OR":
        return wrap32(a | b)
    if op == "XOR":
        return wrap32(a ^ b)
    raise ValueError(op)


def cmp(op, a, b):
    return {"<": a < b, ">": a > b, "==": a == b, ">=": a >= b, "<=": a <= b, "!=": a != b}[op]


def ev(e, vals):
    """reference value of an expression given the values of earlier declarations"""
    k = e[0]
    if k == "int":
        return wrap32(e[1])
    if k == "lit":
        return ev(e[2], vals)
    if k == "var":
        return vals[e[1]]
    if k == "bin":
        return arith(e[1], ev(e[2], vals), ev(e[3], vals))
    if k == "cmp":
        return 1 if cmp(e[1], ev(e[2], vals), ev(e[3], vals)) else 0
    if k == "and":
        return 1 if (ev(e[1], vals) != 0 and ev(e[2], vals) != 0) else 0
    if k == "or":
        return 1 if (ev(e[1], vals) != 0 or ev(e[2], vals) != 0) else 0
    if k == "not":
        return 1 if ev(e[1], vals) == 0 else 0
    if k == "neg":
        return wrap32(-ev(e[1], vals))
    if k == "proj":
        return ev(e[1], vals)
    if k == "cond":
        return ev(e[2], vals) if ev(e[1], vals) != 0 else 0
    raise ValueError(k)


def level(e):
    k = e[0]
    if k in ("int", "var", "lit"):
        if k == "int" and e[1] < 0:
            return L_UNARY  # printed as -N: a NUMBER token, but keep it safe next to ** and binary minus
        return L_PRIM
    if k == "bin":
        return BIN_LEVEL[e[1]]
    if k == "sel":
        return L_PRIM
    if k in ("any", "all"):
        return L_CMP
    return {"cmp": L_CMP, "and": L_AND, "or": L_OR, "not": L_UNARY, "neg": L_UNARY, "proj": L_PROJ, "cond": L_COND}[k]


def pp(e, names, ctx=0):
    """print e so that it parses back to e in a context demanding level >= ctx"""
    s = _pp(e, names)
    return f"({s})" if level(e) < ctx else s


def _pp(e, names):
    k = e[0]
    if k == "int":
        return str(e[1])
    if k == "var":
        return names[e[1]]
    if k == "lit":
        if e[1] is None:
            return _pp(e[2], names)  # untyped literal: just the number
        return f'("{e[1]}", {pp(e[2], names, 0)})'
    if k == "bin":
        op = e[1]
        L = BIN_LEVEL[op]
        if op == "**":  # right associative: power: unary (POWER_OP power)?
            return f"{pp(e[2], names, L_UNARY)} ** {pp(e[3], names, L_POW)}"
        return f"{pp(e[2], names, L)} {op} {pp(e[3], names, L + 1)}"
    if k == "cmp":
        return f"{pp(e[2], names, L_CMP)} {e[1]} {pp(e[3], names, L_CMP + 1)}"
    if k == "and":
        return f"{pp(e[1], names, L_AND)} && {pp(e[2], names, L_AND + 1)}"
    if k == "or":
        return f"{pp(e[1], names, L_OR)} || {pp(e[2], names, L_OR + 1)}"
    if k == "not":
        return f"!{pp(e[1], names, L_UNARY)}"
    if k == "neg":
        inner = pp(e[1], names, L_UNARY)
        # "--5" / "-5" would lex as a NUMBER; keep the unary operator visible
        return f"-({inner})" if inner[:1] in "-+0123456789" else f"-{inner}"
    if k == "proj":
        return f'{pp(e[1], names, L_PROJ)} | "{e[2]}"'
    if k == "cond":
        return f"{pp(e[1], names, L_CMP)} : {pp(e[2], names, L_PRIM)}"
    if k == "sel":
        return f'{names[e[1]]}["{e[2]}"]'
    if k in ("any", "all"):
        return f"{k}({names[e[2]]}) {e[1]} {pp(e[3], names, L_CMP + 1)}"
    raise ValueError(k)


def pp_bundle(b, names):
    k = b[0]
    if k == "blit":
        return "{ " + ", ".join(pp(e, names, 0) if s is None else pp(e, names, 0) for s, e in b[1]) + " }"
    if k == "bref":
        return names[b[1]]
    if k == "bmerge":
        return "{ " + ", ".join(pp_bundle(x, names).strip("{} ") if x[0] == "blit" else pp_bundle(x, names) for x in b[1:]) + " }"
    if k == "barith":
        return f"{pp_bundle(b[2], names)} {b[1]} {pp(b[3], names, BIN_LEVEL[b[1]] + 1)}"
    if k == "bfilter":
        out = pp_bundle(b[2], names) if b[4] is None else str(b[4])
        return f"({pp_bundle(b[2], names)} {b[1]} {pp(b[3], names, L_CMP + 1)}) : {out}"
    if k == "bgate":
        return f"({pp(b[1], names, L_CMP)}) : {pp_bundle(b[2], names)}"
    raise ValueError(k)


def program_text(decls):
    names = [d[1] for d in decls]
    out = []
    for d in decls:
        if d[0] == "in":
            if d[2] is None:
                out.append(f"Signal {d[1]} = {d[3]};")
            else:
                out.append(f'Signal {d[1]} = ("{d[2]}", {d[3]});')
        elif d[0] == "sig":
            out.append(f"Signal {d[1]} = {pp(d[2], names)};")
        elif d[0] == "int":
            out.append(f"int {d[1]} = {pp(d[2], names)};")
        elif d[0] == "bundle":
            out.append(f"Bundle {d[1]} = {pp_bundle(d[2], names)};")
        elif d[0] == "source":
            pass
    return "\n".join(out) + "\n"


# ------------------------------------------------------------------ Coq export
def zc(n):
    return f"({n})%Z" if n < 0 else f"{n}%Z"


def coq_expr(e, sig):
    k = e[0]
    if k == "int":
        return f"(EInt {zc(e[1])})"
    if k == "lit":
        ty = "None" if e[1] is None else f"(Some {sig.p(e[1])})"
        return f"(ELit {ty} {coq_expr(e[2], sig)})"
    if k == "var":
        return f"(EVar {e[1]}%nat)"
    if k == "bin":
        return f"(EBin {AOPS[e[1]]} {coq_expr(e[2], sig)} {coq_expr(e[3], sig)})"
    if k == "cmp":
        return f"(ECmp {COPS[e[1]]} {coq_expr(e[2], sig)} {coq_expr(e[3], sig)})"
    if k == "and":
        return f"(EAnd {coq_expr(e[1], sig)} {coq_expr(e[2], sig)})"
    if k == "or":
        return f"(EOr {coq_expr(e[1], sig)} {coq_expr(e[2], sig)})"
    if k == "not":
        return f"(ENot {coq_expr(e[1], sig)})"
    if k == "neg":
        return f"(ENeg {coq_expr(e[1], sig)})"
    if k == "proj":
        return f"(EProj {coq_expr(e[1], sig)} {sig.p(e[2])})"
    if k == "cond":
        return f"(ECond {coq_expr(e[1], sig)} {coq_expr(e[2], sig)})"
    if k == "sel":
        return f"(ESel {e[1]}%nat {sig.p(e[2])})"
    if k == "any":
        return f"(EAny {COPS[e[1]]} {e[2]}%nat {coq_expr(e[3], sig)})"
    if k == "all":
        return f"(EAll {COPS[e[1]]} {e[2]}%nat {coq_expr(e[3], sig)})"
    raise ValueError(k)


def coq_bexpr(b, sig):
    k = b[0]
    if k == "blit":
        return "(BLit [" + "; ".join(f"({sig.p(s)}, {coq_expr(e, sig)})" for s, e in b[1]) + "])"
    if k == "bref":
        return f"(BRef {b[1]}%nat)"
    if k == "bmerge":
        t = coq_bexpr(b[1], sig)
        for x in b[2:]:
            t = f"(BMerge {t} {coq_bexpr(x, sig)})"
        return t
    if k == "barith":
        return f"(BArith {AOPS[b[1]]} {coq_bexpr(b[2], sig)} {coq_expr(b[3], sig)})"
    if k == "bfilter":
        kk = "None" if b[4] is None else f"(Some {zc(b[4])})"
        return f"(BFilter {COPS[b[1]]} {coq_bexpr(b[2], sig)} {coq_expr(b[3], sig)} {kk})"
    if k == "bgate":
        return f"(BGate {coq_expr(b[1], sig)} {coq_bexpr(b[2], sig)})"
    raise ValueError(k)


def coq_decls(decls, sig, input_vars, exposed):
    """exposed: set of input names that the blueprint exposes as input combinators; the
    others are treated as the constants they are (both sides)."""
    out = []
    for d in decls:
        if d[0] == "in":
            ty = "None" if d[2] is None else f"(Some {sig.p(d[2])})"
            if d[1] in exposed or d[1].startswith("_"):  # state variables of memory cells / source contents are always free
                out.append(f"(DIn {ty} {input_vars[d[1]]}%positive)")
            else:
                out.append(f"(DSig (ELit {ty} (EInt {zc(d[3])})))")
        elif d[0] == "sig":
            out.append(f"(DSig {coq_expr(d[2], sig)})")
        elif d[0] == "bundle":
            out.append(f"(DBundle {coq_bexpr(d[2], sig)})")
        elif d[0] == "source":
            out.append("(DSource [" + "; ".join(f"({sig.p(s)}, {input_vars[decls[i][1]]}%positive)" for s, i in d[2]) + "])")
        else:
            out.append(f"(DInt {coq_expr(d[2], sig)})")
    return "[" + ";\n   ".join(out) + "]"


def size(e):
    return 1 + sum(size(x) for x in e[1:] if isinstance(x, tuple))


def unfolded_size(decls):
    """size of every declaration's expression tree with variable references expanded"""
    sizes = []
    for d in decls:
        if d[0] in ("in", "bundle", "source"):
            sizes.append(3)
            continue

        def sz(e):
            if e[0] == "var":
                return sizes[e[1]]
            return 1 + sum(sz(x) for x in e[1:] if isinstance(x, tuple))

        sizes.append(sz(d[2]))
    return sizes
