"""Programs with loops, functions and placed entities (generator side), their text, and their
ELABORATION to the flat specification programs of facto_ast / Facto/Syntax.v:
  * a `for` loop is the sequence of copies of its body with the iterator replaced by each
    value of the documented sequence (range_values), body names local to one copy;
  * a call is the function body with parameters bound to the arguments, locals renamed
    apart, and the return expression in place of the call;
exactly as properties C15 / C16 word it.  The flat program is what Denote.v gives meaning to.

statements:
  ('in', name, ty|None, value) ('sig', name, e) ('int', name, e)
  ('for', it, ('range', a, b, step|None) | ('list', [v..]), body)      a, b, step: int or name of an int
  ('func', name, [(kind, pname)..], body, ret)                          kind: 'int' | 'Signal'
  ('place', name, proto, xe, ye, props) ('enable', name, e)
expressions: as facto_ast but ('ref', name) for names and ('call', f, [args]).
"""
from __future__ import annotations

import facto_ast as fa


# what a content source may report (a per-program universe; values are universally quantified)
CONTENT = {
    "steel-chest": ["iron-plate", "copper-plate", "steel-plate"],
    "iron-chest": ["iron-plate", "copper-plate", "steel-plate"],
    "wooden-chest": ["iron-plate", "copper-plate", "steel-plate"],
    "storage-tank": ["water", "crude-oil"],
}


def range_values(a, b, s):
    """the documented iteration sequence: a, a+s, ... strictly before b in the direction of s
    (this is `is_range` of coq/Proofs/ForIterProofs.v); the documented default step is 1, so a
    descending range without an explicit step is empty"""
    if s is None:
        s = 1  # LANGUAGE_SPEC: "step: Optional increment/decrement (default: 1)"; the parser supplies 1
    out = []
    if s == 0:
        return out
    i = a
    while (i < b) if s > 0 else (i > b):
        out.append(i)
        i += s
    return out


# ------------------------------------------------------------------ printing
def pp_expr(e, ctx=0):
    k = e[0]
    if k == "ref":
        return e[1]
    if k == "read":
        return f"{e[1]}.read()"
    if k == "outsel":
        return f'{e[1]}.output["{e[2]}"]'

    if k == "call":
        return f"{e[1]}(" + ", ".join(pp_expr(a) for a in e[2]) + ")"
    # reuse the flat printer by temporarily mapping refs to names
    return fa.pp(_to_named(e), _Names(), ctx)


class _Names:
    def __getitem__(self, k):
        return k


def _to_named(e):
    if not isinstance(e, tuple):
        return e
    if e[0] == "ref":
        return ("var", e[1])
    if e[0] in ("call", "read", "outsel"):
        return ("var", pp_expr(e))
    return tuple(_to_named(x) for x in e)


def pp_stmts(stmts, ind=""):
    out = []
    for s in stmts:
        k = s[0]
        if k == "in":
            out.append(f"{ind}Signal {s[1]} = {s[3]};" if s[2] is None else f'{ind}Signal {s[1]} = ("{s[2]}", {s[3]});')
        elif k == "sig":
            out.append(f"{ind}Signal {s[1]} = {pp_expr(s[2])};")
        elif k == "int":
            out.append(f"{ind}int {s[1]} = {pp_expr(s[2])};")
        elif k == "for":
            it = s[2]
            if it[0] == "range":
                hdr = f"{it[1]}..{it[2]}" + (f" step {it[3]}" if it[3] is not None else "")
            else:
                hdr = "[" + ", ".join(str(v) for v in it[1]) + "]"
            out.append(f"{ind}for {s[1]} in {hdr} {{")
            out.extend(pp_stmts(s[3], ind + "    "))
            out.append(f"{ind}}}")
        elif k == "func":
            ps = ", ".join(f"{kind} {n}" for kind, n in s[2])
            out.append(f"{ind}func {s[1]}({ps}) {{")
            out.extend(pp_stmts(s[3], ind + "    "))
            out.append(f"{ind}    return {pp_expr(s[4])};")
            out.append(f"{ind}}}")
        elif k == "mem":
            out.append(f'{ind}Memory {s[1]}: "{s[2]}";')
        elif k == "write":
            if s[3] is None:
                out.append(f"{ind}{s[1]}.write({pp_expr(s[2])});")
            else:
                out.append(f"{ind}{s[1]}.write({pp_expr(s[2])}, when={pp_expr(s[3])});")
        elif k == "latch":
            a = f"set={pp_expr(s[3])}, reset={pp_expr(s[4])}" if s[5] else f"reset={pp_expr(s[4])}, set={pp_expr(s[3])}"
            out.append(f"{ind}{s[1]}.write({pp_expr(s[2])}, {a});")
        elif k == "place":
            props = ""
            if s[5]:
                props = ", {" + ", ".join(f"{a}: {b}" for a, b in s[5].items()) + "}"
            out.append(f'{ind}Entity {s[1]} = place("{s[2]}", {pp_expr(s[3])}, {pp_expr(s[4])}{props});')
        elif k == "enable":
            out.append(f"{ind}{s[1]}.enable = {pp_expr(s[2])};")
        else:
            raise ValueError(k)
    return out


def text(stmts):
    return "\n".join(pp_stmts(stmts)) + "\n"


# ------------------------------------------------------------------ elaboration
class Elab:
    def __init__(self):
        self.flat = []  # flat decls
        self.scopes = [{}]  # name -> flat expr
        self.funcs = {}
        self.entities = []  # dict(name, proto, x, y, props, enable: flat expr|None)
        self.counter = 0
        self.toplevel = set()
        self.mems = {}  # name -> dict(sig, iw, ih, im, data, when, unconditional)
        self.renamed_cells = []  # (source name, instance name) of second and later elaborations of one declaration

    def lookup(self, n):
        for sc in reversed(self.scopes):
            if n in sc:
                return sc[n]
        raise KeyError(n)

    def const_value(self, fe):
        """integer value of a flat constant expression (spec arithmetic)"""
        vals = []
        for d in self.flat:
            vals.append(fa.ev(d[2], vals) if d[0] == "int" else 0)
        return fa.ev(fe, vals)

    def expr(self, e):
        k = e[0]
        if k == "ref":
            return self.lookup(e[1])
        if k == "call":
            return self.call(e[1], e[2])
        if k == "read":
            m = self.lookup(e[1])[1]
            return ("var", m["im"])
        if k == "outsel":
            # entity.output["sig"]: the contents the entity reports range over all values; every textual
            # use of one entity's output reads the same contents (counted once per use)
            ent = self.entities[self.lookup(e[1])[1]]
            if "source_decl" not in ent:
                content = []
                for sg in CONTENT.get(ent["proto"], []):
                    self.flat.append(("in", f"_c_{ent['name']}_{sg}", sg, 0))
                    content.append((sg, len(self.flat) - 1))
                self.flat.append(("source", f"_src_{ent['name']}", content))
                ent["source_decl"] = len(self.flat) - 1
                ent["content"] = content
            return ("sel", ent["source_decl"], e[2])
        if k == "int":
            return e
        return tuple(self.expr(x) if isinstance(x, tuple) else x for x in e)

    def fresh(self, name, depth_local):
        if not depth_local and name not in [d[1] for d in self.flat]:
            return name
        self.counter += 1
        return f"{name}#{self.counter}"

    def call(self, f, args):
        params, body, ret = self.funcs[f]
        sc = {}
        for (kind, pn), a in zip(params, args):
            fe = self.expr(a)
            if kind == "int":
                fe = ("int", self.const_value(fe))
            elif fe[0] == "int":
                # an int given for a Signal parameter is a signal of compiler-chosen type inside the body
                # (as `Signal p = 2;` would be), not a bare integer: its type is left open
                fe = ("lit", None, fe)
            sc[pn] = fe
        self.scopes.append(sc)
        self.stmts(body, local=True)
        r = self.expr(ret)
        self.scopes.pop()
        return r

    def stmts(self, stmts, local=False):
        for s in stmts:
            k = s[0]
            if k == "in":
                nm = self.fresh(s[1], local)
                self.flat.append(("in", nm, s[2], s[3]))
                self.scopes[-1][s[1]] = ("var", len(self.flat) - 1)
            elif k in ("sig", "int"):
                fe = self.expr(s[2])
                nm = self.fresh(s[1], local)
                self.flat.append((k, nm, fe))
                self.scopes[-1][s[1]] = ("var", len(self.flat) - 1)
                if not local:
                    self.toplevel.add(nm)
            elif k == "for":
                it = s[2]
                if it[0] == "range":
                    rv = lambda x: x if isinstance(x, int) else (None if x is None else self.const_value(self.lookup(x)))
                    vals = range_values(rv(it[1]), rv(it[2]), rv(it[3]))
                else:
                    vals = list(it[1])
                for v in vals:
                    self.scopes.append({s[1]: ("int", v)})
                    self.stmts(s[3], local=True)
                    self.scopes.pop()
            elif k == "func":
                self.funcs[s[1]] = (s[2], s[3], s[4])
            elif k == "mem":
                # the cell's content enters the specification through state variables: the outputs of the
                # state-holding combinators the compiler emits for it.  Which ones depends on how the cell is
                # written (look ahead in this statement list):
                #   gated write     : read = vw + vh           (write gate + hold gate)
                #   self-referential unconditional write: read = vr (last combinator of the feedback ring), or
                #                     vw + vh when the compiler keeps the gate pair (decided per blueprint)
                #   latch           : read = value * bit
                n = s[1]
                # every elaboration of a declaration is its own cell (a function body declaring a memory gives
                # each call site a cell of its own): the first instance keeps the source name, later ones are
                # renamed apart
                inst = n
                if inst in self.mems:
                    k_ = 2
                    while f"{n}#{k_}" in self.mems:
                        k_ += 1
                    inst = f"{n}#{k_}"
                    self.renamed_cells.append((n, inst))
                later = [x for x in stmts if x[0] in ("write", "latch") and x[1] == n]
                kind = "gated"
                if later and later[0][0] == "latch":
                    kind = "latch"
                elif later and later[0][3] is None and ("'read', '" + n + "'") in repr(later[0][2]):
                    kind = "ring"
                m = {"name": inst, "sig": s[2], "kind": kind, "data": None, "when": None}
                self.flat.append(("in", f"_mw_{inst}", s[2], 0))
                m["iw"] = len(self.flat) - 1
                self.flat.append(("in", f"_mh_{inst}", s[2], 0))
                m["ih"] = len(self.flat) - 1
                if kind == "gated":
                    self.flat.append(("sig", f"_m_{inst}", ("bin", "+", ("var", m["iw"]), ("var", m["ih"]))))
                    m["im"] = len(self.flat) - 1
                elif kind == "ring":
                    self.flat.append(("in", f"_mr_{inst}", s[2], 0))
                    m["ir"] = len(self.flat) - 1
                    self.flat.append(("sig", f"_m_{inst}", ("var", m["ir"])))
                    m["im"] = len(self.flat) - 1
                else:
                    self.flat.append(("in", f"_ml_{inst}", s[2], 0))
                    m["il"] = len(self.flat) - 1
                    m["im"] = None  # defined by the latch statement (needs the written value)
                self.mems[inst] = m
                self.scopes[-1][n] = ("mem", m)
            elif k == "write":
                m = self.lookup(s[1])[1]
                m["data"] = self.expr(s[2])
                m["when"] = self.expr(s[3]) if s[3] is not None else None
            elif k == "latch":
                m = self.lookup(s[1])[1]
                val = self.expr(s[2])
                self.flat.append(("sig", "_m_" + m["name"], ("bin", "*", val, ("var", m["il"]))))
                m["im"] = len(self.flat) - 1
                m["set"], m["reset"], m["set_first"] = self.expr(s[3]), self.expr(s[4]), bool(s[5])
            elif k == "place":
                x = self.const_value(self.expr(s[3]))
                y = self.const_value(self.expr(s[4]))
                ent = {"name": s[1], "proto": s[2], "x": x, "y": y, "props": dict(s[5] or {}), "enable": None}
                self.entities.append(ent)
                self.scopes[-1][s[1]] = ("entity", len(self.entities) - 1)
            elif k == "enable":
                ref = self.lookup(s[1])
                self.entities[ref[1]]["enable"] = self.expr(s[2])
            else:
                raise ValueError(k)


def elaborate(stmts):
    el = Elab()
    el.stmts(stmts)
    return el
