"""Blueprint JSON (as printed by the compiler) -> Coq term of type Circuit.bp.

Applies the exporter defaults that draftsman omits (operation "*", comparator "<",
constant 0, both networks selected, copy_count_from_input true, output constant 1,
compare_type "or"), interns signal names, and computes circuit-network ids (connected
components of the wires of one colour)."""
from __future__ import annotations

import json
import re

COMBINATORS = {"arithmetic-combinator", "decider-combinator", "selector-combinator"}
WILD = {"signal-each": "WEach", "signal-anything": "WAny", "signal-everything": "WEvery"}
AOPS = {"+": "Add", "-": "Sub", "*": "Mul", "/": "Div", "%": "Mod", "^": "Pow", "<<": "Shl", ">>": "Shr",
        "AND": "And", "OR": "Or", "XOR": "Xor"}
COPS = {"<": "CLt", ">": "CGt", "=": "CEq", "==": "CEq", "≥": "CGe", ">=": "CGe", "≤": "CLe", "<=": "CLe",
        "≠": "CNe", "!=": "CNe"}
POLES = {"small-electric-pole", "medium-electric-pole", "big-electric-pole", "substation"}


class Unsupported(Exception):
    pass


def zc(n: int) -> str:
    return f"({n})%Z" if n < 0 else f"{n}%Z"


def b(x: bool) -> str:
    return "true" if x else "false"


class Interner:
    def __init__(self):
        self.ids = {}

    def __call__(self, name):
        if name not in self.ids:
            self.ids[name] = len(self.ids) + 1
        return self.ids[name]

    def p(self, name):
        return f"{self(name)}%positive"


class DSU:
    def __init__(self):
        self.p = {}

    def find(self, x):
        self.p.setdefault(x, x)
        while self.p[x] != x:
            self.p[x] = self.p[self.p[x]]
            x = self.p[x]
        return x

    def union(self, a, c):
        ra, rc = self.find(a), self.find(c)
        if ra != rc:
            self.p[max(ra, rc)] = min(ra, rc)


def entities_of(bpj):
    return bpj["blueprint"].get("entities", [])


def wires_of(bpj):
    return bpj["blueprint"].get("wires", [])


def nets(bpj):
    """returns dict (entity_number, connector) -> net id (1-based), only for wired circuit connectors.
    Red ids and green ids are separate name spaces."""
    dsu = DSU()
    touched = set()
    for e1, c1, e2, c2 in wires_of(bpj):
        if c1 == 5 or c2 == 5:
            continue
        if (c1 % 2) != (c2 % 2):
            raise Unsupported(f"wire joins different colours: {[e1, c1, e2, c2]}")
        dsu.union((e1, c1), (e2, c2))
        touched.add((e1, c1))
        touched.add((e2, c2))
    roots = {}
    out = {}
    for key in sorted(touched):
        r = dsu.find(key)
        colour = key[1] % 2  # 1 red, 0 green
        rid = roots.setdefault((colour, r), len([k for k in roots if k[0] == colour]) + 1)
        out[key] = rid
    return out


def net_certificate(bpj, tag):
    """Coq definitions that let the kernel re-derive the net ids of `nets(bpj)` from the wires: per colour
    the wire list, the id map, a rooted forest (parent pointers with depths, found by breadth-first search)
    and the roots; plus the entity numbers in term order.  Returns (definitions, boolean expression).
    Valid/.. Factorio/Nets.v: bp_nets_ok_sound."""
    nm = nets(bpj)
    nums = [int(e["entity_number"]) for e in entities_of(bpj)]

    def cn(k):
        return f"({k[0]}%N, {k[1]}%N)"

    defs = [f"Definition nums_{tag} : list N := [{'; '.join(str(n) + '%N' for n in nums)}]."]
    for col, cname in ((1, "r"), (0, "g")):
        ws = [((e1, c1), (e2, c2)) for e1, c1, e2, c2 in wires_of(bpj) if c1 != 5 and c2 != 5 and c1 % 2 == col]
        ids = {k: v for k, v in nm.items() if k[1] % 2 == col}
        adj = {}
        for a, b in ws:
            adj.setdefault(a, []).append(b)
            adj.setdefault(b, []).append(a)
        roots, rows = {}, []
        seen = set()
        for k in sorted(ids):
            if k in seen:
                continue
            roots[ids[k]] = k
            seen.add(k)
            rows.append((k, k, 0))
            queue = [(k, 0)]
            while queue:
                u, d = queue.pop(0)
                for v in adj.get(u, []):
                    if v not in seen:
                        seen.add(v)
                        rows.append((v, u, d + 1))
                        queue.append((v, d + 1))
        defs.append(f"Definition w{cname}_{tag} : list wire := [{'; '.join('(' + cn(a) + ', ' + cn(b) + ')' for a, b in ws)}].")
        defs.append(f"Definition m{cname}_{tag} : idmap := [{'; '.join('(' + cn(k) + ', ' + str(v) + '%N)' for k, v in sorted(ids.items()))}].")
        defs.append(f"Definition c{cname}_{tag} : cert := [" + "; ".join(
            f"{{| cr_c := {cn(c)}; cr_parent := {cn(p_)}; cr_depth := {d}%nat |}}" for c, p_, d in rows) + "].")
        defs.append(f"Definition r{cname}_{tag} : roots := [{'; '.join('(' + str(i) + '%N, ' + cn(c) + ')' for i, c in sorted(roots.items()))}].")
    expr = (f"bp_nets_ok bp_{tag} nums_{tag} wr_{tag} wg_{tag} mr_{tag} mg_{tag} cr_{tag} cg_{tag} rr_{tag} rg_{tag}")
    return "\n".join(defs) + "\n", expr


DESC_INPUT = re.compile(r"^(?:\[[^\]]*\]\s*)?(?:computing\s+)?(\S+) \(value=(-?\d+) \(input\)\)")
DESC_ANCHOR = re.compile(r"^(?:\[[^\]]*\]\s*)?(\S+) \(output anchor\)(?:\s*->\s*(\S+))?")


def input_name(e):
    m = DESC_INPUT.match(e.get("player_description", "") or "")
    return m.group(1) if m else None


def anchor_name(e):
    m = DESC_ANCHOR.match(e.get("player_description", "") or "")
    return (m.group(1), m.group(2)) if m else None


class Exporter:
    def __init__(self, bpj, input_vars=None, extra_signals=(), source_contents=None):
        """input_vars: dict variable-name -> var id; a constant combinator whose description
        marks it as the input of that name gets CIn ids instead of its constants.
        source_contents: dict entity_number -> list of (signal name, var id) for content sources."""
        self.j = bpj
        self.sig = Interner()
        self.input_vars = input_vars or {}
        self.source_contents = source_contents or {}
        for s in extra_signals:
            self.sig(s)
        self.net = nets(bpj)
        self.index = {}  # entity_number -> position
        self.used_inputs = {}
        self.ideal = None

    def set_ideal(self, harvest):
        """idealised wiring from the compiler's own logical edges: every consumer gets private
        input networks (one per colour); a producer drives the private networks of exactly the
        consumers it has an edge to, on the colour the compiler chose for that edge."""
        num = id_to_number(self.j, harvest)
        ins = {}
        outs = {}
        for src, snk, sig, col, *_m in harvest["edges"]:
            if src not in num or snk not in num:
                raise Unsupported(f"edge endpoint without entity: {src}->{snk}")
            s, k = num[src], num[snk]
            c = 1 if col == "red" else 2
            ins.setdefault((k, c), k)
            outs.setdefault((s, c), [])
            if k not in outs[(s, c)]:
                outs[(s, c)].append(k)
        self.ideal = (ins, outs)

    def nid(self, en, c):
        if self.ideal is not None:
            return f"{self.ideal[0].get((en, c), 0)}%N"
        return f"{self.net.get((en, c), 0)}%N"

    def nids_out(self, en, c):
        """networks driven by output connector c of entity en (c: 1/2 for one-sided entities, 3/4
        for combinator outputs)"""
        if self.ideal is not None:
            col = 1 if c % 2 == 1 else 2
            return "[" + "; ".join(f"{k}%N" for k in self.ideal[1].get((en, col), [])) + "]"
        n = self.net.get((en, c), 0)
        return f"[{n}%N]" if n else "[]"

    def sname(self, sd):
        return sd["name"]

    def operand(self, cond, which, wild_ok=True):
        s = cond.get(f"{which}_signal")
        nets_ = cond.get(f"{which}_signal_networks", {})
        r, g = nets_.get("red", True), nets_.get("green", True)
        if s is not None:
            nm = self.sname(s)
            if nm in WILD:
                return f"(OW {WILD[nm]} {b(r)} {b(g)})"
            return f"(OS {self.sig.p(nm)} {b(r)} {b(g)})"
        k = cond.get(f"{which}_constant", cond.get("constant", 0) if which == "second" else 0)
        return f"(OC {zc(int(k))})"

    def sref(self, s):
        nm = self.sname(s)
        if nm in WILD:
            return f"(RW {WILD[nm]})"
        return f"(RS {self.sig.p(nm)})"

    def dcond(self, c, first):
        a = self.operand(c, "first")
        bb = self.operand(c, "second")
        op = COPS[c.get("comparator", "<")]
        is_and = (c.get("compare_type", "or") == "and") and not first
        return f"{{| c_a := {a}; c_op := {op}; c_b := {bb}; c_and := {b(is_and)} |}}"

    def entity_cond(self, cb):
        c = cb.get("circuit_condition")
        if c is None:
            return "None"
        return "(Some " + self.dcond(c, True) + ")"

    def kind(self, e):
        name = e["name"]
        cb = e.get("control_behavior", {}) or {}
        en = e["entity_number"]
        if name == "constant-combinator":
            on = cb.get("is_on", True)
            vals = []
            inp = input_name(e)
            secs = (cb.get("sections") or {}).get("sections", [])
            filters = [f for s in secs for f in s.get("filters", [])]
            if inp is not None and inp in self.input_vars and len(filters) == 1:
                f = filters[0]
                self.used_inputs[inp] = (f["name"], int(f.get("count", 0)))
                vals.append(f"({self.sig.p(f['name'])}, CIn {self.input_vars[inp]}%positive)")
            else:
                for f in filters:
                    vals.append(f"({self.sig.p(f['name'])}, CK {zc(int(f.get('count', 0)))})")
            return f"(KConst {b(on)} [{'; '.join(vals)}])", (0, 0, 1, 2)
        if name == "arithmetic-combinator":
            ac = cb.get("arithmetic_conditions", {})
            a = self.operand(ac, "first")
            bb = self.operand(ac, "second")
            op = AOPS[ac.get("operation", "*")]
            out = ac.get("output_signal")
            if out is None:
                return "(KPassive false None)", (1, 2, 0, 0)
            return f"(KArith {a} {op} {bb} {self.sref(out)})", (1, 2, 3, 4)
        if name == "decider-combinator":
            dc = cb.get("decider_conditions", {})
            conds = [self.dcond(c, i == 0) for i, c in enumerate(dc.get("conditions", []))]
            outs = []
            for o in dc.get("outputs", []):
                nets_ = o.get("networks", {})
                outs.append(
                    f"{{| d_sig := {self.sref(o['signal'])}; d_copy := {b(o.get('copy_count_from_input', True))}; "
                    f"d_const := {zc(int(o.get('constant', 1)))}; d_r := {b(nets_.get('red', True))}; "
                    f"d_g := {b(nets_.get('green', True))} |}}"
                )
            return f"(KDecider [{'; '.join(conds)}] [{'; '.join(outs)}])", (1, 2, 3, 4)
        if name in POLES:
            return "KPole", (1, 2, 0, 0)
        if en in self.source_contents:
            vals = [f"({self.sig.p(s)}, CIn {v}%positive)" for s, v in self.source_contents[en]]
            return f"(KConst true [{'; '.join(vals)}])", (0, 0, 1, 2)
        if name in COMBINATORS:
            raise Unsupported(f"combinator {name}")
        # any other entity: reads its circuit condition, never drives (content sources are
        # handled above)
        enabled = bool(cb.get("circuit_enabled", cb.get("circuit_enable_disable", False)))
        return f"(KPassive {b(enabled)} {self.entity_cond(cb)})", (1, 2, 0, 0)

    def structured(self, drop_poles=True):
        """list of (kind text, ir, ig, [or], [og]) with integer net ids, for matching two builds"""
        out = []
        for e in entities_of(self.j):
            if drop_poles and e["name"] in POLES:
                continue
            k, (ir, ig, orr, og) = self.kind(e)
            en = e["entity_number"]
            g = lambda c: self.net.get((en, c), 0) if c else 0
            gl = lambda c: [self.net[(en, c)]] if (c and (en, c) in self.net) else []
            out.append((k, g(ir), g(ig), gl(orr), gl(og)))
        return out

    def export(self, name="the_bp"):
        ents = []
        for i, e in enumerate(entities_of(self.j)):
            self.index[e["entity_number"]] = i
            k, (ir, ig, orr, og) = self.kind(e)
            en = e["entity_number"]
            f = lambda c: self.nid(en, c) if c else "0%N"
            fl = lambda c: self.nids_out(en, c) if c else "[]"
            ents.append(
                f"{{| e_kind := {k}; e_ir := {f(ir)}; e_ig := {f(ig)}; e_or := {fl(orr)}; e_og := {fl(og)} |}}"
            )
        univ = "; ".join(f"{i}%positive" for i in sorted(self.sig.ids.values()))
        body = ";\n  ".join(ents)
        return f"Definition {name} : bp := {{| b_ents := [\n  {body}];\n b_univ := [{univ}] |}}.\n"

    def anchors(self):
        """list of (var name, declared signal name or None, entity_number)"""
        out = []
        for e in entities_of(self.j):
            a = anchor_name(e)
            if a and e["name"] == "constant-combinator":
                out.append((a[0], a[1], e["entity_number"]))
        return out


def id_to_number(bpj, harvest):
    """map the compiler's placement ids to blueprint entity numbers through (prototype, position)"""
    by_pos = {}
    for e in entities_of(bpj):
        by_pos[(e["name"], round(float(e["position"]["x"]) * 2), round(float(e["position"]["y"]) * 2))] = e["entity_number"]
    out = {}
    for k, (ty, x, y, role) in harvest["places"].items():
        n = by_pos.get((ty, round(x * 2), round(y * 2)))
        if n is not None:
            out[k] = n
    return out


def side(name, is_source):
    if name in COMBINATORS:
        return (3, 4) if is_source else (1, 2)
    return (1, 2)


def partition_expected(bpj, harvest):
    """the partition of connectors the compiler's own design implies: each logical edge joins the
    producer's output connector and the consumer's input connector of the chosen colour"""
    num = id_to_number(bpj, harvest)
    names = {e["entity_number"]: e["name"] for e in entities_of(bpj)}
    dsu = DSU()
    touched = set()
    for src, snk, sig, col, *_m in harvest["edges"]:
        if src not in num or snk not in num:
            return None
        ci = 0 if col == "red" else 1
        a = (num[src], side(names[num[src]], True)[ci])
        c = (num[snk], side(names[num[snk]], False)[ci])
        dsu.union(a, c)
        touched.add(a)
        touched.add(c)
    groups = {}
    for k in touched:
        groups.setdefault(dsu.find(k), set()).add(k)
    return {frozenset(g) for g in groups.values() if len(g) > 1}


def partition_actual(bpj):
    names = {e["entity_number"]: e["name"] for e in entities_of(bpj)}
    n = nets(bpj)
    groups = {}
    for (en, c), nid in n.items():
        if names[en] in POLES:
            continue
        groups.setdefault((c % 2, nid), set()).add((en, c))
    return {frozenset(g) for g in groups.values() if len(g) > 1}


def s10_region(bpj, harvest):
    """known finding S10: a multi-condition decider whose rows carry no per-row network selection
    receives the same signal name from two different producers"""
    num = id_to_number(bpj, harvest)
    multi = set()
    for e in entities_of(bpj):
        if e["name"] == "decider-combinator":
            dc = (e.get("control_behavior") or {}).get("decider_conditions", {})
            if len(dc.get("conditions", [])) >= 2:
                multi.add(e["entity_number"])
    seen = {}
    for src, snk, sig, col, *_m in harvest["edges"]:
        k = num.get(snk)
        if k in multi:
            seen.setdefault((k, sig), set()).add(src)
    return any(len(v) >= 2 for v in seen.values())


def s16_region(bpj, harvest):
    """known finding S16: the colouring constraints of the compiler's own logical edges cannot be met with two
    colours.  Constraints: the members of one wire merge share a colour (they are one operand); producers (or
    merges) of one signal name that reach the same consumer as different operands must differ.  Unsatisfiable
    when two operands of one consumer share a producer, when merge-mates must differ at another consumer, or
    when the difference graph over the merged classes has an odd cycle (e.g. three independent producers of one
    signal at one consumer).  The compiler only logs this and proceeds."""
    dsu = DSU()
    groups = {}
    for src, snk, sig, col, *m in harvest["edges"]:
        mid = m[0] if m else None
        key = ("merge", mid, sig) if mid else ("src", src, sig)
        groups.setdefault((snk, sig), {}).setdefault(key, set()).add((src, sig))
        dsu.find((src, sig))
    # merge-mates share a colour
    for per_sink in groups.values():
        for key, srcs in per_sink.items():
            srcs = sorted(srcs)
            for s_ in srcs[1:]:
                dsu.union(srcs[0], s_)
    # the feedback of a memory cell is locked to red (a producer wired to itself marks it)
    locked = {dsu.find((src, sig)) for src, snk, sig, col, *m in harvest["edges"] if src == snk}
    adj = {}
    for (snk_, _sig), per_sink in groups.items():
        classes = []
        for key, srcs in sorted(per_sink.items()):
            if all(s_[0] == snk_ for s_ in srcs):
                continue   # the consumer's own feedback is not an operand to be kept apart
            classes.append({dsu.find(s_) for s_ in srcs})
        for i, a in enumerate(classes):
            for b_ in classes[i + 1:]:
                if a & b_:
                    return True   # two operands that must differ contain producers that must agree
                if (a & locked) and (b_ & locked):
                    return True   # both are locked to red
                for x in a:
                    for y in b_:
                        adj.setdefault(x, set()).add(y)
                        adj.setdefault(y, set()).add(x)
    colour = {}
    for start in adj:
        if start in colour:
            continue
        colour[start] = 0
        stack = [start]
        while stack:
            u = stack.pop()
            for v in adj[u]:
                if v not in colour:
                    colour[v] = 1 - colour[u]
                    stack.append(v)
                elif colour[v] == colour[u]:
                    return True
    return False


# what an entity's circuit output may carry in this model (the per-program content universe of facto_rich)
ENTITY_CONTENT = {
    "steel-chest": ["iron-plate", "copper-plate", "steel-plate"],
    "iron-chest": ["iron-plate", "copper-plate", "steel-plate"],
    "wooden-chest": ["iron-plate", "copper-plate", "steel-plate"],
    "storage-tank": ["water", "crude-oil"],
}


def s27_region(bpj, harvest):
    """known finding S27: the colouring only separates producers of one *edge label*; an entity's `.output`
    travels as one edge labelled "bundle", so a computed value on a signal the entity also reports is put on
    the same colour as that entity's output at a common consumer and the two are summed"""
    num = id_to_number(bpj, harvest)
    names = {e["entity_number"]: e["name"] for e in entities_of(bpj)}
    by_sink = {}
    for src, snk, sig, col, *_m in harvest["edges"]:
        by_sink.setdefault((snk, col), []).append((src, sig))
    for (snk, col), lst in by_sink.items():
        for src, sig in lst:
            if sig != "bundle":
                continue
            content = ENTITY_CONTENT.get(names.get(num.get(src)), [])
            if any(s2 in content and src2 != src for src2, s2 in lst):
                return True
    return False


def s17_region(bpj, harvest):
    """known finding S17: a producer in the compiler's logical edge list has no entity in the blueprint
    (an anonymous folded constant that is a wire-merge operand is never materialised)"""
    num = id_to_number(bpj, harvest)
    return any(src not in num for src, snk, sig, col, *m in harvest["edges"])


def load(text):
    return json.loads(text)
