"""Check compiled stateless programs against the source semantics (Facto/Denote.v) with the
verified validator check_c01, classify failures against the known findings, and search for a
concrete failing input.  Used by C01 and by every property that reduces to "the blueprint of
this text means what that specification program denotes" (C10-C13, C15-C17, C20)."""
from __future__ import annotations

import json
import random

import bpexport
import facto_ast as fa
import harness as H
import scalar_check as S


class Item:
    def __init__(self, iid, decls, text=None, opts=None, note=None, entities=None, c20=False, mems=None):
        self.id = str(iid)
        self.decls = decls
        self.text = text if text is not None else fa.program_text(decls)
        self.opts = opts or {}
        self.note = note
        self.entities = entities
        self.c20 = c20
        self.mems = mems
        self.status = None  # 'pass' | 'known:<id>' | 'violation' | 'skipped:<why>'
        self.detail = {}
        self.bpj = None
        self.harvest = None


def s19_region(item):
    """known finding S19: with optimisation, CSE makes the two operands of a wire merge the same
    node (`E + v` where v was declared as E); the merged producer is then counted twice"""
    if not item.opts.get("optimize", True):
        return False
    decls = item.decls

    def res(e):
        while e[0] == "var" and decls[e[1]][0] == "sig":
            e = decls[e[1]][2]
        return e

    def walk(e):
        if not isinstance(e, tuple):
            return False
        if e[0] == "bin" and e[1] == "+":
            a, b = e[2], e[3]
            if res(a)[0] == "sel" and decls[res(a)[1]][0] == "source":
                pass  # two reads of one entity's .output are distinct nodes (nothing for CSE to merge)
            elif (a[0] == "var") != (b[0] == "var") and repr(res(a)) == repr(res(b)):
                return True
            elif a[0] != "var" and b[0] != "var" and repr(a) == repr(b):
                return True
        return any(walk(x) for x in e[1:])

    return any(walk(d[2]) for d in decls if d[0] != "in")


def s9_region(item):
    """known finding S9: with optimisation, a condition folded to a constant by ConstantPropagation is not
    rewired to the entity whose .enable consumes it (property writes are skipped by _update_references)"""
    if not item.opts.get("optimize", True) or not item.entities:
        return False
    kinds = [d[0] for d in item.decls]

    def const(e):
        if e[0] == "int":
            return True
        if e[0] == "var":
            return kinds[e[1]] == "int"
        if e[0] == "sel":
            return False
        return all(const(x) for x in e[1:] if isinstance(x, tuple))

    return any(en.get("enable") is not None and en["enable"][0] not in ("int",) and const(en["enable"])
               for en in item.entities)


def s39_region(item):
    """known finding S39: without optimisation, an operand of && / || that folds to a compile-time constant
    is compared with 0 by a decider whose BOTH operands are constants; it is emitted as `signal-0 != 0`
    (always false), so `b || <constant true>` is 0 for b = 0"""
    if item.opts.get("optimize", True):
        return False
    kinds = [d[0] for d in item.decls]

    def const(e):
        if e[0] == "int":
            return True
        if e[0] == "var":
            return kinds[e[1]] == "int"
        if e[0] == "sel":
            return False
        return all(const(x) for x in e[1:] if isinstance(x, tuple))

    def has_lit(e):
        return isinstance(e, tuple) and (e[0] == "lit" or any(has_lit(x) for x in e[1:]))

    def walk(e):
        if not isinstance(e, tuple):
            return False
        if e[0] in ("and", "or") and any(const(x) and x[0] != "int" for x in e[1:]):
            return True
        # likewise `!k` and `k1 CMP k2` over constants that involve a typed literal (pure integers fold earlier)
        if e[0] == "not" and const(e[1]) and has_lit(e[1]):
            return True
        if e[0] == "cmp" and const(e[2]) and const(e[3]) and (has_lit(e[2]) or has_lit(e[3])):
            return True
        return any(walk(x) for x in e[1:])

    return any(walk(d[2]) for d in item.decls if d[0] in ("sig", "int"))


def s43_region(item):
    """known finding S43: with optimisation, a named signal whose value is a compile-time constant is replaced
    by a folded constant node, but rows of a multi-condition decider (a && / || chain of comparisons) that
    mention it are not rewired to that node: the row reads 0"""
    if not item.opts.get("optimize", True):
        return False
    decls = item.decls
    kinds = [d[0] for d in decls]

    def const(e):
        if e[0] in ("int", "lit"):
            return e[0] == "int" or const(e[2])
        if e[0] == "var":
            return kinds[e[1]] == "int" or (kinds[e[1]] == "sig" and const(decls[e[1]][2]))
        if e[0] == "sel":
            return False
        return all(const(x) for x in e[1:] if isinstance(x, tuple))

    def chain_cmps(e, op):
        if e[0] == op:
            return chain_cmps(e[1], op) + chain_cmps(e[2], op)
        return [e]

    def walk(e):
        if not isinstance(e, tuple):
            return False
        if e[0] in ("and", "or"):
            for c in chain_cmps(e, e[0]):
                if c[0] == "cmp" and any(x[0] == "var" and kinds[x[1]] == "sig" and const(x) for x in c[2:]):
                    return True
        return any(walk(x) for x in e[1:])

    exprs = [d[2] for d in decls if d[0] in ("sig", "int")]
    exprs += [en["enable"] for en in (item.entities or []) if en.get("enable") is not None]
    exprs += [m_[k] for m_ in (getattr(item, "mems", None) or {}).values() for k in ("data", "when", "set", "reset") if m_.get(k) is not None]
    return any(walk(e) for e in exprs)


def _classify_wiring(item):
    """the blueprint fails although the idealised private-network circuit built from the
    compiler's own logical edges passes: it is the known design defect S12 only if the
    physical partition is exactly the one those edges imply"""
    pe = bpexport.partition_expected(item.bpj, item.harvest)
    pa = bpexport.partition_actual(item.bpj)
    return pe is not None and pe == pa


def check_items(prop, items, seed=0, do_search=True, per=6):
    """fills item.status / item.detail; returns coq command description and number of kernel-checked passes"""
    todo = [it for it in items if getattr(it, "preset_bpj", None) is None]
    res_c = iter(H.compile_many([(it.text, it.opts) for it in todo]))
    res = [("ok", json.dumps(it.preset_bpj), None) if getattr(it, "preset_bpj", None) is not None else next(res_c)
           for it in items]
    cases = []
    defs_by = {}
    for it, r in zip(items, res):
        if r[0] != "ok":
            it.status = "violation"
            it.detail = {"kind": "compile-" + r[0], "message": r[1]}
            continue
        it.bpj = json.loads(r[1])
        it.harvest = r[2] if len(r) > 2 else None
        try:
            defs, expr, meta = S.case_for(it.id, it.decls, it.bpj, entities=it.entities, c20=it.c20, mems=it.mems, harvest=it.harvest,
                                          embed_parts=getattr(it, "parts", None))
        except bpexport.Unsupported as e:
            it.status = "violation"
            it.detail = {"kind": "unsupported-blueprint", "message": str(e)}
            continue
        it.meta = meta
        if meta.get("mem_problems") and getattr(it, "s5", False):
            it.status = "known:S5"
            continue
        if meta.get("entity_problems") or meta.get("mem_problems"):
            it.status = "violation"
            it.detail = {"kind": "placed entity / memory gate not found exactly once",
                         "entities": meta.get("entity_problems"), "memories": meta.get("mem_problems"),
                         "failing_input": "none needed (structural)"}
            continue
        if not meta["outputs"]:
            it.status = "skipped:no-outputs"
            continue
        if meta.get("c20_expr"):
            cases.append((it.id, defs, [("", expr), ("A", meta["c20_expr"])]))
        elif meta.get("embed_expr"):
            cases.append((it.id, defs, [("", expr), ("E", meta["embed_expr"])]))
        else:
            cases.append((it.id, defs, expr))
        defs_by[it.id] = defs
    extra_imports = S.EXTRA + (" Proofs.EmbedProofs" if any(getattr(it, "parts", None) for it in items) else "")
    results, logs, cmd = H.shard_cases(prop, cases, extra_imports, per=per)
    for it in items:
        if getattr(it, "meta", None) and it.meta.get("c20_expr") and (it.id + "A") in results:
            it.c20_ok = bool(results.get(it.id + "A"))
    by_id = {it.id: it for it in items}
    failing = []
    unfinished = set(results.get("__unfinished__", []))
    for cid, _, _ in cases:
        it = by_id[cid]
        if any((str(cid) + sfx) in unfinished for sfx in ("", "E", "A")):
            # no verdict: the kernel-checked evaluation was stopped by the time limit even when run alone
            it.status = "violation"
            it.detail = {"kind": "the certificate's evaluation did not finish within the time limit (no verdict)"}
            continue
        if getattr(it, "meta", None) and it.meta.get("embed_expr") and not results.get(str(cid) + "E"):
            # the compiled program does not embed one of its parts as claimed: Props/C12.v does not apply
            it.status = "violation"
            it.detail = {"kind": "embedding of the independent parts not certified (embeds = false)",
                         "parts": [r_ for _, r_ in getattr(it, "parts", [])], "failing_input": "none needed (structural)"}
            continue
        if results[str(cid)]:
            it.status = "pass"
        else:
            failing.append(it)
    # second pass: idealised circuits for the failing ones
    icases = []
    for it in failing:
        if not it.harvest or "edges" not in it.harvest:
            it.ideal = None
            continue
        try:
            defs, expr, meta = S.case_for(it.id, it.decls, it.bpj, ideal=it.harvest, entities=it.entities, c20=it.c20, mems=it.mems)
            icases.append((it.id, defs, expr))
        except bpexport.Unsupported:
            it.ideal = None
    ires, ilogs, _ = H.shard_cases(prop + "I", icases, S.EXTRA, per=per) if icases else ({}, [], "")
    rng = random.Random(seed)
    for it in failing:
        ideal_ok = ires.get(it.id)
        s10 = bool(it.harvest and "edges" in it.harvest and bpexport.s10_region(it.bpj, it.harvest))
        s16 = bool(it.harvest and "edges" in it.harvest and bpexport.s16_region(it.bpj, it.harvest))
        if getattr(it, "s5", False):
            it.status = "known:S5"
        elif ideal_ok is False and s19_region(it):
            it.status = "known:S19"
        elif ideal_ok is False and s39_region(it):
            it.status = "known:S39"
        elif ideal_ok is False and s43_region(it):
            it.status = "known:S43"
        elif ideal_ok and _classify_wiring(it):
            it.status = "known:S12"
        elif ideal_ok is False and s16:
            it.status = "known:S16"
        elif ideal_ok is False and s10:
            it.status = "known:S10"
        elif ideal_ok is False and it.harvest and "edges" in it.harvest and bpexport.s27_region(it.bpj, it.harvest):
            it.status = "known:S27"
        elif ideal_ok is None and False:
            pass
        else:
            it.status = "violation"
            it.detail = {"kind": "obligation check_c01 failed", "ideal_circuit_passes": ideal_ok,
                         "partition_matches_design": _classify_wiring(it) if it.harvest and "edges" in it.harvest else None}
        if do_search and it.status == "violation" and not getattr(it, "mems", None):
            n = it.meta["entities"]
            r = S.search_failing_input(it.id, defs_by[it.id], n, it.meta["n_inputs"], rng, S.thresholds(it.decls),
                                        var_ids=it.meta.get("input_var_ids"))
            if r:
                env, pairs = r
                it.detail["failing_input"] = env
                it.detail["failing_input_by_name"] = {d[1]: env[i] for i, d in enumerate(it.decls)
                                                      if d[0] == "in" and i < len(env)}
                # order of conc_progb: scalar outputs and entity conditions, then every bundle output on every
                # signal of the universe (ascending signal id)
                outs_ = it.meta["outputs"]
                labels = [(o[0], o[1]) for o in outs_ if o[1] != "<bundle>"]
                univ = [s for s, _ in sorted(it.meta["signals"].items(), key=lambda kv: kv[1])]
                for o in outs_:
                    if o[1] == "<bundle>":
                        labels += [(o[0], s) for s in univ]
                rows = [{"output": o[0], "signal": o[1], "observed": p[0], "expected": p[1]} for o, p in zip(labels, pairs)]
                it.detail["observed_vs_expected"] = ([r_ for r_ in rows if r_["observed"] != r_["expected"]]
                                                     + [r_ for r_ in rows if r_["observed"] == r_["expected"]])[:24]
            else:
                it.detail["failing_input"] = None
                it.detail["debug"] = S.debug_case(it.id, defs_by[it.id], n)[:4000]
    return cmd, logs + ilogs


def concrete_mismatch(item, env_values, prop="W"):
    """compile item, evaluate blueprint and specification concretely on one valuation (list in
    declaration order of the inputs); returns list of (output, observed, expected) or None"""
    r = H.compile_many([(item.text, item.opts)])[0]
    if r[0] != "ok":
        return ("compile", r[1])
    item.bpj = json.loads(r[1])
    item.harvest = r[2] if len(r) > 2 else None
    defs, expr, meta = S.case_for(item.id, item.decls, item.bpj, entities=item.entities)
    item.meta = meta
    ids = meta.get("input_var_ids") or []
    full = [0] * (max(ids) if ids else 0)
    for v, x in zip(ids, env_values):
        full[v - 1] = x
    el = "[" + "; ".join(fa.zc(v) for v in full) + "]"
    n = meta["entities"]
    rc, outs, text = H.coq_eval(defs, [f"conc_progb bp_{item.id} {n + 3}%nat ds_{item.id} qs_{item.id} rs_{item.id} bqs_{item.id} (env_of {el})"],
                                S.EXTRA, tag=f"w{item.id}")
    import re

    pairs = re.findall(r"\(\s*(-?\d+)\s*,\s*(-?\d+)\s*\)", (outs[0] or "").replace("%Z", "")) if outs and outs[0] else []
    return [(o[0], int(a), int(b)) for o, (a, b) in zip(meta["outputs"], pairs)]


# ------------------------------------------------------------------ shrinking
def _refs(e, acc):
    if isinstance(e, tuple):
        if e[0] == "var":
            acc.add(e[1])
        for x in e[1:]:
            _refs(x, acc)


def _reindex(e, m):
    if not isinstance(e, tuple):
        return e
    if e[0] == "var":
        return ("var", m[e[1]])
    return tuple(_reindex(x, m) for x in e)


def _drop_decl(decls, i):
    used = set()
    for d in decls:
        if d[0] != "in":
            _refs(d[2], used)
    if i in used:
        return None
    m = {}
    out = []
    for j, d in enumerate(decls):
        if j == i:
            continue
        m[j] = len(out)
        out.append(d if d[0] == "in" else (d[0], d[1], _reindex(d[2], m)))
    return out


def _subexpr_variants(e):
    """smaller expressions obtained by replacing one node by one of its children"""
    if not isinstance(e, tuple) or e[0] in ("int", "var"):
        return
    kids = [x for x in e[1:] if isinstance(x, tuple)]
    for k in kids:
        yield k
    for idx, x in enumerate(e):
        if isinstance(x, tuple):
            for v in _subexpr_variants(x):
                yield e[:idx] + (v,) + e[idx + 1:]


def shrink(prop, item, still_fails, rounds=12, width=24):
    """greedy delta debugging over declarations and sub-expressions.  still_fails(list of Item) must
    run the check and return the subset that still fails in the same way"""
    import gen_scalar

    cur = item.decls
    for _ in range(rounds):
        cands = []
        for i in reversed(range(len(cur))):
            c = _drop_decl(cur, i)
            if c:
                cands.append(c)
        for i, d in enumerate(cur):
            if d[0] == "in":
                continue
            for v in _subexpr_variants(d[2]):
                c = list(cur)
                c[i] = (d[0], d[1], v)
                if gen_scalar.program_safe(c) and gen_scalar.s14_free(c):
                    cands.append(c)
        cands = [c for c in cands if any(d[0] == "sig" for d in c)][:width]
        if not cands:
            break
        its = [Item(f"s{k}", c, opts=dict(item.opts), c20=item.c20) for k, c in enumerate(cands)]
        bad = still_fails(its)
        if not bad:
            break
        bad.sort(key=lambda it: sum(fa.size(d[2]) for d in it.decls if d[0] != "in") + 3 * len(it.decls))
        cur = bad[0].decls
    return cur
