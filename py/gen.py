"""Regenerate coq/Gen/*.v from /repo's current working tree (translator tie)."""
from __future__ import annotations

import ast
import os
import sys

sys.path.insert(0, os.path.dirname(__file__))
import py2v  # noqa: E402
from py2v import Abort, FnTranslator, find_def, HEADER  # noqa: E402

REPO = os.environ.get("VERIF_REPO", "/repo")
GEN = os.path.join(os.path.dirname(os.path.dirname(os.path.abspath(__file__))), "coq", "Gen")


def parse(rel):
    with open(os.path.join(REPO, rel)) as f:
        return ast.parse(f.read())


def drop_params(fn, keep):
    """check that every parameter other than `keep` is one we know how to ignore"""
    names = [a.arg for a in fn.args.args]
    for n in names:
        if n not in keep and n not in ("self", "cls", "node", "diagnostics"):
            raise Abort(f"py2v: unexpected parameter {n} of {fn.name}")
    for k in keep:
        if k not in names:
            raise Abort(f"py2v: parameter {k} of {fn.name} disappeared")


def gen_fold():
    out = [HEADER.format(src="dsl_compiler/src/lowering/constant_folder.py, dsl_compiler/src/ir/optimizer.py")]
    t = parse("dsl_compiler/src/lowering/constant_folder.py")
    fn = find_def(t, "ConstantFolder.fold_binary_operation")
    drop_params(fn, ["op", "left", "right"])
    tr = FnTranslator("ast_fold", [("op", "str"), ("left", "Z"), ("right", "Z")], "optZ")
    out.append(tr.translate(fn.body))
    t2 = parse("dsl_compiler/src/ir/optimizer.py")
    fn = find_def(t2, "ConstantPropagationOptimizer._fold_arithmetic")
    drop_params(fn, ["op", "left", "right"])
    tr = FnTranslator("ir_fold_arith", [("op", "str"), ("left", "Z"), ("right", "Z")], "optZ")
    out.append(tr.translate(fn.body))
    fn = find_def(t2, "ConstantPropagationOptimizer._fold_comparison")
    drop_params(fn, ["op", "left", "right"])
    tr = FnTranslator("ir_fold_cmp", [("op", "str"), ("left", "Z"), ("right", "Z")], "optbool")
    out.append(tr.translate(fn.body))
    return "\n".join(out)


# the part of ForStmt.get_iteration_values before the range loop is pinned verbatim: it only
# resolves names to ints (identity on the ints the model is about) and defaults missing bounds.
FORITER_PREFIX = '''if self.values is not None:
    return list(self.values)

def resolve(value: int | str) -> int:
    if isinstance(value, int):
        return value
    if constant_resolver is None:
        raise ValueError(f"Variable '{value}' in for loop range requires a constant resolver")
    return constant_resolver(value)
'''


def gen_foriter():
    out = [HEADER.format(src="dsl_compiler/src/ast/statements.py")]
    t = parse("dsl_compiler/src/ast/statements.py")
    fn = find_def(t, "ForStmt.get_iteration_values")
    body = [s for s in fn.body if not (isinstance(s, ast.Expr) and isinstance(s.value, ast.Constant))]
    prefix = ast.parse(FORITER_PREFIX).body
    if len(body) < len(prefix) or any(ast.dump(a) != ast.dump(b) for a, b in zip(body, prefix)):
        raise Abort("py2v: the head of ForStmt.get_iteration_values (values / resolve) changed; "
                    "the pinned pattern no longer matches")
    rest = body[len(prefix):]
    tr = FnTranslator(
        "iter_values",
        [("self_values", "optlistZ"), ("self_start", "optZ"), ("self_stop", "optZ"), ("self_step", "optZ")],
        "listZ",
        opaque_calls={"resolve": ("identity",)},
        attr_params={},
    )
    # `resolve(self.start) if self.start is not None else 0`: option-typed attribute -> match
    class Rw(ast.NodeTransformer):
        def visit_IfExp(self, n):
            self.generic_visit(n)
            src = ast.unparse(n.test)
            for a in ("start", "stop", "step"):
                if src == f"self.{a} is not None" and ast.unparse(n.body) == f"resolve(self.{a})":
                    return ast.Call(func=ast.Name(id=f"__optget_{a}", ctx=ast.Load()), args=[n.orelse], keywords=[])
            return n
    rest = [Rw().visit(s) for s in rest]
    # teach the translator the __optget_* pseudo-calls and Optional locals
    orig_E = tr.E

    def E(n, env):
        if isinstance(n, ast.Call) and isinstance(n.func, ast.Name) and n.func.id.startswith("__optget_"):
            a = n.func.id[len("__optget_"):]
            if isinstance(n.args[0], ast.Constant) and n.args[0].value is None:
                return (f"self_{a}", "optZ")
            d, td = orig_E(n.args[0], env)
            if td != "Z":
                raise Abort("py2v: default of optional bound is not an int")
            return (f"(match self_{a} with Some v => v | None => {d} end)", "Z")
        return orig_E(n, env)

    tr.E = E
    # `if step is None: step = 1 if start < stop else -1` -- option local rebinding to Z
    class Rw2(ast.NodeTransformer):
        pass
    # handle the Optional[int] local `step` by a targeted rewrite: the statement pair
    #   step = <opt>;  ...;  if step is None: step = E   ==> step := match opt with Some v => v | None => E end
    new = []
    pending_opt = None
    for s in rest:
        if (isinstance(s, ast.Assign) and isinstance(s.targets[0], ast.Name) and s.targets[0].id == "step"
                and isinstance(s.value, ast.Call) and getattr(s.value.func, "id", "") == "__optget_step"
                and isinstance(s.value.args[0], ast.Constant) and s.value.args[0].value is None):
            pending_opt = s
            continue
        if (pending_opt is not None and isinstance(s, ast.If) and ast.unparse(s.test) == "step is None"
                and len(s.body) == 1 and isinstance(s.body[0], ast.Assign) and not s.orelse
                and s.body[0].targets[0].id == "step"):
            new.append(ast.Assign(targets=[ast.Name(id="step", ctx=ast.Store())],
                                  value=ast.Call(func=ast.Name(id="__optget_step", ctx=ast.Load()),
                                                 args=[s.body[0].value], keywords=[]), lineno=s.lineno))
            pending_opt = None
            continue
        new.append(s)
    if pending_opt is not None:
        raise Abort("py2v: default-step pattern of get_iteration_values changed")
    # values branch
    text = tr.translate(new, wrap_fuel=True)
    # prepend the `self.values is not None -> list(self.values)` branch
    text = text.replace(
        f": option (list Z) :=\n", ": option (list Z) :=\nmatch self_values with Some vs => Some vs | None =>\n", 1
    )
    assert text.rstrip().endswith(".")
    text = text.rstrip()[:-1] + "\nend.\n"
    out.append(text)
    return "\n".join(out)


def gen_libmath():
    """lib/math.facto -> Gen/LibMath.v through the independent front end py/facto2v.py (C17)"""
    import facto2v

    try:
        with open(os.path.join(REPO, "lib", "math.facto"), encoding="utf-8") as f:
            text = f.read()
    except OSError as e:
        raise Abort(f"facto2v: cannot read lib/math.facto: {e}")
    funcs = facto2v.parse_library(text)
    if not funcs:
        raise Abort("facto2v: lib/math.facto defines no function")
    return facto2v.to_coq(funcs)


TARGETS = {"Fold.v": gen_fold, "ForIter.v": gen_foriter}
TARGETS["LibMath.v"] = gen_libmath


def main(which=None):
    os.makedirs(GEN, exist_ok=True)
    errs = {}
    for name, fn in TARGETS.items():
        if which and name not in which:
            continue
        path = os.path.join(GEN, name)
        try:
            text = fn()
        except Abort as e:
            errs[name] = str(e)
            # leave a file that fails to compile, so nothing stale is used
            text = f"(* translation aborted: {e} *)\nDefinition translation_aborted : False := I.\n"
        old = open(path).read() if os.path.exists(path) else None
        if old != text:
            with open(path, "w") as f:
                f.write(text)
    return errs


if __name__ == "__main__":
    e = main(sys.argv[1:] or None)
    for k, v in e.items():
        print("ABORT", k, v)
    sys.exit(1 if e else 0)
