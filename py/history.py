"""Concrete multi-phase histories for stateful blueprints (the search for a failing history after a
certificate of C03 / C04 / C05 no longer checks).  The emitted blueprint is run tick by tick in the
concrete circuit model (Circuit.step at V = Z, evaluated inside Coq by vm_compute); each phase holds the
program's inputs constant for a number of ticks.  After every phase the named outputs are compared with
the specification's values, the cell contents the property demands being supplied through the state
variables of the flat specification program.  This is a search (testing), never a proof."""
from __future__ import annotations

import re

import facto_ast as fa
import harness as H
import scalar_check as S


def input_names(decls):
    return [d[1] for d in decls if d[0] == "in"]


def values(decls, env):
    """values of all flat declarations for a valuation (by name) of the `in` declarations"""
    vals = []
    for d in decls:
        if d[0] == "in":
            vals.append(fa.wrap32(env.get(d[1], 0)))
        else:
            vals.append(fa.ev(d[2], vals))
    return vals


def _lst(decls, env):
    """the list env_of reads: variable of declaration i (id i + 1) at position i"""
    return "[" + "; ".join(fa.zc(fa.wrap32(env.get(d[1], 0)) if d[0] == "in" else 0) for d in decls) + "]"


def run_histories(it, histories, ticks=None):
    """histories: list of lists of (circuit_env, spec_env) (dicts by input name).  Returns, per history,
    a list (one entry per phase) of [(observed, expected)...] over the program's named outputs, or None"""
    try:
        defs, expr, meta = S.case_for(it.id, it.decls, it.bpj, entities=it.entities, mems=it.mems)
    except Exception:  # noqa: BLE001
        return None, None, None
    ins = input_names(it.decls)
    n = meta["entities"]
    T = ticks or (n + 6)
    b, ds, qs = f"bp_{it.id}", f"ds_{it.id}", f"qs_{it.id}"
    exprs = []
    for h in histories:
        lets, outs = [], []
        prev = f"(init {b})"
        for k, (ce, se) in enumerate(h):
            lets.append(f"let c{k} := env_of {_lst(it.decls, ce)} in let s{k} := env_of {_lst(it.decls, se)} in "
                        f"let st{k} := Nat.iter {T}%nat (step (zalg c{k}) {b}) {prev} in ")
            prev = f"st{k}"
            outs.append(f"map (fun q => (observe (zalg c{k}) {b} st{k} (q_obs {ds} q), "
                        f"nth (q_decl q) (den_prog (zalg s{k}) (b_univ {b}) {ds}) 0)) {qs}")
        exprs.append("".join(lets) + "[" + "; ".join(outs) + "]")
    res = []
    # in chunks: one coqc call evaluates many histories
    for i in range(0, len(exprs), 40):
        rc, outs, text = H.coq_eval(defs, exprs[i:i + 40], S.EXTRA, tag=f"hist{it.id}")
        outs = outs or [None] * len(exprs[i:i + 40])
        for o in outs:
            if o is None:
                res.append(None)
                continue
            body = o.replace("%Z", "")
            phases = re.findall(r"\[((?:\s*\(\s*-?\d+\s*,\s*-?\d+\s*\);?)*)\s*\]", body)
            res.append([[(int(a), int(c)) for a, c in re.findall(r"\(\s*(-?\d+)\s*,\s*(-?\d+)\s*\)", ph)] for ph in phases])
    names = [o[0] for o in meta["outputs"]]
    return res, names, T


def gated_cell_history(it, rng, trials=24):
    """C03: phase 1 holds inputs for which some cell's enable is positive (the cell must show the data),
    phase 2 changes only towards an enable that is not positive (the cell must keep what it has).  Cells
    whose data or enable mention a memory read are left out of the expectation."""
    mems = [m for m in it.mems.values() if m.get("kind") == "gated" and m.get("data") is not None]
    if not mems:
        return None
    ins = input_names(it.decls)
    free = [n_ for n_ in ins if not n_.startswith("_")]
    state_names = {n_ for n_ in ins if n_.startswith("_")}
    idx = {d[1]: i for i, d in enumerate(it.decls)}

    def mentions_state(e):
        if not isinstance(e, tuple):
            return False
        if e[0] == "var":
            d = it.decls[e[1]]
            return d[1] in state_names or (d[0] != "in" and mentions_state(d[2]))
        return any(mentions_state(x) for x in e[1:])

    if any(mentions_state(m["data"]) or (m.get("when") is not None and mentions_state(m["when"])) for m in mems):
        return None
    cands = sorted(set(S.BOUNDARY) | set(S.thresholds(it.decls)))
    hists, descr = [], []
    for _ in range(trials):
        e1 = {n_: rng.choice(cands) for n_ in free}
        e2 = dict(e1)
        for n_ in rng.sample(free, max(1, len(free) // 2)) if free else []:
            e2[n_] = rng.choice(cands)
        content = {m["name"]: 0 for m in mems}
        h = []
        v1, v2 = values(it.decls, e1), values(it.decls, e2)
        # while the inputs change the enable cone and the data cone settle at different speeds, so a cell
        # whose enable drops may legitimately latch a transient of its data: the hold phase is only judged
        # when the data of every cell that is being closed is the same before and after the change
        hold_ok = all(fa.ev(m["data"], v1) == fa.ev(m["data"], v2) for m in mems
                      if (fa.ev(m["when"], v1) if m.get("when") is not None else 1) > 0
                      and (fa.ev(m["when"], v2) if m.get("when") is not None else 1) <= 0)
        for env in ((e1, e2) if hold_ok else (e1,)):
            v = values(it.decls, env)
            for m in mems:
                en = fa.ev(m["when"], v) if m.get("when") is not None else 1
                if en > 0:
                    content[m["name"]] = fa.ev(m["data"], v)
            se = dict(env)
            for m in mems:
                se["_mw_" + m["name"]] = content[m["name"]]
            h.append((env, se))
        hists.append(h)
        descr.append((e1, e2))
    res, names, T = run_histories(it, hists)
    if not res:
        return None
    for (e1, e2), r in zip(descr, res):
        if not r:
            continue
        for k, pairs in enumerate(r):
            if any(a != c for a, c in pairs):
                return {"history": [{"inputs": e1, "ticks": T}] + ([{"inputs": e2, "ticks": T}] if k == 1 else []),
                        "note": "phase 1 from the pasted (all-zero) state; the comparison is made after each phase",
                        "observed_vs_expected": [{"output": o, "observed": a, "expected": c}
                                                 for o, (a, c) in zip(names, pairs)]}
    return None


def ring_history(it, rng, trials=6):
    """C04: from the pasted state with constant inputs, the value readers see must run through
    0, f(0), f(f(0)), ... ; compared on programs whose f mentions no held input (no start-up transient),
    per output, after run-length compression of the observed per-tick sequence"""
    mems = [m for m in it.mems.values() if m.get("kind") == "ring" and m.get("data") is not None]
    if not mems:
        return None
    try:
        defs, expr, meta = S.case_for(it.id, it.decls, it.bpj, entities=it.entities, mems=it.mems)
    except Exception:  # noqa: BLE001
        return None
    ins = input_names(it.decls)
    free = [n_ for n_ in ins if not n_.startswith("_")]
    if free:
        # held inputs arrive one tick after pasting, so the first round trip may see zeros: judge only what
        # follows -- on an output that is a plain read of a cell, every change of the value must be one
        # application of f, and a value that is no fixed point of f must not stay
        return _ring_transitions(it, mems, defs, meta, rng)
    trials = 1
    n = meta["entities"]
    K = 8 * (n + 2)
    b, ds, qs = f"bp_{it.id}", f"ds_{it.id}", f"qs_{it.id}"
    cands = sorted(set(S.BOUNDARY) | set(S.thresholds(it.decls)))
    idx0 = {d[1] for d in it.decls}
    names = [o[0] for o in meta["outputs"] if o[0] in idx0]
    for t in range(trials):
        env = {n_: rng.choice(cands) for n_ in free}
        ex = (f"let c := env_of {_lst(it.decls, env)} in "
              f"fst (fold_left (fun acc _ => let st := step (zalg c) {b} (snd acc) in "
              f"(fst acc ++ [map (fun q => observe (zalg c) {b} st (q_obs {ds} q)) {qs}], st)) (seq 0 {K}) ([], init {b}))")
        rc, outs, text = H.coq_eval(defs, [ex], S.EXTRA, tag=f"ring{it.id}")
        if not outs or outs[0] is None:
            continue
        rows = [[int(x) for x in re.findall(r"-?\d+", row)] for row in re.findall(r"\[([^\[\]]*)\]", outs[0].replace("%Z", ""))]
        rows = [r_ for r_ in rows if len(r_) == len(names)]
        if not rows:
            continue
        # expected orbit of every cell, then of every output
        content = {m["name"]: 0 for m in mems}
        exp_rows = []
        for _ in range(K):
            se = dict(env)
            for m in mems:
                se["_mr_" + m["name"]] = content[m["name"]]
                se["_mw_" + m["name"]] = content[m["name"]]
            v = values(it.decls, se)
            exp_rows.append([v[q] for q in _out_decls(it, names)])
            for m in mems:
                content[m["name"]] = fa.ev(m["data"], v)

        def compress(seq_):
            out = []
            for x in seq_:
                if not out or out[-1] != x:
                    out.append(x)
            return out

        for j, name in enumerate(names):
            obs = compress([r_[j] for r_ in rows])
            exp = compress([r_[j] for r_ in exp_rows])
            if obs and exp and obs[0] == 0 and exp[0] != 0:
                obs = obs[1:]  # the reader's own latency before it first shows g(0)
            m_ = min(len(obs), len(exp))
            # the last observed run may be cut short by the horizon: compare all but the last element
            if m_ >= 2 and obs[:m_ - 1] != exp[:m_ - 1]:
                return {"history": [{"inputs": env, "ticks": K}], "output": name,
                        "observed_values_in_order": obs[:12], "expected_values_in_order": exp[:12],
                        "note": "per-tick values of the output, consecutive repeats removed"}
            if len(obs) < len(exp) and len(obs) <= 2 < len(exp):
                return {"history": [{"inputs": env, "ticks": K}], "output": name,
                        "observed_values_in_order": obs[:12], "expected_values_in_order": exp[:12],
                        "note": "the output stops changing although f has not reached a fixed point"}
    return None


def _out_decls(it, names):
    idx = {d[1]: i for i, d in enumerate(it.decls)}
    return [idx[n_] for n_ in names if n_ in idx]


def _ring_transitions(it, mems, defs, meta, rng, trials=4):
    ins = input_names(it.decls)
    free = [n_ for n_ in ins if not n_.startswith("_")]
    idx = {d[1]: i for i, d in enumerate(it.decls)}
    qnames = [o[0] for o in meta["outputs"] if o[0] in idx]
    direct = []  # (output position, cell) for outputs that are exactly `cell.read()`
    for pos, name in enumerate(qnames):
        d = it.decls[idx[name]]
        for m in mems:
            if d[0] == "sig" and d[2] == ("var", m["im"]):
                direct.append((pos, m))
    if not direct:
        return None
    n = meta["entities"]
    K = 10 * (n + 2)
    b, ds, qs = f"bp_{it.id}", f"ds_{it.id}", f"qs_{it.id}"
    cands = sorted(set(S.BOUNDARY) | set(S.thresholds(it.decls)))
    cands = [c for c in cands if abs(c) <= 1 << 20] or [0, 1, 2]
    for t in range(trials):
        env = {n_: rng.choice(cands) for n_ in free}
        ex = (f"let c := env_of {_lst(it.decls, env)} in "
              f"fst (fold_left (fun acc _ => let st := step (zalg c) {b} (snd acc) in "
              f"(fst acc ++ [map (fun q => observe (zalg c) {b} st (q_obs {ds} q)) {qs}], st)) (seq 0 {K}) ([], init {b}))")
        rc, outs, text = H.coq_eval(defs, [ex], S.EXTRA, tag=f"ringt{it.id}")
        if not outs or outs[0] is None:
            continue
        rows = [[int(x) for x in re.findall(r"-?\d+", row)] for row in re.findall(r"\[([^\[\]]*)\]", outs[0].replace("%Z", ""))]
        rows = [r_ for r_ in rows if len(r_) == len(qnames)]
        if len(rows) < K // 2:
            continue
        for pos, m in direct:
            seq_ = [r_[pos] for r_ in rows][n + 4:]      # after everything else has settled

            def f(x):
                se = dict(env)
                se["_mr_" + m["name"]] = x
                se["_mw_" + m["name"]] = x
                return fa.ev(m["data"], values(it.decls, se))

            if any(("var", mm["im"]) != ("var", m["im"]) and str(("var", mm["im"])) in str(m["data"]) for mm in mems):
                continue  # f mentions another cell: not a function of this cell alone
            runs = []
            for x in seq_:
                if runs and runs[-1][0] == x:
                    runs[-1][1] += 1
                else:
                    runs.append([x, 1])
            for (u, _), (v, _) in zip(runs, runs[1:]):
                if v != f(u):
                    return {"history": [{"inputs": env, "ticks": K}], "output": qnames[pos],
                            "observed_change": [u, v], "f_of_the_earlier_value": f(u),
                            "note": "a plain read of the cell changed from the first to the second value; one application of the written function gives the third"}
            u, ln = runs[-1]
            if ln > 4 * (len(it.decls) + 6) and f(u) != u and len(runs) <= 2:
                return {"history": [{"inputs": env, "ticks": K}], "output": qnames[pos],
                        "stuck_at": u, "f_of_that_value": f(u),
                        "note": "a plain read of the cell stays at a value that is no fixed point of the written function"}
    return None
