"""py2v -- fail-closed translator from a small subset of Python (ast) to Gallina.

It is used to regenerate coq/Gen/*.v from /repo's *current* sources on every run, so
that the theorems of coq/Proofs and coq/Props are re-checked against what the code
says now.  Anything outside the accepted subset raises Abort (reported by the checks
as a broken tie, never silently skipped).

Accepted subset
  * a function (or a slice of its body) whose statements are
      if/elif/else, return, assignment and augmented assignment to plain names,
      `x.append(e)` on list-typed locals, `while` loops whose body is in the subset
      (turned into recursion on explicit fuel; out of fuel = None),
      try/except around pure integer code (= its body),
      expression statements that call `diagnostics.*` / `<anything>.warning` (dropped: they
      only report) and `pass`;
  * expressions over int (-> Z), bool, str (-> string), list[int], Optional[...]:
      + - * // % ** << >> & | ^, unary -, not, and/or, comparisons (also chained, `is None`,
      `is not None`, `in (tuple of literals)`), conditional expressions,
      abs/min/max/int/list, isinstance(x,(int,float)) on a value typed int (-> true).
Python `int` is Z (unbounded); // and % are floor division (Z.div / Z.modulo agree with
Python for every sign combination); >> is the arithmetic shift (Z.shiftr); & | ^ are the
two's-complement operations on unbounded integers (Z.land/lor/lxor agree with Python).
"""
from __future__ import annotations

import ast
import textwrap


class Abort(Exception):
    pass


def _abort(node, why):
    try:
        src = ast.unparse(node)
    except Exception:
        src = repr(node)
    raise Abort(f"py2v: unsupported construct ({why}) at line {getattr(node, 'lineno', '?')}: {src[:160]}")


COQ_TYPES = {
    "Z": "Z",
    "bool": "bool",
    "str": "string",
    "listZ": "list Z",
    "optZ": "option Z",
    "optbool": "option bool",
    "optlistZ": "option (list Z)",
    "optstr": "option string",
}


def zlit(n: int) -> str:
    return f"({n})" if n < 0 else str(n)


def slit(s: str) -> str:
    return '"' + s.replace('"', '""') + '"%string'


class FnTranslator:
    """Translate one function body to a Gallina definition."""

    def __init__(self, name, params, ret, opaque_calls=None, attr_params=None):
        # params: list of (pyname, type); ret: type name; for functions with loops the
        # Gallina return type is wrapped in option (None = out of fuel) unless already optional.
        self.name = name
        self.params = params
        self.ret = ret
        self.helpers = []  # text of auxiliary fixpoints
        self.nloops = 0
        self.has_loop = False
        self.opaque_calls = opaque_calls or {}  # python func name -> ('identity',)
        self.attr_params = attr_params or {}  # 'self.start' -> ('self_start', type)

    # ------------------------------------------------------------ expressions
    def E(self, n, env):
        """returns (text, type)"""
        if isinstance(n, ast.Constant):
            v = n.value
            if isinstance(v, bool):
                return ("true" if v else "false", "bool")
            if isinstance(v, int):
                return (zlit(v), "Z")
            if isinstance(v, str):
                return (slit(v), "str")
            if isinstance(v, float) and v == int(v):
                return (zlit(int(v)), "Z")
            _abort(n, "constant")
        if isinstance(n, ast.Name):
            if n.id in env:
                return (env[n.id][0], env[n.id][1])
            _abort(n, "unknown name")
        if isinstance(n, ast.Attribute):
            key = ast.unparse(n)
            if key in self.attr_params:
                return self.attr_params[key]
            _abort(n, "attribute")
        if isinstance(n, ast.UnaryOp):
            t, ty = self.E(n.operand, env)
            if isinstance(n.op, ast.USub) and ty == "Z":
                return (f"(Z.opp {t})", "Z")
            if isinstance(n.op, ast.UAdd) and ty == "Z":
                return (t, "Z")
            if isinstance(n.op, ast.Not) and ty == "bool":
                return (f"(negb {t})", "bool")
            _abort(n, "unary")
        if isinstance(n, ast.BinOp):
            a, ta = self.E(n.left, env)
            b, tb = self.E(n.right, env)
            if ta == "listZ" and tb == "listZ" and isinstance(n.op, ast.Add):
                return (f"({a} ++ {b})", "listZ")
            if ta != "Z" or tb != "Z":
                _abort(n, f"binop on {ta},{tb}")
            ops = {
                ast.Add: "Z.add", ast.Sub: "Z.sub", ast.Mult: "Z.mul", ast.FloorDiv: "Z.div",
                ast.Mod: "Z.modulo", ast.Pow: "Z.pow", ast.LShift: "Z.shiftl", ast.RShift: "Z.shiftr",
                ast.BitAnd: "Z.land", ast.BitOr: "Z.lor", ast.BitXor: "Z.lxor",
            }
            for k, v in ops.items():
                if isinstance(n.op, k):
                    return (f"({v} {a} {b})", "Z")
            _abort(n, "binop")
        if isinstance(n, ast.BoolOp):
            parts = [self.E(v, env) for v in n.values]
            for p in parts:
                if p[1] != "bool":
                    _abort(n, "boolop on non-bool")
            f = "andb" if isinstance(n.op, ast.And) else "orb"
            t = parts[-1][0]
            for p in reversed(parts[:-1]):
                t = f"({f} {p[0]} {t})"
            return (t, "bool")
        if isinstance(n, ast.Compare):
            res = []
            left = n.left
            for op, right in zip(n.ops, n.comparators):
                res.append(self.cmp1(n, left, op, right, env))
                left = right
            t = res[-1]
            for p in reversed(res[:-1]):
                t = f"(andb {p} {t})"
            return (t, "bool")
        if isinstance(n, ast.IfExp):
            c, tc = self.E(n.test, env)
            if tc != "bool":
                _abort(n, "ifexp test")
            a, ta = self.E(n.body, env)
            b, tb = self.E(n.orelse, env)
            if ta != tb:
                _abort(n, f"ifexp branches {ta}/{tb}")
            return (f"(if {c} then {a} else {b})", ta)
        if isinstance(n, ast.Call):
            fn = ast.unparse(n.func)
            args = n.args
            if fn == "abs" and len(args) == 1:
                a, ta = self.E(args[0], env)
                if ta == "Z":
                    return (f"(Z.abs {a})", "Z")
            if fn in ("min", "max") and len(args) == 2:
                a, ta = self.E(args[0], env)
                b, tb = self.E(args[1], env)
                if ta == tb == "Z":
                    return (f"(Z.{fn} {a} {b})", "Z")
            if fn == "int" and len(args) == 1:
                a, ta = self.E(args[0], env)
                if ta == "Z":
                    return (a, "Z")
            if fn == "list" and len(args) == 1:
                a, ta = self.E(args[0], env)
                if ta == "listZ":
                    return (a, "listZ")
            if fn == "isinstance" and len(args) == 2:
                a, ta = self.E(args[0], env)
                cls = ast.unparse(args[1]).replace(" ", "")
                if ta == "Z" and cls in ("(int,float)", "int", "(int,)"):
                    return ("true", "bool")
            if fn in self.opaque_calls and self.opaque_calls[fn][0] == "identity" and len(args) == 1:
                return self.E(args[0], env)
            _abort(n, "call")
        if isinstance(n, ast.List) and not n.elts:
            return ("(@nil Z)", "listZ")
        _abort(n, "expression")

    def cmp1(self, n, left, op, right, env):
        # is None / is not None
        if isinstance(right, ast.Constant) and right.value is None:
            a, ta = self.E(left, env)
            if not ta.startswith("opt"):
                _abort(n, "None test on non-option")
            if isinstance(op, (ast.Is, ast.Eq)):
                return f"(match {a} with None => true | Some _ => false end)"
            if isinstance(op, (ast.IsNot, ast.NotEq)):
                return f"(match {a} with None => false | Some _ => true end)"
            _abort(n, "None compare")
        if isinstance(op, (ast.In, ast.NotIn)) and isinstance(right, (ast.Tuple, ast.List, ast.Set)):
            parts = [self.cmp1(n, left, ast.Eq(), e, env) for e in right.elts]
            t = "false"
            for p in reversed(parts):
                t = f"(orb {p} {t})"
            return t if isinstance(op, ast.In) else f"(negb {t})"
        a, ta = self.E(left, env)
        b, tb = self.E(right, env)
        if ta == tb == "Z":
            m = {ast.Eq: "Z.eqb {a} {b}", ast.NotEq: "negb (Z.eqb {a} {b})", ast.Lt: "Z.ltb {a} {b}",
                 ast.LtE: "Z.leb {a} {b}", ast.Gt: "Z.gtb {a} {b}", ast.GtE: "Z.geb {a} {b}"}
            for k, v in m.items():
                if isinstance(op, k):
                    return "(" + v.format(a=a, b=b) + ")"
        if ta == tb == "str":
            if isinstance(op, ast.Eq):
                return f"(String.eqb {a} {b})"
            if isinstance(op, ast.NotEq):
                return f"(negb (String.eqb {a} {b}))"
        if ta == tb == "bool":
            if isinstance(op, ast.Eq):
                return f"(Bool.eqb {a} {b})"
        _abort(n, f"compare {ta} {type(op).__name__} {tb}")

    # ------------------------------------------------------------- statements
    def ret_text(self, n, env):
        """text of `return e` for the declared return type"""
        v = n.value
        rt = self.ret
        if rt.startswith("opt"):
            inner = rt[3:]
            if v is None or (isinstance(v, ast.Constant) and v.value is None):
                r = "None"
            elif isinstance(v, ast.IfExp) and any(
                isinstance(b, ast.Constant) and b.value is None for b in (v.body, v.orelse)
            ):
                c, tc = self.E(v.test, env)
                r = f"(if {c} then {self._opt(v.body, env, inner)} else {self._opt(v.orelse, env, inner)})"
            else:
                t, ty = self.E(v, env)
                if ty == rt:
                    r = t
                elif ty == inner:
                    r = f"(Some {t})"
                elif isinstance(v, ast.IfExp):
                    # `a if c else None`
                    c, tc = self.E(v.test, env)
                    r = f"(if {c} then {self._opt(v.body, env, inner)} else {self._opt(v.orelse, env, inner)})"
                else:
                    _abort(n, f"return type {ty} for {rt}")
        else:
            if v is None:
                _abort(n, "bare return")
            t, ty = self.E(v, env)
            if ty != rt:
                _abort(n, f"return type {ty} for {rt}")
            r = t
        return f"(Some {r})" if (self.has_loop_wrap()) else r

    def _opt(self, v, env, inner):
        if isinstance(v, ast.Constant) and v.value is None:
            return "None"
        t, ty = self.E(v, env)
        if ty != inner:
            _abort(v, "optional branch type")
        return f"(Some {t})"

    def has_loop_wrap(self):
        return self.wrap_fuel

    def always_returns(self, stmts):
        for s in stmts:
            if isinstance(s, (ast.Return, ast.Raise)):
                return True
            if isinstance(s, ast.If) and self.always_returns(s.body) and self.always_returns(s.orelse):
                return True
            if isinstance(s, ast.Try) and self.always_returns(s.body):
                return True
        return False

    def is_dropped_call(self, s):
        if isinstance(s, ast.Expr) and isinstance(s.value, ast.Call):
            fn = ast.unparse(s.value.func)
            if fn.startswith("diagnostics.") or fn.endswith(".warning") or fn.endswith(".info"):
                return True
        if isinstance(s, ast.Expr) and isinstance(s.value, ast.Constant) and isinstance(s.value.value, str):
            return True  # docstring
        return isinstance(s, ast.Pass)

    def B(self, stmts, env, k):
        """translate a statement list; k(env) gives the text for falling off the end"""
        if not stmts:
            return k(env)
        s, rest = stmts[0], stmts[1:]
        if self.is_dropped_call(s):
            return self.B(rest, env, k)
        if isinstance(s, ast.Return):
            return self.ret_text(s, env)
        if (isinstance(s, ast.If) and not s.orelse and all(self.is_dropped_call(b) for b in s.body)
                and all(isinstance(n, (ast.Compare, ast.Name, ast.BoolOp, ast.Constant, ast.And, ast.Or, ast.Not,
                                       ast.UnaryOp, ast.Is, ast.IsNot, ast.Load, ast.Eq, ast.NotEq))
                        for n in ast.walk(s.test))):
            return self.B(rest, env, k)  # a guard around pure reporting
        if isinstance(s, ast.If):
            c, tc = self.E(s.test, env)
            if tc != "bool":
                _abort(s, "if test not bool")
            if self.always_returns(s.body):
                a = self.B(s.body, env, lambda e: _abort(s, "fallthrough"))
                b = self.B(list(s.orelse) + rest, env, k)
            else:
                a = self.B(list(s.body) + rest, env, k)
                b = self.B(list(s.orelse) + rest, env, k)
            return f"(if {c}\n then {a}\n else {b})"
        if isinstance(s, ast.Assign) and len(s.targets) == 1 and isinstance(s.targets[0], ast.Name):
            x = s.targets[0].id
            t, ty = self.E(s.value, env)
            env2 = dict(env)
            env2[x] = (self.fresh(x, env), ty)
            return f"(let {env2[x][0]} := {t} in\n {self.B(rest, env2, k)})"
        if isinstance(s, ast.AnnAssign) and isinstance(s.target, ast.Name) and s.value is not None:
            return self.B([ast.Assign(targets=[s.target], value=s.value, lineno=s.lineno)] + rest, env, k)
        if isinstance(s, ast.AugAssign) and isinstance(s.target, ast.Name):
            new = ast.BinOp(left=ast.Name(id=s.target.id, ctx=ast.Load()), op=s.op, right=s.value)
            return self.B([ast.Assign(targets=[s.target], value=new, lineno=s.lineno)] + rest, env, k)
        if (isinstance(s, ast.Expr) and isinstance(s.value, ast.Call) and isinstance(s.value.func, ast.Attribute)
                and s.value.func.attr == "append" and isinstance(s.value.func.value, ast.Name)
                and len(s.value.args) == 1):
            x = s.value.func.value.id
            if x not in env or env[x][1] != "listZ":
                _abort(s, "append on non-list")
            t, ty = self.E(s.value.args[0], env)
            if ty != "Z":
                _abort(s, "append of non-int")
            env2 = dict(env)
            env2[x] = (self.fresh(x, env), "listZ")
            return f"(let {env2[x][0]} := ({env[x][0]} ++ [{t}]) in\n {self.B(rest, env2, k)})"
        if isinstance(s, ast.Try):
            for h in s.handlers:
                if h.type is None:
                    _abort(s, "bare except")
            if s.orelse or s.finalbody:
                _abort(s, "try/else/finally")
            return self.B(list(s.body) + rest, env, k)
        if isinstance(s, ast.While) and not s.orelse:
            return self.W(s, rest, env, k)
        _abort(s, "statement")

    def fresh(self, x, env):
        used = {v[0] for v in env.values()}
        c = x
        i = 0
        while c in used:
            i += 1
            c = f"{x}{i}"
        return c

    def assigned(self, stmts):
        out = []
        for s in ast.walk(ast.Module(body=list(stmts), type_ignores=[])):
            if isinstance(s, ast.Assign):
                for t in s.targets:
                    if isinstance(t, ast.Name) and t.id not in out:
                        out.append(t.id)
            if isinstance(s, ast.AugAssign) and isinstance(s.target, ast.Name) and s.target.id not in out:
                out.append(s.target.id)
            if (isinstance(s, ast.Call) and isinstance(s.func, ast.Attribute) and s.func.attr == "append"
                    and isinstance(s.func.value, ast.Name) and s.func.value.id not in out):
                out.append(s.func.value.id)
        return out

    def W(self, s, rest, env, k):
        if not self.wrap_fuel:
            _abort(s, "loop in a function not declared with fuel")
        self.nloops += 1
        lname = f"{self.name}_loop{self.nloops}"
        mods = [x for x in self.assigned(s.body) if x in env]
        for x in self.assigned(s.body):
            if x not in env:
                _abort(s, f"loop-local variable {x} not initialised before the loop")
        used = set()
        for n in ast.walk(s):
            if isinstance(n, ast.Name):
                used.add(n.id)
        frees = [x for x in env if x in used and x not in mods]
        # inner env uses plain python names as binder names
        ienv = {x: (x, env[x][1]) for x in frees + mods}
        c, tc = self.E(s.test, ienv)
        if tc != "bool":
            _abort(s, "while test")
        tup = lambda e: "(" + ", ".join(e[x][0] for x in mods) + ")" if len(mods) != 1 else e[mods[0]][0]
        rec = lambda e: f"({lname} fuel' " + " ".join([ienv[x][0] for x in frees] + [e[x][0] for x in mods]) + ")"
        saved_ret = self.ret_text
        # a `return` inside a loop body is not supported
        for n in ast.walk(ast.Module(body=list(s.body), type_ignores=[])):
            if isinstance(n, (ast.Return, ast.Break, ast.Continue)):
                _abort(n, "return/break/continue inside while")
        body = self.B(list(s.body), ienv, rec)
        tupty = " * ".join(COQ_TYPES[env[x][1]] for x in mods)
        binders = " ".join(f"({ienv[x][0]} : {COQ_TYPES[ienv[x][1]]})" for x in frees + mods)
        self.helpers.append(
            f"Fixpoint {lname} (fuel : nat) {binders} {{struct fuel}} : option ({tupty}) :=\n"
            f"  match fuel with O => None | S fuel' =>\n"
            f"  if {c}\n  then {body}\n  else Some {tup(ienv)}\n  end.\n"
        )
        env2 = dict(env)
        pats = []
        for x in mods:
            nm = self.fresh(x, env2)
            env2[x] = (nm, env[x][1])
            pats.append(nm)
        pat = "(" + ", ".join(pats) + ")" if len(pats) != 1 else pats[0]
        call = f"({lname} fuel " + " ".join([env[x][0] for x in frees] + [env[x][0] for x in mods]) + ")"
        return f"(match {call} with None => None | Some {pat} =>\n {self.B(rest, env2, k)} end)"

    def translate(self, body, wrap_fuel=False):
        self.wrap_fuel = wrap_fuel
        env = {}
        for p, t in self.params:
            env[p] = (p, t)

        def k_end(e):
            if self.ret.startswith("opt"):
                return "(Some None)" if wrap_fuel else "None"
            _abort(body[-1] if body else ast.Pass(), "function may fall off its end")

        text = self.B(list(body), env, k_end)
        rty = COQ_TYPES[self.ret]
        if wrap_fuel:
            rty = f"option ({rty})"
        binders = " ".join(f"({p} : {COQ_TYPES[t]})" for p, t in self.params)
        if wrap_fuel:
            binders = "(fuel : nat) " + binders
        return "".join(self.helpers) + f"Definition {self.name} {binders} : {rty} :=\n{text}.\n"


def find_def(tree, path):
    """path like 'ConstantFolder.fold_binary_operation' or 'f'"""
    cur = tree.body
    node = None
    for part in path.split("."):
        node = None
        for n in cur:
            if isinstance(n, (ast.FunctionDef, ast.ClassDef)) and n.name == part:
                node = n
                break
        if node is None:
            raise Abort(f"py2v: definition {path} not found (looking for {part})")
        cur = node.body
    return node


HEADER = textwrap.dedent(
    """\
    (* GENERATED by /verif/py/py2v.py from {src} -- do not edit; regenerated on every run *)
    From Coq Require Import ZArith String List Bool.
    Import ListNotations.
    Open Scope Z_scope.
    """
)
