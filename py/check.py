"""Entry point of every registered check:  ./check Cxx --tier quick|thorough"""
from __future__ import annotations

import argparse
import importlib
import os
import sys
import time

sys.path.insert(0, os.path.dirname(os.path.abspath(__file__)))
import harness as H  # noqa: E402


def main():
    if "--setup" in sys.argv[1:]:
        ok, errs, out, failed = H.coq_build()
        print(out[-3000:])
        print("setup:", "ok" if ok else f"FAILED {errs} {failed}")
        return 0 if ok else 1
    ap = argparse.ArgumentParser()
    ap.add_argument("prop")
    ap.add_argument("--tier", default=os.environ.get("VERIF_TIER", "quick"))
    ap.add_argument("--replay", default=None)
    a = ap.parse_args()
    seed = int(os.environ.get("VERIF_SEED", "0"))
    if a.prop == "--setup":
        ok, errs, out, failed = H.coq_build()
        print(out[-3000:])
        print("setup:", "ok" if ok else f"FAILED {errs} {failed}")
        return 0 if ok else 1
    mod = importlib.import_module(f"props.{a.prop.lower()}")
    t0 = time.time()
    if a.replay:
        return mod.replay(a.replay)
    return mod.run(a.tier, seed, t0)


if __name__ == "__main__":
    sys.exit(main())
