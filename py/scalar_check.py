"""C01-style check of compiled stateless scalar programs against the source semantics."""
from __future__ import annotations

import itertools
import json
import random
import re

import bpexport
import facto_ast as fa
import harness as H

EXTRA = "Valid.CheckC01"
BOUNDARY = [0, 1, -1, 2, -2, 3, 5, 7, -7, 2147483647, -2147483648, 65536, -65536, 46341, 1000]


def case_for(cid, decls, bpj):
    """returns (defs text, expr text, meta) or raises bpexport.Unsupported"""
    names = [d[1] for d in decls]
    input_vars = {d[1]: i + 1 for i, d in enumerate(decls) if d[0] == "in"}
    ex = bpexport.Exporter(bpj, input_vars=input_vars)
    # intern the program's explicit signal names first so that ids are stable
    bp_text = ex.export(f"bp_{cid}")
    exposed = set(ex.used_inputs)
    qs = []
    outs = []
    for var, csig, en in ex.anchors():
        if var not in names:
            continue
        i = names.index(var)
        if csig is None:
            continue
        qs.append(
            f"{{| q_decl := {i}%nat; q_rn := {ex.nid(en, 1)}; q_gn := {ex.nid(en, 2)}; q_csig := {ex.sig.p(csig)} |}}"
        )
        outs.append((var, csig))
    ds_text = fa.coq_decls(decls, ex.sig, input_vars, exposed)
    # signal ids may have grown while exporting decls (explicit names that the blueprint never
    # mentions): re-export so that b_univ covers them
    bp_text = bpexport.Exporter(bpj, input_vars=input_vars, extra_signals=list(ex.sig.ids)).export(f"bp_{cid}")
    n = len(bpexport.entities_of(bpj))
    defs = (
        bp_text
        + f"Definition ds_{cid} : list decl :=\n  {ds_text}.\n"
        + f"Definition qs_{cid} : list out_req := [{'; '.join(qs)}].\n"
    )
    expr = f"ok (check_c01 bp_{cid} {n + 2}%nat ds_{cid} qs_{cid})"
    meta = {"outputs": outs, "exposed": sorted(exposed), "entities": n, "n_inputs": len(input_vars),
            "signals": dict(ex.sig.ids)}
    return defs, expr, meta


def debug_case(cid, defs, n):
    rc, outs, text = H.coq_eval(defs, [f"debug_c01 bp_{cid} {n + 2}%nat ds_{cid} qs_{cid}"], EXTRA, tag=f"dbg{cid}")
    return outs[0] if outs and outs[0] else text[-3000:]


def search_failing_input(cid, defs, n, n_inputs, rng, extra_values=()):
    """concrete evaluation of the blueprint (Circuit.run at V=Z) and of the source semantics on
    boundary and random valuations; returns (env list, [(observed, expected)...]) or None"""
    vals = list(dict.fromkeys(list(extra_values) + BOUNDARY))
    envs = []
    if n_inputs == 0:
        envs = [[]]
    else:
        if len(vals) ** n_inputs <= 600:
            envs = [list(t) for t in itertools.product(vals, repeat=n_inputs)]
        else:
            for _ in range(400):
                envs.append([rng.choice(vals) for _ in range(n_inputs)])
        for _ in range(200):
            envs.append([rng.randint(-(1 << 31), (1 << 31) - 1) for _ in range(n_inputs)])
        for _ in range(100):
            envs.append([rng.randint(-20, 20) for _ in range(n_inputs)])
    lst = "[" + "; ".join("[" + "; ".join(fa.zc(v) for v in e) + "]" for e in envs) + "]"
    expr = (
        f"map (fun e => forallb (fun p => Z.eqb (fst p) (snd p)) "
        f"(conc_c01 bp_{cid} {n + 3}%nat ds_{cid} qs_{cid} (env_of e))) {lst}"
    )
    rc, outs, text = H.coq_eval(defs, [expr], EXTRA, tag=f"srch{cid}")
    if not outs or outs[0] is None:
        return None
    flags = re.findall(r"true|false", outs[0])
    for e, f in zip(envs, flags):
        if f == "false":
            el = "[" + "; ".join(fa.zc(v) for v in e) + "]"
            rc, o2, _ = H.coq_eval(defs, [f"conc_c01 bp_{cid} {n + 3}%nat ds_{cid} qs_{cid} (env_of {el})"], EXTRA,
                                   tag=f"srch2{cid}")
            pairs = re.findall(r"\((-?\d+),\s*(-?\d+)\)", (o2[0] or "").replace("%Z", ""))
            return e, [(int(a), int(b)) for a, b in pairs]
    return None


def thresholds(decls):
    out = set()

    def walk(e):
        if isinstance(e, tuple):
            if e[0] == "int":
                for d in (-1, 0, 1):
                    out.add(fa.wrap32(e[1] + d))
            for x in e[1:]:
                walk(x)

    for d in decls:
        walk(d[-1] if d[0] != "in" else ("int", d[3]))
    return sorted(out)
