"""C01-style check of compiled stateless scalar programs against the source semantics."""
from __future__ import annotations

import itertools
import json
import random
import re

import bpexport
import facto_ast as fa
import harness as H

EXTRA = "Valid.CheckC01 Facto.IO Valid.CellCheck Valid.StateCheck Factorio.Nets"
BOUNDARY = [0, 1, -1, 2, -2, 3, 5, 7, -7, 2147483647, -2147483648, 65536, -65536, 46341, 1000]


_TILE = {}


def tile_size(proto):
    """footprint in tiles from the game data shipped with draftsman (collision box rounded up)"""
    if proto not in _TILE:
        from draftsman.data import entities as _e
        import math

        raw = _e.raw[proto]
        if "tile_width" in raw and "tile_height" in raw:
            _TILE[proto] = (int(raw["tile_width"]), int(raw["tile_height"]))
        else:
            (x1, y1), (x2, y2) = raw["collision_box"]
            _TILE[proto] = (max(1, math.ceil(x2 - x1)), max(1, math.ceil(y2 - y1)))
    return _TILE[proto]


def find_entity(bpj, proto, x, y):
    """index (position in the entity list) of the entity of that prototype whose top-left tile is (x, y)"""
    w, h = tile_size(proto)
    found = []
    for i, e in enumerate(bpexport.entities_of(bpj)):
        if e["name"] != proto:
            continue
        d = e.get("direction", 0)
        ww, hh = (h, w) if d in (4, 12) else (w, h)
        if abs(e["position"]["x"] - (x + ww / 2)) < 1e-6 and abs(e["position"]["y"] - (y + hh / 2)) < 1e-6:
            found.append(i)
    return found


def find_desc(bpj, needle):
    return [i for i, e in enumerate(bpexport.entities_of(bpj)) if needle in (e.get("player_description") or "")]


def case_for(cid, decls, bpj, ideal=None, entities=None, c20=False, mems=None, harvest=None, embed_parts=None):
    """returns (defs text, expr text, meta) or raises bpexport.Unsupported.
    ideal: harvested logical edges -> check the idealised private-network circuit instead"""
    names = [d[1] for d in decls]
    input_vars = {d[1]: i + 1 for i, d in enumerate(decls) if d[0] == "in"}
    source_contents = {}
    for en in (entities or []):
        if en.get("content"):
            idx = find_entity(bpj, en["proto"], en["x"], en["y"])
            if len(idx) == 1:
                num = bpexport.entities_of(bpj)[idx[0]]["entity_number"]
                source_contents[num] = [(s, input_vars[decls[i][1]]) for s, i in en["content"]]
    ex = bpexport.Exporter(bpj, input_vars=input_vars, source_contents=source_contents)
    if ideal is not None:
        ex.set_ideal(ideal)
    # intern the program's explicit signal names first so that ids are stable
    bp_text = ex.export(f"bp_{cid}")
    exposed = set(ex.used_inputs)
    qs = []
    outs = []
    bqs = []
    for var, csig, en in ex.anchors():
        if var not in names:
            continue
        i = names.index(var)
        if decls[i][0] == "bundle":
            bqs.append(f"{{| bq_decl := {i}%nat; bq_rn := {ex.nid(en, 1)}; bq_gn := {ex.nid(en, 2)} |}}")
            outs.append((var, "<bundle>"))
            continue
        if csig == "bundle" and decls[i][0] == "sig" and decls[i][2][0] == "sel":
            csig = decls[i][2][2]  # a named read of an entity's output is observed at that entity, on the selected signal
        if csig is None or csig == "bundle":
            continue
        qs.append(
            f"{{| q_decl := {i}%nat; q_rn := {ex.nid(en, 1)}; q_gn := {ex.nid(en, 2)}; q_csig := {ex.sig.p(csig)} |}}"
        )
        outs.append((var, csig))
    ds_text = fa.coq_decls(decls, ex.sig, input_vars, exposed)
    # signal ids may have grown while exporting decls (explicit names that the blueprint never
    # mentions): re-export so that b_univ covers them
    ex2 = bpexport.Exporter(bpj, input_vars=input_vars, extra_signals=list(ex.sig.ids), source_contents=source_contents)
    if ideal is not None:
        ex2.set_ideal(ideal)
    bp_text = ex2.export(f"bp_{cid}")
    n = len(bpexport.entities_of(bpj))
    rs = []
    ent_problems = []
    for k, en in enumerate(entities or []):
        idx = find_entity(bpj, en["proto"], en["x"], en["y"])
        if len(idx) != 1:
            ent_problems.append({"entity": en["name"], "proto": en["proto"], "tile": [en["x"], en["y"]], "found": len(idx)})
            continue
        if en.get("enable") is not None:
            rs.append(f"{{| r_ent := {idx[0]}%nat; r_expr := {fa.coq_expr(en['enable'], ex.sig)} |}}")
            outs.append((f"{en['name']}.enable@({en['x']},{en['y']})", en["proto"]))
    if rs:
        # the enable expressions may mention further explicit signal names
        ex2 = bpexport.Exporter(bpj, input_vars=input_vars, extra_signals=list(ex.sig.ids), source_contents=source_contents)
        if ideal is not None:
            ex2.set_ideal(ideal)
        bp_text = ex2.export(f"bp_{cid}")
    defs = (
        bp_text
        + f"Definition ds_{cid} : list decl :=\n  {ds_text}.\n"
        + f"Definition qs_{cid} : list out_req := [{'; '.join(qs)}].\n"
        + f"Definition rs_{cid} : list ent_req := [{'; '.join(rs)}].\n"
    )
    expr = f"ok (check_prog bp_{cid} {n + 2}%nat ds_{cid} qs_{cid} rs_{cid})"
    defs += f"Definition bqs_{cid} : list bout_req := [{'; '.join(bqs)}].\n"
    if bqs:
        expr = f"ok (check_progb bp_{cid} {n + 2}%nat ds_{cid} qs_{cid} rs_{cid} bqs_{cid})"

    if c20:
        anch = [names.index(v) for v, _, _ in ex.anchors() if v in names]
        meta_c20 = f"check_c20 ds_{cid} [{'; '.join(str(a) + '%nat' for a in anch)}]"
    else:
        meta_c20 = None
    meta = {"outputs": outs, "exposed": sorted(exposed), "entities": n, "n_inputs": len(input_vars), "input_var_ids": sorted(input_vars.values()),
            "signals": dict(ex.sig.ids), "entity_problems": ent_problems, "c20_expr": meta_c20}
    mem_problems = []
    if mems:
        cut, cells, latches, rings = [], [], [], []
        ents_j = bpexport.entities_of(bpj)
        netmap = bpexport.nets(bpj)
        for m in mems.values():
            kind = m.get("kind", "gated")
            sg = ex.sig.p(m["sig"])
            w = find_desc(bpj, f"mem:mem_{m['name']} (memory: write_gate)")
            h = find_desc(bpj, f"mem:mem_{m['name']} (memory: hold_gate)")
            if kind == "ring" and len(w) == 1 and len(h) == 1:
                # the compiler kept the gate pair: readers see vw + vh
                decls = list(decls)
                decls[m["im"]] = ("sig", decls[m["im"]][1], ("bin", "+", ("var", m["iw"]), ("var", m["ih"])))
                ds_text = fa.coq_decls(decls, ex.sig, input_vars, exposed)
                defs = defs.replace(defs[defs.index(f"Definition ds_{cid} "):defs.index(f"Definition qs_{cid} ")],
                                    f"Definition ds_{cid} : list decl :=\n  {ds_text}.\n")
            if kind in ("gated", "ring") and len(w) == 1 and len(h) == 1:
                # the gate pair (also what an unconditional self-referential write keeps when the
                # arithmetic-feedback rewrite does not apply)
                vw, vh = input_vars[decls[m["iw"]][1]], input_vars[decls[m["ih"]][1]]
                cut.append(f"({w[0]}%nat, [({sg}, {vw}%positive)])")
                cut.append(f"({h[0]}%nat, [({sg}, {vh}%positive)])")
                when = m["when"] if m.get("when") is not None else ("int", 1)
                cells.append(
                    f"{{| g_w := {w[0]}%nat; g_h := {h[0]}%nat; g_sig := {sg}; g_vw := {vw}%positive; g_vh := {vh}%positive; "
                    f"g_data := {fa.coq_expr(m['data'], ex.sig)}; g_when := {fa.coq_expr(when, ex.sig)} |}}")
            elif kind == "gated":
                mem_problems.append({"memory": m["name"], "write_gates": len(w), "hold_gates": len(h)})
            elif kind == "latch":
                l = find_desc(bpj, f"mem:mem_{m['name']} (latch)")
                if len(l) != 1:
                    mem_problems.append({"memory": m["name"], "latch_deciders": len(l)})
                    continue
                vl = input_vars[decls[m["il"]][1]]
                cut.append(f"({l[0]}%nat, [({sg}, {vl}%positive)])")
                latches.append(
                    f"{{| l_ent := {l[0]}%nat; l_sig := {sg}; l_var := {vl}%positive; l_set := {fa.coq_expr(m['set'], ex.sig)}; "
                    f"l_reset := {fa.coq_expr(m['reset'], ex.sig)}; l_set_first := {'true' if m['set_first'] else 'false'} |}}")
            elif kind == "ring":
                # arithmetic feedback: the combinators computing the written value form the ring
                cand = [i for i, e in enumerate(ents_j)
                        if e["name"] in ("arithmetic-combinator", "decider-combinator")
                        and (f"write({m['name']})" in (e.get("player_description") or "")
                             or f"memory:mem_{m['name']}" in (e.get("player_description") or ""))]
                def onets(i):
                    en = ents_j[i]["entity_number"]
                    return {(c % 2, netmap[(en, c)]) for c in (3, 4) if (en, c) in netmap}
                def inets(i):
                    en = ents_j[i]["entity_number"]
                    return {(c % 2, netmap[(en, c)]) for c in (1, 2) if (en, c) in netmap}
                succ = {i: [j for j in cand if onets(i) & inets(j)] for i in cand}
                hv = harvest or ideal
                if hv and "edges" in hv:
                    # prefer the compiler's own logical edges (physical networks may be merged: finding S12)
                    num = bpexport.id_to_number(bpj, hv)
                    idx_of = {e["entity_number"]: i for i, e in enumerate(ents_j)}
                    succ = {i: [] for i in cand}
                    for src, snk, sg_, col, *_m in hv["edges"]:
                        a_, b_ = idx_of.get(num.get(src)), idx_of.get(num.get(snk))
                        if a_ in succ and b_ in succ and b_ not in succ[a_]:
                            succ[a_].append(b_)
                # the last stage is the one readers hang on: its output network has a consumer outside the ring
                by_num = {e["entity_number"]: e for e in ents_j}
                def reads(en):
                    e = by_num[en]
                    if e["name"] == "constant-combinator":
                        return "(output anchor)" in (e.get("player_description") or "")
                    return e["name"] not in bpexport.POLES
                if hv and "edges" in hv:
                    outside_h = set()
                    for src, snk, sg_, col, *_m in hv["edges"]:
                        a_, b_ = idx_of.get(num.get(src)), idx_of.get(num.get(snk))
                        if a_ in succ and b_ is not None and b_ not in succ:
                            outside_h.add(a_)
                else:
                    outside_h = None
                outside = outside_h if outside_h is not None else {i for i in cand if any(
                    (c % 2, nid) in onets(i) for (en, c), nid in netmap.items()
                    if c in (1, 2) and reads(en) and en not in {ents_j[j]["entity_number"] for j in cand})}
                order = list(cand) if len(cand) == 1 else None
                for last in ([] if order else (sorted(outside) or cand)):
                    if len(succ.get(last, [])) < 1:
                        continue
                    seq = [succ[last][0]]
                    while seq[-1] != last and len(seq) <= len(cand):
                        nx = succ.get(seq[-1], [])
                        if not nx:
                            break
                        seq.append(nx[0])
                    if seq[-1] == last and len(set(seq)) == len(seq) == len(cand):
                        order = seq
                        break
                if order is None:
                    mem_problems.append({"memory": m["name"], "ring": "no simple cycle over the write combinators", "candidates": cand})
                    continue
                def assign(order_, base):
                    st_, cu_ = [], []
                    for k_, i in enumerate(order_):
                        is_last = (k_ == len(order_) - 1)
                        var = input_vars[decls[m["ir"]][1]] if is_last else (900 + base + k_)
                        cu_.append(f"({i}%nat, [({sg}, {var}%positive)])")
                        st_.append(f"{{| sg_ent := {i}%nat; sg_sig := {sg}; sg_var := {var}%positive |}}")
                    return st_, cu_
                base = len(cut)
                stages, cu = assign(order, base)
                alts = []
                if not outside and len(order) > 1:
                    # nothing reads this cell: which stage "is" the cell cannot be observed, so the ring is
                    # accepted if the composition starting after SOME stage is the written function
                    for rot in range(1, len(order)):
                        o2 = order[rot:] + order[:rot]
                        alts.append(assign(o2, base))
                rings.append((stages, fa.coq_expr(m["data"], ex.sig), (base, len(cu), alts)))
                cut.extend(cu)
        defs += f"Definition cut_{cid} : cut_t := [{'; '.join(cut)}].\n"
        parts = []
        if cells:
            defs += f"Definition cells_{cid} : list cell_req := [{'; '.join(cells)}].\n"
            parts.append(f"ok (check_cells bp_{cid} cut_{cid} {n + 2}%nat ds_{cid} qs_{cid} rs_{cid} cells_{cid})")
        if latches:
            defs += f"Definition latches_{cid} : list latch_req := [{'; '.join(latches)}].\n"
            parts.append(f"ok (check_latches bp_{cid} cut_{cid} {n + 2}%nat ds_{cid} qs_{cid} rs_{cid} latches_{cid})")
        for k_, (stages, fx, (base, ln, alts)) in enumerate(rings):
            defs += f"Definition ring_{cid}_{k_} : list stage := [{'; '.join(stages)}].\n"
            disj = [f"ok (check_ring bp_{cid} cut_{cid} {n + 2}%nat ds_{cid} qs_{cid} rs_{cid} ring_{cid}_{k_} {fx})"]
            for a_, (st_, cu_) in enumerate(alts):
                cut_a = cut[:base] + cu_ + cut[base + ln:]
                defs += f"Definition cut_{cid}_{k_}_{a_} : cut_t := [{'; '.join(cut_a)}].\n"
                defs += f"Definition ring_{cid}_{k_}_{a_} : list stage := [{'; '.join(st_)}].\n"
                disj.append(f"ok (check_ring bp_{cid} cut_{cid}_{k_}_{a_} {n + 2}%nat ds_{cid} qs_{cid} rs_{cid} ring_{cid}_{k_}_{a_} {fx})")
            parts.append("(" + " || ".join(disj) + ")" if len(disj) > 1 else disj[0])
        if parts:
            expr = " && ".join(parts)
        meta["mem_problems"] = mem_problems
        meta["cells"] = len(cells)
        meta["latches"] = len(latches)
        meta["rings"] = [len(r_[0]) for r_ in rings]
        meta["latch_defs"] = latches
    if embed_parts and ideal is None:
        # C12: each independent part is embedded in the compiled program along its position list
        # (Proofs/EmbedProofs.v, embeds_sound / embedded_values)
        for k_, (pdecls, rho) in enumerate(embed_parts):
            ptext = fa.coq_decls(pdecls, ex.sig, input_vars, exposed)
            defs += f"Definition part_{cid}_{k_} : list decl :=\n  {ptext}.\n"
            emb = f"embeds part_{cid}_{k_} ds_{cid} [{'; '.join(str(x) + '%nat' for x in rho)}]"
            meta["embed_expr"] = (meta.get("embed_expr") + " && " + emb) if meta.get("embed_expr") else emb
        meta["embedded_parts"] = len(embed_parts)
    if ideal is None:
        # the net ids of the term are re-derived from the blueprint's wires inside Coq (Factorio/Nets.v)
        cdefs, cexpr = bpexport.net_certificate(bpj, cid)
        defs += cdefs
        expr = f"({expr}) && {cexpr}"
        meta["nets_certificate"] = True
    return defs, expr, meta


def debug_case(cid, defs, n):
    rc, outs, text = H.coq_eval(defs, [f"debug_progb bp_{cid} {n + 2}%nat ds_{cid} qs_{cid} rs_{cid} bqs_{cid}"], EXTRA, tag=f"dbg{cid}")
    return outs[0] if outs and outs[0] else text[-3000:]


def search_failing_input(cid, defs, n, n_inputs, rng, extra_values=(), var_ids=None):
    """concrete evaluation of the blueprint (Circuit.run at V=Z) and of the source semantics on
    boundary and random valuations; returns (env list, [(observed, expected)...]) or None"""
    vals = list(dict.fromkeys(list(extra_values) + BOUNDARY))
    # a power with a run-time exponent is evaluated as wrap32 (Z.pow a n): keep the magnitudes small,
    # a 31-bit exponent would never finish
    small = "Pow" in defs
    if small:
        vals = [v for v in vals if abs(v) <= 40]
    envs = []
    if n_inputs == 0:
        envs = [[]]
    else:
        if len(vals) ** n_inputs <= 600:
            envs = [list(t) for t in itertools.product(vals, repeat=n_inputs)]
        else:
            for _ in range(400):
                envs.append([rng.choice(vals) for _ in range(n_inputs)])
        for _ in range(200):
            if small:
                envs.append([rng.randint(-40, 40) for _ in range(n_inputs)])
            else:
                envs.append([rng.randint(-(1 << 31), (1 << 31) - 1) for _ in range(n_inputs)])
        for _ in range(100):
            envs.append([rng.randint(-20, 20) for _ in range(n_inputs)])
    if var_ids and var_ids != list(range(1, len(var_ids) + 1)):
        # variable v is read at position v - 1 of the list (env_of): spread the values over the variable ids
        def spread(e):
            full = [0] * max(var_ids)
            for v, x in zip(var_ids, e):
                full[v - 1] = x
            return full
        envs = [spread(e) for e in envs]
    lst = "[" + "; ".join("[" + "; ".join(fa.zc(v) for v in e) + "]" for e in envs) + "]"
    # a circuit that never settles (a feedback loop created by a wiring defect) shows different values at
    # different ticks: look at the tick by which every feed-forward circuit of this size has settled, and later
    # cheap first: most failures show on a handful of valuations
    rng.shuffle(envs)
    stages = [(n + 3, envs[:60]), (n + 3, envs[60:]), (2 * n + 8, envs[:150])]
    for ticks, envs in stages:
        if not envs:
            continue
        lst = "[" + "; ".join("[" + "; ".join(fa.zc(v) for v in e) + "]" for e in envs) + "]"
        expr = (
            f"map (fun e => forallb (fun p => Z.eqb (fst p) (snd p)) "
            f"(conc_progb bp_{cid} {ticks}%nat ds_{cid} qs_{cid} rs_{cid} bqs_{cid} (env_of e))) {lst}"
        )
        rc, outs, text = H.coq_eval(defs, [expr], EXTRA, tag=f"srch{cid}", timeout=150)
        if not outs or outs[0] is None:
            if rc == 124:
                break  # the concrete evaluation itself is too expensive for this blueprint: stop searching
            continue
        flags = re.findall(r"true|false", outs[0])
        for e, f in zip(envs, flags):
            if f == "false":
                el = "[" + "; ".join(fa.zc(v) for v in e) + "]"
                rc, o2, _ = H.coq_eval(defs, [f"conc_progb bp_{cid} {ticks}%nat ds_{cid} qs_{cid} rs_{cid} bqs_{cid} (env_of {el})"], EXTRA,
                                       tag=f"srch2{cid}")
                pairs = re.findall(r"\(\s*(-?\d+)\s*,\s*(-?\d+)\s*\)", (o2[0] or "").replace("%Z", ""))
                return e, [(int(a), int(b)) for a, b in pairs]
    return None


def thresholds(decls):
    out = set()

    def walk(e):
        if isinstance(e, tuple):
            if e[0] == "int":
                for d in (-1, 0, 1):
                    out.add(fa.wrap32(e[1] + d))
            for x in e[1:]:
                walk(x)

    for d in decls:
        walk(d[-1] if d[0] != "in" else ("int", d[3]))
    return sorted(out)
