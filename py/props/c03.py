"""C03 -- a gated memory cell latches the written value and holds it.
(model) coq/Model/Cells.v: tick law of the gate pair for ALL data / enable streams, with the hold,
follow, zero-before-first-write and latches corollaries.
(tie) coq/Valid/CellCheck.v, check_cells: on the emitted blueprint, with the two gates of every cell
cut out as state variables and the rest settled symbolically, (i) every reader / output / entity
condition shows the source's value with the memory content vw + vh, for all inputs and all cell
contents, and (ii) one real tick later the write gate shows the written data iff the enable is
positive and the hold gate shows vw + vh iff it is not -- exactly the equations of the model.
Partial (DESIGN.md section 7): transients while an enable cone is still settling are not covered."""
from __future__ import annotations

import random

import engine
import facto_ast as fa
import facto_rich as fr
import gen_rich
from gen_scalar import SIGNALS, program_safe, s14_free
from props import c01

PROP = "C03"
FILES = ["Model/Cells.v", "Valid/CellCheck.v", "Props/C03.v"]


def sub_reads(e, mapping):
    if not isinstance(e, tuple):
        return e
    if e[0] == "ref" and e[1] in mapping:
        return ("read", mapping[e[1]])
    return tuple(sub_reads(x, mapping) for x in e)


X = ("ref", "x")
FUNCS = [
    ("func", "hrelu", [("Signal", "x")], [], ("cond", ("cmp", ">", X, ("int", 0)), X)),
    ("func", "hbump", [("Signal", "x")], [], ("bin", "+", ("bin", "*", X, ("int", 2)), ("int", 1))),
    ("func", "hclip", [("Signal", "x")], [], ("cond", ("cmp", "<", X, ("int", 100)), X)),
    ("func", "hid", [("Signal", "x")], [], ("bin", "+", X, ("int", 0))),
    ("func", "hpos", [("Signal", "x")], [], ("cmp", ">", X, ("int", 3))),
]


def gen_mem(seed):
    for k in range(40):
        r = random.Random(seed * 40 + k)
        g = gen_rich.RichGen(r, max_depth=3)
        st = list(FUNCS) + g.inputs(r.randint(2, 3))
        for _ in range(r.randint(0, 2)):
            nm = next(g.names)
            st.append(("sig", nm, g.sig_expr(2)))
            g.scope.append((nm, "sig", None))
        mems = []
        shared = None
        if r.random() < 0.5:
            shared = next(g.names)
            st.append(("sig", shared, g.sig_expr(2)))
            g.scope.append((shared, "sig", None))
        for _ in range(r.randint(1, 2)):
            m = "m" + next(g.names)
            sg = r.choice(SIGNALS[:6])
            st.append(("mem", m, sg))
            x = r.random()
            if x < 0.45:
                data = ("proj", g.sig_expr(2), sg)          # explicitly carried on the cell's signal
            elif x < 0.75:
                # a function result: its type need not be the cell's (the write converts it: a warning, not an error)
                arg = ("ref", shared) if (shared is not None and r.random() < 0.5) else g.sig_expr(1)
                data = ("call", r.choice(FUNCS)[1], [arg])
            elif x < 0.85 and shared is not None:
                data = ("call", "hid", [("ref", shared)])    # one named value written to several cells
            else:
                data = ("proj", ("cond", g.cmp_expr(), g.sig_expr(1)), sg)   # a conditional value
            when = g.cmp_expr() if r.random() < 0.8 else ("and", g.cmp_expr(), g.cmp_expr())
            st.append(("write", m, data, when))
            mems.append(m)
        mapping = {f"rd{m}": m for m in mems}
        extra = [(f"rd{m}", "sig", None) for m in mems]
        for _ in range(r.randint(1, 3)):
            nm = next(g.names)
            m = r.choice(mems)
            e = g.sig_expr(2, extra)
            if f"rd{m}" not in repr(e):
                e = ("bin", r.choice(["+", "-", "*"]), ("ref", f"rd{m}"), e)
            st.append(("sig", nm, sub_reads(e, mapping)))
            g.scope.append((nm, "sig", None))
        if r.random() < 0.4:
            lamp = next(g.names)
            st.append(("place", lamp, "small-lamp", ("int", 0), ("int", 12), None))
            st.append(("enable", lamp, ("cmp", r.choice([">", "<", "=="]), ("read", r.choice(mems)), ("int", r.choice([0, 3, 10])))))
        def bad_cond(e):
            # `(c1 && c2) : v` requires simple comparison operands; a memory read is not one
            if not isinstance(e, tuple):
                return False
            if e[0] == "cond" and e[1][0] in ("and", "or") and "'read'" in repr(e[1]):
                return True
            return any(bad_cond(x) for x in e[1:])

        if any(bad_cond(s_[2]) for s_ in st if s_[0] in ("sig", "enable", "write")):
            continue
        try:
            el = fr.elaborate(st)
        except Exception:  # noqa: BLE001
            continue
        allx = [d for d in el.flat]
        extra_exprs = [m["data"] for m in el.mems.values()] + [m["when"] for m in el.mems.values() if m["when"] is not None]
        ok = program_safe(el.flat) and s14_free(el.flat) and all(
            program_safe(el.flat + [("sig", "_", x)]) and s14_free(el.flat + [("sig", "_", x)]) for x in extra_exprs)
        # known finding S29: an enable that folds to a compile-time constant is never wired to the gates
        from gen_scalar import constant_value
        if any(m["when"] is not None and constant_value(el.flat, m["when"]) is not None for m in el.mems.values()):
            continue
        if ok and max(fa.unfolded_size(el.flat)) < 200:
            return st, el
    return st, el


def make_items(seed, n):
    items = []
    i = 0
    while len(items) < n:
        st, el = gen_mem(seed * 2713 + i)
        i += 1
        items.append(engine.Item(len(items), el.flat, text=fr.text(st), entities=el.entities, mems=el.mems,
                                 opts={"optimize": len(items) % 3 != 0}))
    return items


def run(tier, seed, t0):
    def histories(items):
        # a certificate no longer checks: look for a concrete history on which the cell misbehaves
        import history
        for it in items:
            if it.status != "violation" or not getattr(it, "mems", None) or it.bpj is None:
                continue
            if it.detail.get("failing_input") or it.detail.get("kind", "").startswith("compile"):
                continue
            try:
                h = history.gated_cell_history(it, random.Random(1))
            except Exception as e:  # noqa: BLE001
                h = None
                it.detail["history_search_error"] = repr(e)[:300]
            if h:
                it.detail["failing_input"] = h

    def cov(items):
        cells = sum(getattr(it, "meta", {}).get("cells", 0) for it in items if it.status == "pass")
        probs = [(it.id, p) for it in items for p in getattr(it, "meta", {}).get("mem_problems", [])]
        return {"cells_certified": cells, "cells_not_found": probs[:5]}

    return c01.run(tier, seed, t0, prop=PROP, n_quick=30, n_thorough=300, make_items=make_items, files=FILES,
                   props_file="Props/C03.v", extra_cov=cov, reclassify=histories,
                   rule="random programs with 1-2 gated cells (data: projected on the cell's signal, a function result of another type (converted by "
                        "the write), a named value shared by both cells, or a conditional value; enable arbitrary stateless expressions, "
                        "enable a comparison or a conjunction of comparisons), 1-3 readers per program, optionally a lamp on a "
                        "read; per blueprint one kernel-checked certificate for the readers (all inputs, all cell contents) and "
                        "for the next-state equations of every cell")


def replay(path):
    return c01.replay(path)
