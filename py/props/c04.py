"""C04 -- self-referential writes iterate the written function exactly.
(model) Model/Cells.v ring theorems.  (tie) Valid/StateCheck.v check_ring: on the emitted blueprint,
with every combinator of the feedback ring cut out as a state variable, each stage's next value
depends on its predecessor only and is what one real tick produces, and the composition around the
ring equals the written function f of the value readers see -- for all inputs and all states;
L = number of ring combinators.  When the compiler keeps the gate pair instead, the cell equations of
C03 are checked with data = f(read) and a constant enable (L = chain length + 1)."""
from __future__ import annotations

import random

import engine
import facto_ast as fa
import facto_rich as fr
import gen_rich
from gen_scalar import SIGNALS, program_safe, s14_free
from props import c01
from props.c03 import sub_reads

PROP = "C04"
FILES = ["Model/Cells.v", "Valid/CellCheck.v", "Valid/StateCheck.v", "Props/C04.v"]


def gen_self(seed):
    for k in range(40):
        r = random.Random(seed * 40 + k)
        g = gen_rich.RichGen(r, max_depth=2)
        st = g.inputs(r.randint(0, 2))
        m = "m" + next(g.names)
        sg = r.choice(SIGNALS[:5])
        st.append(("mem", m, sg))
        # f: a chain of 1..4 arithmetic steps over the cell, constants and held inputs
        e = ("read", m)
        names = [n for n, kd, _ in g.scope if kd == "sig"]
        for _ in range(r.randint(1, 4)):
            op = r.choice(["+", "-", "*", "%", "XOR", "AND", "<<", ">>", "/"])
            if op in ("<<", ">>"):
                b = ("int", r.randint(1, 5))
            elif op in ("%", "/"):
                b = ("int", r.choice([3, 7, 17, 100, 1000]))
            elif names and r.random() < 0.35:
                b = ("ref", r.choice(names))
            else:
                b = ("int", r.choice([1, 2, 3, 5, 13, 255, -1]))
            e = ("bin", op, e, b)
        st.append(("write", m, e, None))
        for _ in range(r.randint(0, 2)):
            nm = next(g.names)
            st.append(("sig", nm, ("bin", r.choice(["+", "*", "-"]), ("read", m), ("int", r.choice([1, 2, 10])))))
        if r.random() < 0.5 or not any(s_[0] == "sig" for s_ in st):
            st.append(("sig", next(g.names), ("read", m)))
        try:
            el = fr.elaborate(st)
        except Exception:  # noqa: BLE001
            continue
        data = el.mems[m]["data"]
        if program_safe(el.flat + [("sig", "_", data)]) and s14_free(el.flat + [("sig", "_", data)]):
            return st, el
    return st, el


def make_items(seed, n):
    items = []
    i = 0
    while len(items) < n:
        st, el = gen_self(seed * 4409 + i)
        i += 1
        items.append(engine.Item(len(items), el.flat, text=fr.text(st), entities=el.entities, mems=el.mems,
                                 opts={"optimize": len(items) % 2 == 0}))
    return items


def run(tier, seed, t0):
    def cov(items):
        rings = [x for it in items if it.status == "pass" for x in getattr(it, "meta", {}).get("rings", [])]
        gated = sum(getattr(it, "meta", {}).get("cells", 0) for it in items if it.status == "pass")
        return {"rings_certified": len(rings), "ring_lengths": sorted(set(rings)), "kept_gate_pairs_certified": gated}

    return c01.run(tier, seed, t0, prop=PROP, n_quick=30, n_thorough=300, make_items=make_items, files=FILES,
                   props_file="Props/C04.v", extra_cov=cov,
                   rule="random unconditional self-referential writes m.write(f(m.read())) with f a chain of 1-4 arithmetic "
                        "steps over the cell, constants and held inputs, 0-3 readers, optimisation on and off; per blueprint a "
                        "kernel-checked certificate of ring shape, per-stage tick equations and composition = f")


def replay(path):
    print(open(path).read()[:4000])
    return 0
