"""C04 -- self-referential writes iterate the written function exactly.
(model) Model/Cells.v ring theorems.  (tie) Valid/StateCheck.v check_ring: on the emitted blueprint,
with every combinator of the feedback ring cut out as a state variable, each stage's next value
depends on its predecessor only and is what one real tick produces, and the composition around the
ring equals the written function f of the value readers see -- for all inputs and all states;
L = number of ring combinators.  When the compiler keeps the gate pair instead, the cell equations of
C03 are checked with data = f(read) and a constant enable (L = chain length + 1)."""
from __future__ import annotations

import random

import engine
import facto_ast as fa
import facto_rich as fr
import gen_rich
from gen_scalar import SIGNALS, program_safe, s14_free
from props import c01
from props.c03 import sub_reads

PROP = "C04"
FILES = ["Model/Cells.v", "Valid/CellCheck.v", "Valid/StateCheck.v", "Props/C04.v"]


def gen_self(seed):
    for k in range(40):
        r = random.Random(seed * 40 + k)
        g = gen_rich.RichGen(r, max_depth=2)
        st = g.inputs(r.randint(0, 2))
        names = [n for n, kd, _ in g.scope if kd == "sig"]
        sg = r.choice(SIGNALS[:5])
        mems = []
        for mi in range(2 if r.random() < 0.4 else 1):
            m = "m" + next(g.names)
            msg = sg if (mi == 0 or r.random() < 0.7) else r.choice(SIGNALS[:5])  # two cells often share one signal type
            st.append(("mem", m, msg))
            # f: a chain of 1..4 arithmetic steps over the cell, constants and held inputs
            e = ("read", m)
            for _ in range(r.randint(1, 4)):
                op = r.choice(["+", "-", "*", "%", "XOR", "AND", "<<", ">>", "/"])
                if op in ("<<", ">>"):
                    b = ("int", r.randint(1, 5))
                elif op in ("%", "/"):
                    b = ("int", r.choice([3, 7, 17, 100, 1000]))
                elif names and r.random() < 0.35:
                    b = ("ref", r.choice(names))
                else:
                    b = ("int", r.choice([1, 2, 3, 5, 13, 255, -1]))
                e = ("bin", op, e, b)
            mems.append((m, msg, e))
        m = mems[0][0]
        # readers may be declared before the write (the read is lowered first) or after it
        readers = []
        for _ in range(r.randint(0, 2)):
            mm = r.choice(mems)[0]
            readers.append(("sig", next(g.names), ("bin", r.choice(["+", "*", "-"]), ("read", mm), ("int", r.choice([1, 2, 10])))))
        if len(mems) == 2 and r.random() < 0.7:
            readers.append(("sig", next(g.names), ("bin", r.choice(["+", "-", "+"]), ("read", mems[0][0]), ("read", mems[1][0]))))
        if names and r.random() < 0.4:
            # a reader mixing the cell with a computed value carried on the cell's own signal type
            mm, msg, _ = r.choice(mems)
            k = ("proj", ("bin", r.choice(["*", "+"]), ("ref", r.choice(names)), ("int", r.choice([2, 3]))), msg)
            readers.append(("sig", next(g.names), ("bin", "+", ("read", mm), k)))
        if r.random() < 0.5 or not readers:
            readers.append(("sig", next(g.names), ("read", r.choice(mems)[0])))
        before = [x for x in readers if r.random() < 0.4]
        st.extend(before)
        for mm, msg, e in mems:
            st.append(("write", mm, e, None))
        st.extend(x for x in readers if x not in before)
        try:
            el = fr.elaborate(st)
        except Exception:  # noqa: BLE001
            continue
        datas = [mm_["data"] for mm_ in el.mems.values()]
        if all(program_safe(el.flat + [("sig", "_", data)]) and s14_free(el.flat + [("sig", "_", data)]) for data in datas):
            return st, el
    return st, el


def make_items(seed, n):
    items = []
    i = 0
    while len(items) < n:
        st, el = gen_self(seed * 4409 + i)
        i += 1
        items.append(engine.Item(len(items), el.flat, text=fr.text(st), entities=el.entities, mems=el.mems,
                                 opts={"optimize": len(items) % 2 == 0}))
    return items


def run(tier, seed, t0):
    def histories(items):
        # a certificate no longer checks: look for a concrete history on which the cell misbehaves
        import history
        for it in items:
            if it.status != "violation" or not getattr(it, "mems", None) or it.bpj is None:
                continue
            if it.detail.get("failing_input") or it.detail.get("kind", "").startswith("compile"):
                continue
            try:
                h = history.ring_history(it, random.Random(1))
            except Exception as e:  # noqa: BLE001
                h = None
                it.detail["history_search_error"] = repr(e)[:300]
            if h:
                it.detail["failing_input"] = h

    def cov(items):
        rings = [x for it in items if it.status == "pass" for x in getattr(it, "meta", {}).get("rings", [])]
        gated = sum(getattr(it, "meta", {}).get("cells", 0) for it in items if it.status == "pass")
        return {"rings_certified": len(rings), "ring_lengths": sorted(set(rings)), "kept_gate_pairs_certified": gated}

    return c01.run(tier, seed, t0, prop=PROP, n_quick=30, n_thorough=300, make_items=make_items, files=FILES,
                   props_file="Props/C04.v", extra_cov=cov, reclassify=histories,
                   rule="random unconditional self-referential writes m.write(f(m.read())) with f a chain of 1-4 arithmetic "
                        "steps over the cell, constants and held inputs; one or two cells (often on one signal type); readers "
                        "before or after the write, over one cell, both cells, or a cell plus a computed value on the cell's own "
                        "signal type; optimisation on and off; per blueprint a "
                        "kernel-checked certificate of ring shape, per-stage tick equations and composition = f")


def replay(path):
    return c01.replay(path)
