"""C02 -- bundle operations act member-wise and never leak foreign signals.
Specification: Facto/Denote.v bden / ESel / EAny / EAll (member-wise over the non-zero members of a
finite signal universe, as on a Factorio wire).  The circuit model executes each / anything /
everything over the same universe.  Per blueprint, check_progb compares the WHOLE signal map of every
bundle output's anchor network (every signal of the universe, so a leaked scalar or condition signal
is a mismatch) and every scalar output with the specification, for all inputs, kernel-checked."""
from __future__ import annotations

import engine
import gen_bundle
from props import c01

PROP = "C02"
FILES = ["Props/C02.v"]


def make_items(seed, n):
    items = []
    i = 0
    while len(items) < n:
        p = gen_bundle.gen_bundle_program(seed * 6151 + i)
        i += 1
        items.append(engine.Item(len(items), p, opts={"optimize": len(items) % 3 != 0}))
    return items


def run(tier, seed, t0):
    def cov(items):
        ops = {}
        for it in items:
            for d in it.decls:
                if d[0] == "bundle":
                    ops[d[2][0]] = ops.get(d[2][0], 0) + 1
                elif d[0] == "sig" and d[2][0] in ("sel", "any", "all"):
                    ops[d[2][0]] = ops.get(d[2][0], 0) + 1
        return {"bundle_operation_histogram": ops}

    return c01.run(tier, seed, t0, prop=PROP, n_quick=40, n_thorough=400, make_items=make_items, files=FILES,
                   props_file="Props/C02.v", extra_cov=cov,
                   rule="random programs over bundle literals (signal variables and typed literals, incl. zero and negative "
                        "members), each-arithmetic with constant and signal operands, filters with value or constant output, "
                        "gating, merges with further literals, selection, any/all; every bundle output is compared on every "
                        "signal of the universe (= every signal name occurring in the blueprint or the program)")


def replay(path):
    return c01.replay(path)
