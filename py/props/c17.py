"""C17 -- imports are textual inclusion; the standard library meets its contracts.

(b) library contracts
    * coq/Props/C17.v over coq/Gen/LibMath.v, which py/facto2v.py regenerates from /repo/lib/math.facto on
      every run: one theorem per library function, for ALL int32 arguments in the no-overflow domain;
    * a broken theorem after a library edit -> search for a failing argument tuple (regenerated model vs the
      documented formula on boundary-biased tuples, inside Coq), confirm on the real compiler, report;
    * the regenerated model, the elaborated (inlined) specification program and the documented formula are
      evaluated on boundary-biased tuples and must agree (kernel-checked);
    * calling programs `import "lib/math.facto"; ... Signal r = f(...);` are compiled by the real compiler and
      the emitted blueprint is validated for ALL inputs against the inlined library text (engine.check_items),
      so the COMPILED library is covered.
(a) imports
    * coq/Props/C17.v: preproc_terminates / preproc_once / preproc_is_paste and the resolution theorems over
      the hand model coq/Model/Preproc.v;
    * correspondence: generated import graphs (chains, diamonds, cycles, self imports, repeated imports,
      missing files, importer-directory vs library-path vs cwd-relative files) are materialised in a scratch
      directory, the real preprocess_imports is run in-process from three working directories, the Coq model is
      run on the same graph, and the line lists are compared inside Coq (kernel-checked);
    * an importing program and its pasted twin are compiled and validated against the same flat specification.
"""
from __future__ import annotations

import itertools
import json
import os
import random
import re
import shutil
import sys
import time
from pathlib import Path, PurePosixPath

import engine
import facto2v
import facto_ast as fa
import facto_rich as fr
import harness as H
from props.common import Report, build_or_report, count_theorems, print_assumptions

PROP = "C17"
FILES = ["Facto/LibCall.v", "Gen/LibMath.v", "Proofs/Int32Bits.v", "Proofs/LibMathProofs.v",
         "Model/Preproc.v", "Proofs/PreprocProofs.v", "Props/C17.v"]
LIB_FINDINGS = os.path.join(H.VERIF, "known_findings.lib.json")
BOUND = [0, 1, -1, 2, -2, 3, 5, 7, -7, 10, 31, 32, 99, 100, 101, 255, 1000, 46341, 65536, -65536,
         (1 << 30), -(1 << 30), 2147483646, 2147483647, -2147483647, -2147483648]


def in32(z):
    return -(1 << 31) <= z < (1 << 31)


def sgn(x):
    return (x > 0) - (x < 0)


# ------------------------------------------------------------------ the documented contracts (reference side)
# name -> (parameter names, domain predicate, documented value); this mirrors the statements of Props/C17.v
REF = {
    "abs": (("x",), lambda x: in32(abs(x)), lambda x: abs(x)),
    "sign": (("x",), lambda x: True, lambda x: sgn(x)),
    "min": (("a", "b"), lambda a, b: True, lambda a, b: min(a, b)),
    "max": (("a", "b"), lambda a, b: True, lambda a, b: max(a, b)),
    "clamp": (("x", "low", "high"), lambda x, lo, hi: lo <= hi, lambda x, lo, hi: max(lo, min(x, hi))),
    "lerp": (("a", "b", "t"),
             lambda a, b, t: in32(b - a) and in32((b - a) * t) and in32(a + fa.tquot((b - a) * t, 100)),
             lambda a, b, t: a + fa.tquot((b - a) * t, 100)),
    "between": (("x", "low", "high"), lambda x, lo, hi: True, lambda x, lo, hi: 1 if lo <= x <= hi else 0),
    "get_bit": (("value", "pos"), lambda v, p: 0 <= p < 32, lambda v, p: (v >> p) & 1),
    "set_bit": (("value", "pos"), lambda v, p: 0 <= p <= 30, lambda v, p: v | (1 << p)),
    "clear_bit": (("value", "pos"), lambda v, p: 0 <= p <= 30, lambda v, p: v & ~(1 << p)),
    "toggle_bit": (("value", "pos"), lambda v, p: 0 <= p <= 30, lambda v, p: v ^ (1 << p)),
    "div_floor": (("a", "b"), lambda a, b: b != 0 and in32(a // b), lambda a, b: a // b),
    "mod_positive": (("a", "b"), lambda a, b: b != 0 and in32(abs(b)), lambda a, b: a % abs(b)),
}
SIGS = ["signal-A", "signal-B", "signal-C"]


def load_library():
    with open(os.path.join(H.REPO, "lib", "math.facto"), encoding="utf-8") as f:
        return facto2v.parse_library(f.read())


def lib_findings():
    if not os.path.exists(LIB_FINDINGS):
        return []
    with open(LIB_FINDINGS) as fh:
        return [f for f in json.load(fh)["findings"] if f["property"] == PROP]


# ------------------------------------------------------------------ argument tuples
def arg_tuples(f, rng, n):
    """boundary-biased argument tuples of library function f (facto2v.Func); shift positions stay in 0..31
    (outside it the run-time arithmetic is unspecified, Int32.v)"""
    out = []
    pools = []
    for kind, pn in f.params:
        if pn == "pos":
            pools.append(list(range(0, 32)))
        else:
            pools.append(BOUND)
    total = 1
    for p in pools:
        total *= len(p)
    if total <= n:
        out = [tuple(t) for t in itertools.product(*pools)]
    else:
        seen = set()
        while len(seen) < n:
            t = tuple(rng.choice(p) if rng.random() < 0.75 or p is not BOUND else rng.randint(-(1 << 31), (1 << 31) - 1)
                      for p in pools)
            seen.add(t)
        out = sorted(seen)
    return out


def zl(t):
    return "[" + "; ".join(fa.zc(v) for v in t) + "]"


def caller(f, rich, args, variant=0, project=False):
    """statements of a calling program and its elaboration; Signal parameters are bound to program inputs
    declared with the given values, int parameters to constants"""
    main = []
    cargs = []
    all_signal = all(kind == "Signal" for kind, _ in f.params)
    for k, ((kind, pn), v) in enumerate(zip(f.params, args)):
        if kind == "Signal":
            nm = "abc"[k]
            main.append(("in", nm, SIGS[k], v))
            if all_signal and variant % 2 == 1 and k == 0:
                cargs.append(("bin", "-", ("ref", nm), ("int", 3 + variant)))  # an expression as the actual argument
            else:
                cargs.append(("ref", nm))
        elif variant % 2 == 1:
            nm = "k" + "abc"[k]
            main.append(("int", nm, ("int", v)))
            cargs.append(("ref", nm))
        else:
            cargs.append(("int", v))
    e = ("call", f.name, cargs)
    if project:
        e = ("proj", e, "signal-R")
    main.append(("sig", "r", e))
    el = fr.elaborate(rich + main)
    return main, el


def flat_value(flat, inputs=None):
    """documented value of the last declaration of a flat program (inputs: values of the `in` declarations)"""
    vals = []
    it = iter(inputs) if inputs is not None else None
    for d in flat:
        if d[0] == "in":
            vals.append(fa.wrap32(next(it) if it is not None else d[3]))
        else:
            v = fa.ev(d[2], vals)
            if v is None:
                return None
            vals.append(v)
    return vals[-1]


# ------------------------------------------------------------------ model evaluation (kernel-checked)
def model_cross_check(rep, lib, rich, rng, per_fn):
    """Coq's lib_<f> (regenerated), the elaborated flat program under the documented semantics (py/facto_ast.ev)
    and the documented formula must agree: model = flat on every tuple, model = formula inside the domain"""
    cases = []
    info = {}
    for f in lib:
        tups = arg_tuples(f, rng, per_fn)
        pairs = []
        n_dom = 0
        for t in tups:
            _, el = caller(f, rich, t)
            v = flat_value(el.flat)
            if v is None:
                continue
            if f.name in REF and REF[f.name][1](*t):
                n_dom += 1
                d = REF[f.name][2](*t)
                if d != v:
                    # the inlined library text contradicts the documented value on the reference semantics
                    info.setdefault("ref_disagree", []).append((f.name, t, v, d))
            pairs.append((t, v))
        lst = "[" + "; ".join(f"({zl(t)}, {fa.zc(v)})" for t, v in pairs) + "]"
        cases.append((f"lib_{f.name}", "", f"forallb (fun p => Z.eqb (lib_{f.name} (fst p)) (snd p)) {lst}"))
        info[f.name] = (len(pairs), n_dom, pairs[:2])
    res, logs, cmd = H.shard_cases("C17E", cases, "Facto.LibCall Gen.LibMath", per=4)
    return res, info, cmd, logs


def search_model_counterexample(lib, rng, per_fn=4000):
    """after a broken theorem: first tuple inside the documented domain on which the regenerated model
    differs from the documented formula"""
    out = []
    for f in lib:
        if f.name not in REF:
            continue
        tups = sorted((t for t in arg_tuples(f, rng, per_fn) if REF[f.name][1](*t)),
                      key=lambda t: (sum(abs(v) for v in t), t))  # smallest failing tuple first
        if not tups:
            continue
        lst = "[" + "; ".join(zl(t) for t in tups) + "]"
        rc, res, text = H.coq_eval("", [f"map lib_{f.name} {lst}"], "Facto.LibCall Gen.LibMath", tag="c17srch")
        if not res or res[0] is None:
            continue
        vals = [int(x) for x in re.findall(r"-?\d+", res[0].replace("%Z", "").split(":")[0])]
        for t, v in zip(tups, vals):
            d = REF[f.name][2](*t)
            if v != d:
                out.append({"function": f.name, "args": list(t), "model": v, "documented": d})
                break
    return out


def confirm_on_compiler(f, rich, cex):
    """compile a caller with the failing tuple as inputs / constants and evaluate the emitted blueprint
    concretely: a value different from the documented one confirms the violation on the real compiler"""
    args = cex["args"]
    main, el = caller(f, rich, args, project=True)
    text = 'import "lib/math.facto";\n' + fr.text(main)
    it = engine.Item("cx", el.flat, text=text, entities=[])
    try:
        ins = [d[3] for d in el.flat if d[0] == "in"]
        r = engine.concrete_mismatch(it, ins, prop=PROP)
    except Exception as e:  # noqa: BLE001
        return {"program": text, "error": f"{type(e).__name__}: {e}"[:500]}, False
    if not isinstance(r, list) or not r:
        return {"program": text, "compile": str(r)[:500]}, False
    obs = r[0][1]
    return {"program": text, "inputs": ins, "observed": obs, "documented": cex["documented"],
            "inlined_text_value": r[0][2]}, obs != cex["documented"]


# ------------------------------------------------------------------ known-finding regions (narrow, mechanical)
def is_const(e, flat):
    k = e[0]
    if k == "int":
        return True
    if k == "var":
        return flat[e[1]][0] == "int"
    return all(is_const(x, flat) for x in e[1:] if isinstance(x, tuple))


def walk(e):
    if isinstance(e, tuple):
        yield e
        for x in e[1:]:
            yield from walk(x)


def region_cond_compound_const(flat):
    """`cond : v` whose v is a compound constant expression (not a plain literal)"""
    for d in flat:
        if d[0] == "in":
            continue
        for e in walk(d[2]):
            if e[0] == "cond" and e[2][0] != "int" and is_const(e[2], flat):
                return True
    return False


def region_s14(flat):
    """known finding S14 (listed under C01): compound all-literal left operand of a signal operand"""
    for d in flat:
        if d[0] == "in":
            continue
        for e in walk(d[2]):
            if e[0] == "bin" and e[2][0] not in ("int", "var") and is_const(e[2], flat) and not is_const(e[3], flat):
                return True
    return False


def bp_copycount_unsupplied(item):
    """a decider copies the input count of a signal that no logical edge supplies to it"""
    import bpexport

    if not item.bpj or not item.harvest or "edges" not in item.harvest:
        return False
    num = bpexport.id_to_number(item.bpj, item.harvest)
    supplied = {}
    for src, snk, sig, col, *_m in item.harvest["edges"]:
        supplied.setdefault(num.get(snk), set()).add(sig)
    for e in bpexport.entities_of(item.bpj):
        if e["name"] != "decider-combinator":
            continue
        dc = (e.get("control_behavior") or {}).get("decider_conditions", {})
        for o in dc.get("outputs", []):
            s = (o.get("signal") or {}).get("name")
            if o.get("copy_count_from_input", True) and s and not s.startswith("signal-each") and \
                    s not in ("signal-everything", "signal-anything") and s not in supplied.get(e["entity_number"], set()):
                return True
    return False


def classify_lib(item):
    """id of the C17 library finding (known_findings.lib.json) a failing item falls into, or None"""
    if region_cond_compound_const(item.decls) and bp_copycount_unsupplied(item):
        return "L1"
    return None


# ------------------------------------------------------------------ (b) calling programs
def in_domain_consts(f, rng):
    """constants for the int parameters / declared values for the Signal parameters, inside the domain"""
    name = f.name
    for _ in range(200):
        t = []
        for kind, pn in f.params:
            if pn == "pos":
                t.append(rng.randint(0, 30))
            elif kind == "int":
                t.append(rng.choice([0, 1, 2, 3, 5, 7, 10, 100, 255, 1000, -1, -3, -10, -100, 65535, 2147483647, -2147483647]))
            else:
                t.append(rng.choice([2, 3, 5, 7, 9, 11, 20, -4, 100]))
        t = tuple(t)
        if name not in REF or REF[name][1](*t):
            if name == "lerp" and not (in32(t[1] - t[0]) and abs(t[1] - t[0]) < 50000):
                continue  # (b - a) * t must not overflow for ordinary t either
            return t
    return None


def library_items(lib, rich, rng, per_fn):
    items = []
    for f in lib:
        for v in range(per_fn):
            t = in_domain_consts(f, rng)
            if t is None:
                continue
            main, el = caller(f, rich, t, variant=v)
            proj = region_s14(el.flat) or v == 2
            if proj:
                main, el = caller(f, rich, t, variant=v, project=True)
            if v == 3:
                # the result feeds further arithmetic and a second library call
                main = main[:-1] + [("sig", "u", main[-1][2]),
                                    ("sig", "r", ("proj", ("bin", "+", ("call", "abs", [("ref", "u")]), ("int", 1)), "signal-R"))]
                el = fr.elaborate(rich + main)
            text = 'import "lib/math.facto";\n' + fr.text(main)
            items.append(engine.Item(f"{f.name}{v}", el.flat, text=text, entities=[],
                                     note={"function": f.name, "args": list(t), "variant": v, "projected": bool(proj)}))
    return items


# ------------------------------------------------------------------ (a) import graphs
IMPORT_RE_BEGIN = re.compile(r"^# --- Imported from (.+) ---$")
IMPORT_RE_END = re.compile(r"^# --- End import (.+) ---$")
IMPORT_RE_SKIP = re.compile(r"^# Skipped circular import: (.+)$")


def cs(s):
    return '"' + s.replace('"', '""') + '"%string'


def cpath(parts):
    return "[" + "; ".join(cs(p) for p in parts) + "]"


def abs_parts(p):
    return list(PurePosixPath(str(p)).parts[1:])


def import_rel(raw):
    """the suffix rule of preprocess_imports applied to the quoted text of an import"""
    p = PurePosixPath(raw)
    if p.suffix != ".facto":
        p = p.with_suffix(".facto")
    return p


def classify_line(line):
    s = line.strip()
    if s.startswith('import "') and s.endswith('";'):
        return ("import", import_rel(s[8:-2]))
    return ("text", line)


def coq_lines(content):
    out = []
    for ln in content.split("\n"):
        k, v = classify_line(ln)
        out.append(f"Import {cpath(list(v.parts))}" if k == "import" else f"Text {cs(v)}")
    return "[" + "; ".join(out) + "]"


def coq_expected(text):
    out = []
    for ln in text.split("\n"):
        m = IMPORT_RE_BEGIN.match(ln)
        if m:
            out.append(f"OBegin {cpath(abs_parts(m.group(1)))}")
            continue
        m = IMPORT_RE_END.match(ln)
        if m:
            out.append(f"OEnd {cpath(abs_parts(m.group(1)))}")
            continue
        m = IMPORT_RE_SKIP.match(ln)
        if m:
            out.append(f"OSkip {cpath(list(PurePosixPath(m.group(1)).parts))}")
            continue
        out.append(f"OText {cs(ln)}")
    return "[" + "; ".join(out) + "]"


def coq_search_path(env_value):
    out = []
    for ent in env_value.split(";"):
        p = PurePosixPath(ent)
        if p.is_absolute():
            out.append(f"Abs {cpath(list(p.parts[1:]))}")
        else:
            out.append(f"Rel {cpath([x for x in p.parts if x != '.'])}")
    return "[" + "; ".join(out) + "]"


class Graph:
    """files: dict relative-location -> content; locations are relative to the scratch root"""

    def __init__(self, gid, shape, files, main):
        self.id, self.shape, self.files, self.main = gid, shape, files, main


TEXT_LINES = ["# t{k}", "Signal v{k} = {k};", "", "   # indented {k}", 'import "x{k}.facto"; # trailing comment: not an import',
              '# import "y{k}.facto";', "import 'z{k}.facto';", "func f{k}(Signal x) {{ return x + {k}; }}"]


def gen_graph(gid, rng):
    """a random import graph.  Directory roles: proj (the importing program's directory), proj/sub,
    root/lib and root/pkg (absolute search-path entries), w1 and w1/example_programs (relative entries as
    seen from working directory w1)"""
    shape = rng.choice(["chain", "diamond", "cycle", "self", "main-again", "repeat", "missing", "shadow", "lib", "random",
                        "random", "cwd-relative"])
    names = ["a", "b", "c", "d", "e"]
    files = {}
    k = [0]

    def body(imports, trailing_nl=None):
        lines = []
        for imp in imports:
            for _ in range(rng.randint(0, 2)):
                k[0] += 1
                lines.append(rng.choice(TEXT_LINES).format(k=k[0]))
            lines.append(rng.choice(['import "{}";', '  import "{}";  ', 'import "{}";']).format(imp))
        for _ in range(rng.randint(0, 2)):
            k[0] += 1
            lines.append(rng.choice(TEXT_LINES).format(k=k[0]))
        text = "\n".join(lines)
        if (rng.random() < 0.5) if trailing_nl is None else trailing_nl:
            text += "\n"
        return text

    def sfx(n):
        return n + ".facto" if rng.random() < 0.7 else n  # the suffix rule

    if shape == "chain":
        files["proj/a.facto"] = body([sfx("b")])
        files["proj/b.facto"] = body([sfx("c")])
        files["proj/c.facto"] = body([])
        main = body([sfx("a")])
    elif shape == "diamond":
        files["proj/a.facto"] = body([sfx("c")])
        files["proj/b.facto"] = body([sfx("c")])
        files["proj/c.facto"] = body([])
        main = body([sfx("a"), sfx("b")])
    elif shape == "cycle":
        files["proj/a.facto"] = body([sfx("b")])
        files["proj/b.facto"] = body([sfx("c")])
        files["proj/c.facto"] = body([sfx("a")])
        main = body([sfx("a"), sfx("c")])
    elif shape == "self":
        files["proj/a.facto"] = body([sfx("a"), sfx("a")])
        main = body([sfx("a")])
    elif shape == "main-again":
        main = body([sfx("a")])
        files["proj/a.facto"] = body([sfx("main")])
        files["proj/main.facto"] = main
    elif shape == "repeat":
        files["proj/a.facto"] = body([])
        main = body([sfx("a"), sfx("a"), "sub/" + sfx("b")])
        files["proj/sub/b.facto"] = body([sfx("a"), "sub/" + sfx("b")])  # a: not next to b; sub/b: only via cwd
    elif shape == "missing":
        files["proj/a.facto"] = body([sfx("nothere")])
        main = body([sfx("a")])
    elif shape == "shadow":
        # the same name next to the importer and in the library: the importer's directory wins
        files["proj/a.facto"] = body([])
        files["root/lib/a.facto"] = body([])
        files["root/lib/b.facto"] = body([sfx("a")])  # inside the library, its own a.facto is next to it
        main = body([sfx("a"), sfx("b")])
    elif shape == "lib":
        files["root/lib/a.facto"] = body([sfx("b")])
        files["root/lib/b.facto"] = body([])
        files["root/pkg/c.facto"] = body([sfx("a")])
        main = body([sfx("a"), sfx("c"), sfx("b")])
    elif shape == "cwd-relative":
        # resolution through the cwd-relative entries: depends on the working directory by design
        files["w1/a.facto"] = body([])
        files["w1/example_programs/b.facto"] = body([sfx("a")])
        files["root/lib/a.facto"] = body([])
        main = body([sfx("a"), sfx("b")])
    else:
        dirs = ["proj", "proj", "proj/sub", "root/lib", "root/pkg", "w1", "w1/example_programs"]
        n = rng.randint(2, 5)
        locs = {}
        for nm in names[:n]:
            locs[nm] = rng.choice(dirs)
        for nm, d in locs.items():
            imps = [sfx(rng.choice(names[:n] + ["zz"] * (rng.random() < 0.1))) for _ in range(rng.randint(0, 3))]
            imps = [("sub/" + i if rng.random() < 0.2 else i) for i in imps]
            files[f"{d}/{nm}.facto"] = body(imps)
        main = body([sfx(rng.choice(names[:n])) for _ in range(rng.randint(1, 3))])
    return Graph(gid, shape, files, main)


def cwd_independent_by_design(g, root, cwds, sp_entries):
    """every import line of the graph is resolved next to its importer, or no candidate exists under a
    cwd-relative search-path entry in any of the working directories (hypothesis of resolve_cwd_indep)"""
    present = {str(PurePosixPath(root) / loc) for loc in g.files}
    rel_entries = [e for e in sp_entries if not PurePosixPath(e).is_absolute()]
    sources = [(str(PurePosixPath(root) / "proj"), g.main)] + \
              [(str((PurePosixPath(root) / loc).parent), c) for loc, c in g.files.items()]
    for base, content in sources:
        for ln in content.split("\n"):
            k, v = classify_line(ln)
            if k != "import":
                continue
            if str(PurePosixPath(base) / v) in present:
                continue
            for cwd in cwds:
                for e in rel_entries:
                    cand = PurePosixPath(cwd) / e / v
                    if str(PurePosixPath(os.path.normpath(str(cand)))) in present:
                        return False
    return True


def run_real(pre, text, base, cwd):
    """the real preprocess_imports, in-process, from working directory cwd"""
    old = os.getcwd()
    os.chdir(cwd)
    try:
        try:
            return ("ok", pre.preprocess_imports(text, base_path=Path(base)))
        except FileNotFoundError as e:
            m = re.match(r"Import file not found: (.*)$", str(e))
            return ("notfound", m.group(1) if m else str(e))
        except RecursionError as e:
            return ("error", "RecursionError (no termination)")
        except Exception as e:  # noqa: BLE001
            return ("error", f"{type(e).__name__}: {e}"[:300])
    finally:
        os.chdir(old)


def graph_cases(pre, graphs, scratch, tag):
    """materialise each graph, run the real function from three working directories and build the Coq
    comparison cases; returns (cases, per-case record)"""
    cases = []
    recs = {}
    for g in graphs:
        root = os.path.join(scratch, f"{tag}{g.id}")
        for d in ("proj/sub", "root/lib", "root/pkg", "w1/example_programs", "w2"):
            os.makedirs(os.path.join(root, d), exist_ok=True)
        for loc, content in g.files.items():
            p = os.path.join(root, loc)
            os.makedirs(os.path.dirname(p), exist_ok=True)
            with open(p, "w", encoding="utf-8") as fh:
                fh.write(content)
        sp_env = ".;example_programs;" + os.path.join(root, "root/pkg") + ";" + os.path.join(root, "root/lib")
        cwds = [os.path.join(root, "w1"), os.path.join(root, "w2"), os.path.join(root, "proj")]
        base = os.path.join(root, "proj")
        old_env = os.environ.get("FACTORIO_IMPORT_PATH")
        os.environ["FACTORIO_IMPORT_PATH"] = sp_env
        try:
            reals = [run_real(pre, g.main, base, cwd) for cwd in cwds]
        finally:
            if old_env is None:
                os.environ.pop("FACTORIO_IMPORT_PATH", None)
            else:
                os.environ["FACTORIO_IMPORT_PATH"] = old_env
        fs = "[" + ";\n   ".join(f"({cpath(abs_parts(os.path.join(root, loc)))}, {coq_lines(c)})"
                                 for loc, c in sorted(g.files.items())) + "]"
        defs = (f"Definition fs_{tag}{g.id} : fsys :=\n  {fs}.\n"
                f"Definition sp_{tag}{g.id} : list sentry := {coq_search_path(sp_env)}.\n"
                f"Definition main_{tag}{g.id} : list line := {coq_lines(g.main)}.\n")
        indep = cwd_independent_by_design(g, root, cwds, sp_env.split(";"))
        for ci, (cwd, real) in enumerate(zip(cwds, reals)):
            cid = f"{tag}{g.id}w{ci}"
            call = (f"preprocess fs_{tag}{g.id} {cpath(abs_parts(cwd))} sp_{tag}{g.id} {len(g.files)}%nat "
                    f"{cpath(abs_parts(base))} main_{tag}{g.id}")
            if real[0] == "ok":
                expr = f"agrees ({call}) (Some {coq_expected(real[1])}) []"
            elif real[0] == "notfound":
                expr = f"agrees ({call}) None {cpath(list(PurePosixPath(real[1]).parts))}"
            else:
                expr = "false"
            cases.append((cid, defs if ci == 0 else "", expr))
            recs[cid] = {"graph": g.id, "shape": g.shape, "cwd": cwd, "real": real, "call": call, "defs": defs,
                         "files": g.files, "main": g.main, "search_path": sp_env}
        recs[f"{tag}{g.id}"] = {"independent_by_design": indep, "reals": reals, "shape": g.shape,
                                "files": g.files, "main": g.main, "root": root}
    return cases, recs


def paste_once(files, main_lines_of, start_text, base):
    """specification-side textual paste: every file's text once, at its first import (files: abs path -> text)"""
    seen = set()

    def go(text, base):
        out = []
        for ln in text.split("\n"):
            k, v = classify_line(ln)
            if k != "import":
                out.append(ln)
                continue
            p = main_lines_of(base, v)
            if p is None:
                raise KeyError(str(v))
            if p in seen:
                continue
            seen.add(p)
            out.append(go(files[p], str(PurePosixPath(p).parent)))
        return "\n".join(out)

    return go(start_text, base)


def twin_items(scratch, rng, lib_rich):
    """an importing program (diamond + cycle + repeated import + the bundled library by bare name) and its
    pasted twin; both are validated against the same flat specification"""
    k1, k2, k3 = rng.randint(2, 9), rng.randint(2, 9), rng.randint(1, 9)
    h = ("func", "h", [("Signal", "x")], [], ("bin", "+", ("ref", "x"), ("int", k3)))
    f = ("func", "f", [("Signal", "x"), ("int", "m")], [("sig", "t", ("call", "h", [("ref", "x")]))],
         ("bin", "*", ("ref", "t"), ("ref", "m")))
    g = ("func", "g", [("Signal", "x")], [], ("bin", "-", ("call", "h", [("ref", "x")]), ("int", k2)))
    main = [("in", "a", "signal-A", 5), ("in", "b", "signal-B", 3),
            ("sig", "p", ("call", "f", [("ref", "a"), ("int", k1)])),
            ("sig", "q", ("call", "g", [("ref", "b")])),
            ("sig", "r", ("proj", ("bin", "+", ("call", "clamp", [("ref", "p"), ("int", 0), ("int", 50)]), ("ref", "q")), "signal-R"))]
    root = os.path.join(scratch, "twin", "proj")
    os.makedirs(root, exist_ok=True)
    texts = {
        "util.facto": 'import "base.facto";\n' + fr.text([f]),
        "more.facto": 'import "base";\nimport "util.facto";\n' + fr.text([g]),
        "base.facto": '# base\nimport "util.facto";\n' + fr.text([h]),
    }
    for n, t in texts.items():
        with open(os.path.join(root, n), "w") as fh:
            fh.write(t)
    main_text = 'import "util.facto";\nimport "more";\nimport "math.facto";\nimport "util.facto";\n' + fr.text(main)
    libtext = open(os.path.join(H.REPO, "lib", "math.facto"), encoding="utf-8").read()
    allfiles = {os.path.join(root, n): t for n, t in texts.items()}
    allfiles[os.path.join(H.REPO, "lib", "math.facto")] = libtext

    def res(base, rel):
        for d in (base, os.path.join(H.REPO, "lib")):
            p = os.path.join(d, str(rel))
            if p in allfiles:
                return p
        return None

    pasted = paste_once(allfiles, res, main_text, root)
    # the functions the specification inlines are read back from the texts with the independent parser
    funcs = []
    for n in ("base.facto", "util.facto", "more.facto"):
        body = "\n".join(ln for ln in texts[n].split("\n") if classify_line(ln)[0] != "import")
        funcs += facto2v.to_rich(parse_with_calls(body))
    el = fr.elaborate(lib_rich + funcs + main)
    a = engine.Item("twinI", el.flat, text=main_text, opts={"source_name": os.path.join(root, "main.facto")}, entities=[],
                    note="importing program")
    b = engine.Item("twinP", el.flat, text=pasted, entities=[], note="pasted twin")
    return [a, b], {"files": texts, "main": main_text, "pasted": pasted}


def parse_with_calls(text):
    return facto2v.parse_library(text)


# ------------------------------------------------------------------ the check
def run(tier, seed, t0):
    rep = Report(PROP, tier, seed, t0)
    rng = random.Random(seed * 7907 + 17)
    quick = tier == "quick"
    ok, bad, out = build_or_report(rep, FILES)
    # the library as it is now (a translator abort is reported through `bad`)
    try:
        lib = load_library()
        rich = facto2v.to_rich(lib)
    except Exception as e:  # noqa: BLE001
        lib, rich = None, None
        if not bad:
            bad = [("translator", "LibMath.v", str(e))]
    if bad:
        cands = []
        confirmed = None
        if lib is not None and not any(b[0] == "translator" for b in bad):
            cands = search_model_counterexample(lib, rng)
            for c in cands:
                f = [x for x in lib if x.name == c["function"]][0]
                info, yes = confirm_on_compiler(f, rich, c)
                c["compiler"] = info
                if yes and confirmed is None:
                    confirmed = c
        payload = {"broken": [list(b) for b in bad], "model_counterexamples": cands, "log": out[-2500:]}
        if confirmed:
            payload.update({"function": confirmed["function"], "args": confirmed["args"],
                            "program": confirmed["compiler"]["program"], "observed": confirmed["compiler"]["observed"],
                            "documented": confirmed["documented"]})
        rep.violation(payload, bool(confirmed))
        return rep.finish()
    if not ok:
        rep.notes.append("coq build reported errors outside this property's files")
    n_thm = count_theorems(FILES)
    rep.obligations += n_thm
    rep.discharged += n_thm
    rep.checker_cmds.append("make -C coq -j16 (coqc 8.16.1, full .vo build)")
    # every library function has a contract theorem
    props_text = open(os.path.join(H.COQ, "Props/C17.v")).read()
    for f in lib:
        rep.obligations += 1
        if f.name in REF and re.search(rf"Theorem C17_{f.name}\b", props_text):
            rep.discharged += 1
        else:
            rep.violation({"broken_obligation": f"library function {f.name} has no contract theorem in Props/C17.v",
                           "function": f.name}, False)

    pa = print_assumptions("Props/C17.v")
    rep.obligations += 1
    if pa.count("Closed under the global context") == props_text.count("Print Assumptions") and "Axioms:" not in pa:
        rep.discharged += 1
    else:
        rep.violation({"broken_obligation": "Print Assumptions of Props/C17.v is not `Closed under the global context` "
                                            "for every theorem", "output": pa[-1500:]}, False)

    findings = {f["id"]: f for f in lib_findings() if f.get("kind") == "finding"}
    seen_lib_findings = set()

    # ---- (b1) model = inlined text = documented formula on boundary-biased tuples (kernel-checked)
    per_fn = 700 if quick else 6000
    res, info, cmd, logs = model_cross_check(rep, lib, rich, rng, per_fn)
    rep.checker_cmds.append(cmd.replace(PROP + "_", "C17E_"))
    n_eval = 0
    for f in lib:
        rep.obligations += 1
        n_eval += info[f.name][0]
        if res.get(f"lib_{f.name}"):
            rep.discharged += 1
        else:
            rep.violation({"broken_obligation": f"Gen/LibMath.v lib_{f.name} differs from the elaborated library text "
                                                "under the documented semantics (py/facto_ast.ev)",
                           "function": f.name, "log": logs[:1]}, False)
    for name, t, v, d in info.get("ref_disagree", []):
        # the inlined text contradicts the documentation although the theorem holds: a flaw of this check
        rep.violation({"broken_obligation": "reference formula of py/props/c17.py disagrees with the library text",
                       "function": name, "args": list(t), "text_value": v, "documented": d}, True)

    # ---- (a1) import graphs: model vs real, three working directories
    scratch = f"/var/tmp/verif-{os.getpid()}"
    shutil.rmtree(scratch, ignore_errors=True)
    os.makedirs(scratch)
    graph_stats = {}
    items, tw, wit, graphs = [], [], [], []
    recs, twin_info = {}, {}
    logs, glogs = [], []
    try:
        sys.path.insert(0, H.REPO)
        from dsl_compiler.src.parsing import preprocessor as pre

        default_sp = os.environ.get("FACTORIO_IMPORT_PATH", "")
        n_graphs = 36 if quick else 300
        graphs = [gen_graph(i, rng) for i in range(n_graphs)]
        cases, recs = graph_cases(pre, graphs, scratch, "g")
        gres, glogs, gcmd = H.shard_cases("C17G", cases, "Model.Preproc", per=12)
        rep.checker_cmds.append(gcmd.replace(PROP + "_", "C17G_"))
        shapes = {}
        for cid, _, _ in cases:
            rep.obligations += 1
            r = recs[cid]
            shapes[r["shape"]] = shapes.get(r["shape"], 0) + 1
            if gres.get(cid):
                rep.discharged += 1
            elif len(rep.violations) >= 5:
                rep.notes.append(f"correspondence also fails on graph case {cid} (shape {r['shape']}); not expanded")
            else:
                rc, outs, _ = H.coq_eval(r["defs"], [r["call"]], "Model.Preproc", tag="c17g")
                rep.violation({"broken_obligation": "correspondence Model/Preproc.v <-> preprocess_imports",
                               "graph": {"files": r["files"], "main": r["main"], "search_path": r["search_path"]},
                               "cwd": r["cwd"], "real": list(r["real"]), "model": (outs[0] if outs else None)}, True)
        n_indep = 0
        for g in graphs:
            r = recs[f"g{g.id}"]
            if r["independent_by_design"]:
                n_indep += 1
                rep.obligations += 1
                norm = [json.dumps(x).replace(r["root"], "<root>") for x in r["reals"]]
                if len(set(norm)) == 1:
                    rep.discharged += 1
                else:
                    rep.violation({"broken_obligation": "resolution depends on the working directory although every import "
                                                        "is next to its importer or only in an absolute library directory",
                                   "graph": {"files": r["files"], "main": r["main"]}, "results_per_cwd": r["reals"]}, True)
        graph_stats = {"graphs": n_graphs, "graph_runs": len(cases), "shapes": shapes, "cwd_independent_by_design": n_indep,
                       "graphs_with_output": sum(1 for g in graphs if recs[f"g{g.id}"]["reals"][0][0] == "ok"),
                       "graphs_not_found": sum(1 for g in graphs if recs[f"g{g.id}"]["reals"][0][0] == "notfound")}
        rep.samples.append({"import_graph": {"shape": graphs[0].shape, "files": graphs[0].files, "main": graphs[0].main},
                            "real_output_cwd_w1": recs["g0w0"]["real"][1][:600]})

        # ---- the bundled library under the shipped search path
        lib_path = os.path.join(H.REPO, "lib", "math.facto")
        cw = [H.REPO, os.path.join(scratch, "g0", "w2"), "/"]
        bare = [run_real(pre, 'import "math.facto";\nSignal x = 1;', os.path.join(scratch, "g0", "proj"), c) for c in cw]
        rep.obligations += 1
        if len({json.dumps(b) for b in bare}) == 1 and bare[0][0] == "ok" and f"# --- Imported from {lib_path} ---" in bare[0][1]:
            rep.discharged += 1
        else:
            rep.violation({"broken_obligation": 'import "math.facto" (bundled library by bare name) must resolve to '
                                                f"{lib_path} from every working directory",
                           "cwds": cw, "results": [list(b)[:1] + [str(b[1])[:200]] for b in bare]}, True)
        # known finding L2: the documented form import "lib/math.facto" resolves only from the repository root
        pref = [run_real(pre, 'import "lib/math.facto";\nSignal x = 1;', os.path.join(scratch, "g0", "proj"), c) for c in cw]
        if len({p[0] for p in pref}) > 1:
            if "L2" in findings:
                rep.known_finding("L2", findings["L2"]["what"])
                seen_lib_findings.add("L2")
            else:
                rep.violation({"broken_obligation": 'import "lib/math.facto" resolves from some working directories only',
                               "cwds": cw, "results": [[p[0], str(p[1])[:120]] for p in pref],
                               "search_path": default_sp}, True)
        graph_stats["library_resolution"] = {"cwds": cw, "bare_name": [b[0] for b in bare], "lib_prefix": [p[0] for p in pref],
                                             "search_path": default_sp}

        # known finding L3: a cycle through the compiled file itself includes its text twice
        if "L3" in findings and "files" in findings["L3"].get("witness", {}):
            w3 = findings["L3"]["witness"]
            d3 = os.path.join(scratch, "l3")
            os.makedirs(d3, exist_ok=True)
            for n, t in w3["files"].items():
                with open(os.path.join(d3, n), "w") as fh:
                    fh.write(t)
            mt = w3["files"]["main.facto"]
            exp = run_real(pre, mt, d3, d3)
            twice = exp[0] == "ok" and exp[1].count(mt.split("\n")[1]) >= 2
            r3 = H.compile_many([(mt, {"source_name": os.path.join(d3, "main.facto"), "_harvest": False}),
                                 (w3["pasted"], {"_harvest": False})])
            graph_stats["main_in_cycle"] = {"main_text_expanded_twice": twice, "importing": [r3[0][0], str(r3[0][1])[:160]],
                                            "pasted": r3[1][0]}
            if twice or r3[0][0] != "ok":
                if r3[1][0] == "ok":
                    rep.known_finding("L3", findings["L3"]["what"])
                    seen_lib_findings.add("L3")
                else:
                    rep.violation({"broken_obligation": "witness of L3: the pasted twin no longer compiles",
                                   "result": [str(x)[:300] for x in r3[1]]}, True)

        # ---- (b2) + (a2): compiled programs
        per_fn_progs = 4 if quick else 16
        items = library_items(lib, rich, rng, per_fn_progs)
        tw, twin_info = twin_items(scratch, rng, rich)
        wit = []
        for fid, fnd in findings.items():
            if "witness" in fnd and "decls" in fnd["witness"]:
                decls = [tuple_of(d) for d in fnd["witness"]["decls"]]
                wit.append((fid, engine.Item("w" + fid, decls, text=fnd["witness"].get("text"), entities=[])))
        allitems = [w for _, w in wit] + tw + items
        cmd, logs = engine.check_items(PROP, allitems, seed=seed)
        rep.checker_cmds.append(cmd)
    finally:
        shutil.rmtree(scratch, ignore_errors=True)

    for fid, w in wit:
        if w.status != "pass":
            rep.known_finding(fid, findings[fid]["what"])
            seen_lib_findings.add(fid)
    hist = {}
    per_fn_status = {}
    for it in tw + items:
        st = it.status
        if st == "violation":
            lid = classify_lib(it)
            if lid and lid in findings:
                st = it.status = "known:" + lid
        hist[st] = hist.get(st, 0) + 1
        if isinstance(it.note, dict):
            per_fn_status.setdefault(it.note["function"], []).append(st)
        if st == "pass":
            rep.obligations += 1
            rep.discharged += 1
        elif st.startswith("known:"):
            rep.known.append(st[6:])
        elif st.startswith("skipped"):
            rep.notes.append(f"{it.id}: {st}")
        else:
            rep.obligations += 1
            found = bool(it.detail.get("failing_input")) or it.detail.get("kind", "").startswith("compile-")
            rep.violation({"program": it.text, "decls": it.decls, "options": it.opts, "note": it.note, "detail": it.detail,
                           "broken_obligation": "check_c01 (Valid/CheckC01.v) on the blueprint of a program calling the "
                                                "bundled library / importing files, against the inlined specification"}, found)
    for lid in sorted({s[6:] for s in hist if s.startswith("known:L")} - seen_lib_findings):
        rep.known_finding(lid, findings[lid]["what"])
    rep.samples += [{"program": it.text, "note": it.note, "status": it.status} for it in (tw[:1] + items[:3])]
    passing = [it for it in tw + items if it.status == "pass"]
    rep.cov.update({
        "programs": len(tw) + len(items),
        "evaluations": len(tw) + len(items) + n_eval + graph_stats.get("graph_runs", 0),
        "distinct_nontrivial": len({it.text for it in passing if it.meta["entities"] >= 3})
                               + len({json.dumps([g.files, g.main], sort_keys=True) for g in graphs
                                      if recs[f"g{g.id}"]["reals"][0][0] == "ok" and "Imported from" in recs[f"g{g.id}"]["reals"][0][1]}),
        "rule": "(b) 13 contract theorems for all int32 arguments in the no-overflow domain over the regenerated library "
                "model; per function boundary-biased argument tuples evaluated in Coq (model = inlined text = documented "
                "formula, one kernel-checked lemma per function); per function calling programs (literal / declared int "
                "arguments, projected result, result feeding a second library call) compiled by the real compiler and "
                "validated for all inputs against the inlined library text; (a) random import graphs x 3 working "
                "directories, model output = real output compared inside Coq; importing program vs pasted twin. "
                "non-trivial = a passing compiled program with >= 3 entities, or a graph whose expansion includes at "
                "least one file; distinct by program text / graph content",
        "library_argument_tuples": {f.name: {"tuples": info[f.name][0], "in_documented_domain": info[f.name][1]} for f in lib},
        "status_histogram": hist,
        "status_per_function": per_fn_status,
        "import_graphs": graph_stats,
        "twin": {k: (v if k != "pasted" else v[:300]) for k, v in twin_info.items() if k != "files"},
        "print_assumptions": pa,
        "refuted_theorems": ["C17_lib_prefix_cwd_independent_refuted", "C17_main_text_once_refuted"],
        "coq_logs": (logs + glogs)[:3],
    })
    return rep.finish(assumptions=[
        "py/facto2v.py translation of lib/math.facto (fail-closed, independent of the repo's parser)",
        "the exporter of import graphs in py/props/c17.py: normalised absolute paths, line classification "
        "(stripped line starts with `import \"` and ends with `\";`), the .facto suffix rule, marker lines of the real output",
        "Factorio 2.0 semantics as modelled in coq/Factorio/Circuit.v; Int32.arith as the run-time arithmetic",
        "programs and import graphs are sampled; library arguments, program inputs and ticks are universally quantified",
    ])


def tuple_of(x):
    return tuple(tuple_of(y) for y in x) if isinstance(x, list) else x


def replay(path):
    payload = json.load(open(path))
    print(json.dumps(payload, indent=1)[:6000])
    return 0
