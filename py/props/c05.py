"""C05 -- set/reset latches obey set, reset, hold and the declared priority.
(model) Model/Cells.v latch tables (SR rows meet the table; RS row refuted for both-active: S3).
(tie) Valid/StateCheck.v check_latches: with the latch decider cut out as the state bit, one real tick
from the quasi-settled state leaves the latch at the specified next bit, decided by case analysis over
the bit and the boolean atoms set>0 / reset>0 (equiv_on_sound), for all inputs and thresholds.
Known findings S3 (RS both active) and S4 (inlined latch ignores the declared priority) are
recognised by the exact table rows in which the emitted latch differs."""
from __future__ import annotations

import random
import re

import engine
import facto_ast as fa
import facto_rich as fr
import gen_rich
import harness as H
import scalar_check as S
from gen_scalar import SIGNALS, program_safe, s14_free
from props import c01

PROP = "C05"
FILES = ["Model/Cells.v", "Valid/CellCheck.v", "Valid/StateCheck.v", "Props/C05.v"]
CMPS = ["<", ">", "==", ">=", "<=", "!="]


def gen_latch(seed):
    for k in range(40):
        r = random.Random(seed * 40 + k)
        g = gen_rich.RichGen(r, max_depth=2)
        st = g.inputs(r.randint(1, 3))
        names = [n for n, kd, _ in g.scope if kd == "sig"]
        m = "m" + next(g.names)
        sg = r.choice(SIGNALS[:5])
        st.append(("mem", m, sg))
        shape = r.random()
        if shape < 0.45:   # comparisons on one shared input: the inlinable shape
            x = r.choice(names)
            c1, c2 = r.choice([10, 30, 50]), r.choice([20, 30, 60])
            se = ("cmp", r.choice(CMPS), ("ref", x), ("int", c1))
            re_ = ("cmp", r.choice(CMPS), ("ref", x), ("int", c2))
        elif shape < 0.8:  # comparisons on different inputs
            se = ("cmp", r.choice(CMPS), ("ref", r.choice(names)), ("int", r.choice([0, 5, 10])))
            re_ = ("cmp", r.choice(CMPS), ("ref", r.choice(names)), ("int", r.choice([0, 5, 10])))
        else:              # set / reset given as signals computed before
            s1, s2 = next(g.names), next(g.names)
            st.append(("sig", s1, g.cmp_expr()))
            st.append(("sig", s2, g.cmp_expr()))
            se, re_ = ("ref", s1), ("ref", s2)
        v = r.choice([("int", 1), ("int", 1), ("int", r.choice([5, 100, -3])), ("ref", r.choice(names))])
        if v[0] == "ref":
            v = ("proj", v, sg)  # the written value must be carried on the cell's declared type
        st.append(("latch", m, v, se, re_, r.random() < 0.5))
        st.append(("sig", next(g.names), ("read", m)))
        if r.random() < 0.4:
            st.append(("sig", next(g.names), ("bin", "+", ("read", m), ("int", 1))))
        try:
            el = fr.elaborate(st)
        except Exception:  # noqa: BLE001
            continue
        # known finding S29 (latch form): a set / reset that folds to a constant is never wired to the latch.
        # decided on samples: a set / reset that takes one truth value on 96 boundary and random valuations is
        # treated as constant and the program is not generated
        mm = next(iter(el.mems.values()))
        free = [d[1] for d in el.flat if d[0] == "in" and not d[1].startswith("_")]
        pool = sorted(set(S.BOUNDARY) | set(S.thresholds(el.flat)))
        rr = random.Random(seed)
        envs = [{n_: rr.choice(pool) for n_ in free} for _ in range(64)] + \
               [{n_: rr.randint(-(1 << 31), (1 << 31) - 1) for n_ in free} for _ in range(32)]
        try:
            degenerate = any(len({fa.ev(mm[key], _vals(el.flat, env)) > 0 for env in envs}) == 1 for key in ("set", "reset"))
        except Exception:  # noqa: BLE001
            degenerate = True
        if degenerate:
            continue
        if program_safe(el.flat) and s14_free(el.flat):
            return st, el
    return st, el


def make_items(seed, n):
    items = []
    i = 0
    while len(items) < n:
        st, el = gen_latch(seed * 5227 + i)
        i += 1
        items.append(engine.Item(len(items), el.flat, text=fr.text(st), entities=el.entities, mems=el.mems,
                                 opts={"optimize": len(items) % 3 != 0}))
    return items


def diff_rows(it, ideal=False):
    """rows (bit, set, reset) of the table in which the emitted latch differs from the specification
    (ideal: on the circuit idealised from the compiler's logical edges)"""
    try:
        defs, expr, meta = S.case_for(it.id, it.decls, it.bpj, entities=it.entities, mems=it.mems,
                                      ideal=(it.harvest if ideal else None), harvest=it.harvest)
    except Exception:  # noqa: BLE001
        return None
    if not meta.get("latches"):
        return None
    n = meta["entities"]
    exprs = [f"match cell_step bp_{it.id} cut_{it.id} {n + 2}%nat with Some (_, _, st') => "
             f"map (latch_diff_rows (b_univ bp_{it.id}) ds_{it.id} st') latches_{it.id} | None => [] end"]
    rc, outs, text = H.coq_eval(defs, exprs, S.EXTRA, tag=f"lr{it.id}")
    if not outs or outs[0] is None:
        return None
    rows = re.findall(r"\(\s*(true|false)\s*,\s*(true|false)\s*,\s*(true|false)\s*\)", outs[0])
    rows = [tuple(x == "true" for x in row) for row in rows]
    m = next(iter(it.mems.values()))
    if m.get("set") == m.get("reset"):
        rows = [r_ for r_ in rows if r_[1] == r_[2]]  # one atom: rows with different values cannot occur
    # a set / reset that is a compile-time constant only ever takes that truth value
    # (decided by the verified normaliser: the atom's symbolic value is a constant term)
    ex2 = [f"map (fun l => (match sden (b_univ bp_{it.id}) ds_{it.id} (l_set l) with TC z => Some z | _ => None end, "
           f"match sden (b_univ bp_{it.id}) ds_{it.id} (l_reset l) with TC z => Some z | _ => None end)) latches_{it.id}"]
    rc2, outs2, _ = H.coq_eval(defs, ex2, S.EXTRA, tag=f"lc{it.id}")
    consts = re.findall(r"\(\s*(None|Some\s*\(?-?\d+\)?)\s*,\s*(None|Some\s*\(?-?\d+\)?)\s*\)", (outs2[0] or "").replace("%Z", "")) if outs2 else []
    if consts:
        for pos, txt in ((1, consts[0][0]), (2, consts[0][1])):
            mm = re.search(r"-?\d+", txt)
            if txt.startswith("Some") and mm:
                truth = int(mm.group(0)) > 0
                rows = [r_ for r_ in rows if r_[pos] == truth]
    return rows


def _mentions_input(decls, e):
    """does e depend (through named values) on an input whose value matters?  constants folded by the
    language rules (typed literals, ints) do not count; `x || nonzero-literal` style absorptions are not
    recognised here: only input-free expressions are reported input-free"""
    if not isinstance(e, tuple):
        return False
    if e[0] == "var":
        d = decls[e[1]]
        if d[0] == "in":
            return True
        return _mentions_input(decls, d[2])
    return any(_mentions_input(decls, x) for x in e[1:])


def _vals(decls, env):
    """values of all flat declarations for a valuation of the `in` declarations (by name)"""
    vals = []
    for d in decls:
        if d[0] == "in":
            vals.append(fa.wrap32(env.get(d[1], 0)))
        else:
            vals.append(fa.ev(d[2], vals))
    return vals


def latch_history(it, rows, rng):
    """a concrete history on which the emitted latch misbehaves: (optionally) a phase that turns the latch on,
    then a phase of constant inputs realising a differing row; the circuit is run tick by tick in the
    concrete model (Circuit.step at V = Z) and every output compared with the specification's value for
    the bit the table demands"""
    m = next(iter(it.mems.values()))
    ins = [d[1] for d in it.decls if d[0] == "in"]
    free = [n_ for n_ in ins if not n_.startswith("_")]
    cands = sorted(set(S.BOUNDARY) | set(S.thresholds(it.decls)))

    def find_envs(want_s, want_r, k=10):
        import itertools
        if len(cands) ** max(1, len(free)) <= 4000:
            pool = [dict(zip(free, t)) for t in itertools.product(cands, repeat=len(free))]
            rng.shuffle(pool)
        else:
            pool = [{n_: rng.choice(cands) for n_ in free} for _ in range(4000)]
        out = []
        for env in pool:
            v = _vals(it.decls, env)
            try:
                s_ = fa.ev(m["set"], v) > 0
                r_ = fa.ev(m["reset"], v) > 0
            except Exception:  # noqa: BLE001
                return []
            if s_ == want_s and r_ == want_r:
                out.append(env)
                if len(out) >= k:
                    break
        return out

    try:
        defs, expr, meta = S.case_for(it.id, it.decls, it.bpj, entities=it.entities, mems=it.mems)
    except Exception:  # noqa: BLE001
        return None
    n = meta["entities"]
    T = n + 6
    first = bool(m.get("set_first"))

    def lst(env):
        return "[" + "; ".join(fa.zc(fa.wrap32(env.get(d[1], 0)) if d[0] == "in" else 0) for d in it.decls) + "]"

    trials, exprs = [], []
    # the differing rows first, then every other row of the table: a deviation outside the boolean
    # abstraction (a latch that shows something else than 0 / 1) only appears in a concrete run
    every = [(b_, s_, r_) for b_ in (False, True) for s_ in (False, True) for r_ in (False, True)]
    for bit, s_, r_ in list(rows) + [x for x in every if x not in rows]:
        ons = find_envs(True, False, 3) if bit else [None]
        for e1 in ons:
            for e2 in find_envs(s_, r_):
                nb = True if (s_ and not r_) else False if (r_ and not s_) else bit if (not s_ and not r_) else first
                spec_env = dict(e2)
                spec_env["_ml_" + m["name"]] = 1 if nb else 0
                start = f"(run (zalg (env_of {lst(e1)})) bp_{it.id} {T}%nat)" if bit else f"(init bp_{it.id})"
                exprs.append(f"let e2 := env_of {lst(e2)} in let es := env_of {lst(spec_env)} in "
                             f"let st := Nat.iter {T}%nat (step (zalg e2) bp_{it.id}) {start} in "
                             f"let vals := den_prog (zalg es) (b_univ bp_{it.id}) ds_{it.id} in "
                             f"map (fun q => (observe (zalg e2) bp_{it.id} st (q_obs ds_{it.id} q), nth (q_decl q) vals 0)) qs_{it.id}")
                trials.append((bit, s_, r_, e1, e2, nb))
    if not exprs:
        return None
    rc, outs, text = H.coq_eval(defs, exprs, S.EXTRA, tag=f"lh{it.id}")
    for (bit, s_, r_, e1, e2, nb), o in zip(trials, outs or []):
        if o is None:
            continue
        pairs = [(int(a), int(b)) for a, b in re.findall(r"\(\s*(-?\d+)\s*,\s*(-?\d+)\s*\)", o.replace("%Z", ""))]
        if any(a != b for a, b in pairs):
            names = [o_[0] for o_ in meta["outputs"]][:len(pairs)]
            return {"history": ([{"inputs": e1, "ticks": T, "purpose": "turn the latch on (set active, reset not)"}] if bit else [])
                               + [{"inputs": e2, "ticks": T, "row(bit,set,reset)": [bit, s_, r_]}],
                    "latch_bit_demanded_by_the_table": nb,
                    "observed_vs_expected": [{"output": o_, "observed": a, "expected": b} for o_, (a, b) in zip(names, pairs)]}
    return None


def run(tier, seed, t0):
    holder = {}

    def pre(rep):
        holder["rep"] = rep

    counts = {"S3": 0, "S4": 0}

    def reclass(items):
        # failures whose only deviation is the both-active rows belong to a known finding
        n_s3 = n_s4 = 0
        for it in items:
            if it.status != "violation" or not getattr(it, "mems", None) or it.bpj is None:
                continue
            if it.detail.get("kind", "").startswith("compile") or "memories" in it.detail:
                continue
            rows = diff_rows(it)
            if rows == [] and it.detail.get("ideal_circuit_passes") is False and it.detail.get("partition_matches_design") \
                    and it.harvest and "edges" in it.harvest:
                # the emitted circuit does not even settle around the latch (shared networks: S12), and the
                # idealised circuit deviates in the both-active rows only (S3 / S4): two known findings at once
                rows_i = diff_rows(it, ideal=True)
                if rows_i and all(s_ and r_ for _, s_, r_ in rows_i):
                    it.status = "known:S12"
                    it.detail["differing_rows_of_the_idealised_circuit(bit,set,reset)"] = rows_i
                    counts["S3"] += 1
                    continue
            if rows and all(s_ and r_ for _, s_, r_ in rows):
                m = next(iter(it.mems.values()))
                inlined = "mem:mem_%s (latch)" % m["name"] in json_desc(it) and "signal_remapper" not in json_desc(it)
                it.status = "known:S4" if inlined else "known:S3"
                if inlined:
                    n_s4 += 1
                else:
                    n_s3 += 1
                it.detail["differing_rows(bit,set,reset)"] = rows
            elif rows is not None:
                it.detail["differing_rows(bit,set,reset)"] = rows
            if it.status == "violation" and rows and not it.detail.get("failing_input"):
                h = latch_history(it, rows, random.Random(1))
                if h:
                    it.detail["failing_input"] = h
        counts["S3"] += n_s3
        counts["S4"] += n_s4

    def cov(items):
        return {"latches_certified": sum(getattr(it, "meta", {}).get("latches", 0) for it in items if it.status == "pass"),
                "both_active_only_deviations": dict(counts)}

    return c01.run(tier, seed, t0, prop=PROP, n_quick=30, n_thorough=300, make_items=make_items, files=FILES,
                   props_file="Props/C05.v", extra_cov=cov, pre=pre, reclassify=reclass,
                   rule="random latch programs: both argument orders; set/reset as comparisons on one shared input (inlinable), "
                        "on different inputs, or as boolean signals; overlapping and disjoint thresholds; value 1, another constant "
                        "or a signal; optimisation on and off; per blueprint a kernel-checked certificate of the next-bit table")


def json_desc(it):
    import bpexport
    return " | ".join((e.get("player_description") or "") for e in bpexport.entities_of(it.bpj))


def replay(path):
    return c01.replay(path)
