"""C16 -- a for loop equals its unrolling.
(1) coq/Props/C16.v over the regenerated Gen/ForIter.v: the iteration sequence, for all of Z^3.
(2) compiled loop programs validated (all inputs) against their specification-side unrolling."""
from __future__ import annotations

import itertools
import re

import engine
import facto_ast as fa
import facto_rich as fr
import gen_rich
import harness as H
from props import c01
from props.common import Report

PROP = "C16"
FILES = ["Gen/ForIter.v", "Proofs/ForIterProofs.v", "Props/C16.v"]


def make_items(seed, n):
    items = []
    i = 0
    while len(items) < n:
        st, el = gen_rich.gen_rich(seed * 7919 + i, loops=True, funcs=False, local_state=(i % 3 == 1))
        i += 1
        if not any(s[0] == "for" for s in st) or max(fa.unfolded_size(el.flat)) > 300:
            continue
        it = engine.Item(len(items), el.flat, text=fr.text(st), entities=el.entities, mems=el.mems or None)
        # known finding S5: a memory declared in a loop body is one cell shared by all iterations
        it.s5 = bool(el.renamed_cells)
        items.append(it)
    return items


def range_twin_items():
    """boundary loops whose only effect is one lamp per iteration: the lamp multiset is the sequence"""
    items = []
    for k, (a, b, s) in enumerate([(0, 3, None), (3, 0, None), (2, 2, None), (-3, 4, 3), (5, -2, -3), (0, 5, 5), (0, 6, 5),
                                   (4, -4, -2), (-2, 1, 1), (1, -2, 1)]):
        st = [("in", "a", "signal-A", 5),
              ("for", "i", ("range", a, b, s), [("place", "l", "small-lamp", ("ref", "i"), ("int", k), None),
                                                ("enable", "l", ("cmp", ">", ("ref", "a"), ("ref", "i")))])]
        el = fr.elaborate(st)
        items.append(engine.Item(f"r{k}", el.flat, text=fr.text(st), entities=el.entities, note=("range", a, b, s)))
    return items


def model_box_search():
    """after a broken proof: compare the regenerated iter_values with the documented sequence on a box"""
    trip = [(a, b, s) for a in range(-4, 5) for b in range(-4, 5) for s in (None, 1, 2, 3, -1, -2, -3)]
    lst = "[" + "; ".join(
        f"({fa.zc(a)}, {fa.zc(b)}, {'None' if s is None else '(Some ' + fa.zc(s) + ')'})" for a, b, s in trip) + "]"
    expr = f"map (fun t => iter_values 40 None (Some (fst (fst t))) (Some (snd (fst t))) (snd t)) {lst}"
    rc, res, text = H.coq_eval("From FV Require Import Gen.ForIter.", [expr], "", tag="c16box")
    if not res or not res[0]:
        return []
    body = res[0]
    parts = re.findall(r"Some\s*\[([^\]]*)\]|None", body)
    out = []
    raw = re.findall(r"(Some\s*\[[^\]]*\]|None)", body)
    for (a, b, s), r in zip(trip, raw):
        got = None if r == "None" else [int(x) for x in re.findall(r"-?\d+", r.replace("%Z", ""))]
        if got != fr.range_values(a, b, s):
            out.append((a, b, s, got, fr.range_values(a, b, s)))
    return out


def impl_box_search():
    """the implementation itself (ForStmt.get_iteration_values in /repo, called in a subprocess) against the
    documented sequence on a box of (start, stop, step)"""
    import json
    import subprocess
    code = (
        "import sys, json; sys.path.insert(0, %r)\n"
        "from dsl_compiler.src.ast.statements import ForStmt\n"
        "out = []\n"
        "for a in range(-10, 11):\n"
        "  for b in range(-10, 11):\n"
        "    for s in (1, 2, 3, 4, -1, -2, -3, -4):\n"
        "      try:\n"
        "        v = ForStmt('i', a, b, s, None, []).get_iteration_values()\n"
        "      except Exception as e:\n"
        "        v = 'error: ' + str(e)\n"
        "      out.append([a, b, s, v])\n"
        "print(json.dumps(out))\n" % H.REPO)
    p = subprocess.run(["/venv/bin/python", "-c", code], capture_output=True, text=True, timeout=120)
    try:
        rows = json.loads(p.stdout)
    except Exception:  # noqa: BLE001
        return None
    bad = [(a, b, s, v) for a, b, s, v in rows if v != fr.range_values(a, b, s)]
    bad.sort(key=lambda r: abs(r[0]) + abs(r[1]) + abs(r[2]))
    return bad[:1]


def run(tier, seed, t0):
    def on_broken(rep, bad):
        # broken translator tie / theorem over ForStmt.get_iteration_values: look for a concrete triple, first on
        # the regenerated model (if it exists), then on the implementation, and confirm on a compiled loop
        cands = []
        if not any(b[0] == "translator" for b in bad):
            cands = [(a, b, s) for a, b, s, got, want in model_box_search()[:3]]
        if not cands:
            r = impl_box_search()
            if r:
                cands = [tuple(r[0][:3])]
        for a, b, s in cands:
            st = [("in", "a", "signal-A", 5),
                  ("for", "i", ("range", a, b, s), [("place", "l", "small-lamp", ("ref", "i"), ("int", 0), None),
                                                    ("enable", "l", ("cmp", ">", ("ref", "a"), ("ref", "i")))])]
            el = fr.elaborate(st)
            it = engine.Item("c16w", el.flat, text=fr.text(st), entities=el.entities)
            engine.check_items(PROP + "W", [it], do_search=False)
            if it.status != "pass":
                return {"triple(start,stop,step)": [a, b, s], "expected_iteration_values": fr.range_values(a, b, s),
                        "program": it.text, "detail": it.detail}
        return None

    # a broken ForIter proof / translation is handled inside c01.run through FILES; add the search
    rep_holder = {}

    def pre(rep):
        rep_holder["rep"] = rep

    rc = c01.run(tier, seed, t0, prop=PROP, n_quick=30, n_thorough=300,
                 make_items=lambda s, n: range_twin_items() + make_items(s, n),
                 files=FILES, props_file="Props/C16.v", pre=pre, on_broken=on_broken,
                 rule="(1) theorems over the regenerated ForStmt.get_iteration_values for all (start, stop, step); "
                      "(2) boundary range loops and random loop programs (ranges in [-4,6], steps in +-1..3, lists, "
                      "nesting <= 2, iterator used in coordinates, arithmetic and comparisons) validated for all inputs "
                      "against their unrolling; known-finding regions S10/S12 classified per blueprint")
    return rc


def replay(path):
    return c01.replay(path)
