"""C14 -- ill-formed programs are rejected and produce no blueprint.

Model side (kernel-checked, all contexts): coq/Facto/Wf.v, coq/Proofs/WfProofs.v, coq/Props/C14.v
(`wf_compositional`: a statement that violates a rule under the environment a context provides at
its hole makes the plugged program ill-formed, for every context).

Tie to /repo (this file): accept/reject correspondence between `wf` and the real compiler on
accepted programs with ONE seeded violation embedded at a random statement position and nesting:
  * the base program (host + frames + the rule's valid set-up + the harmless statement) must be
    accepted by the compiler and `wf base = true` must be proved in Coq;
  * the mutant (same, with the violating statement) must be refused by the compiler with a
    diagnostic that names the subject, must yield no blueprint, and `wf mutant = false` must be
    proved in Coq;
plus a syntax-error stream (mutations that leave the grammar by construction) and CLI runs.
A mutant the compiler accepts, or refuses only by an internal crash, is a VIOLATION unless it lies
in the region of a listed finding (known_findings.wf.json / known_findings.json)."""
from __future__ import annotations

import json
import os
import random
import subprocess
import time

import gen_wf as G
import harness as H
from props.common import Report, build_or_report, count_theorems, print_assumptions

PROP = "C14"
FILES = ["Facto/Wf.v", "Proofs/WfProofs.v", "Props/C14.v"]
OPTS = {"_harvest": False, "time_limit": 1}
IMPORTS = "Facto.Wf Cases.C14Sig"


# ------------------------------------------------------------------ known findings
def load_findings():
    out, seen = [], set()
    for name in ("known_findings.wf.json", "known_findings.json"):
        p = os.path.join(H.VERIF, name)
        if not os.path.exists(p):
            continue
        with open(p) as fh:
            for f in json.load(fh)["findings"]:
                if f.get("property") == PROP and f.get("kind") == "finding" and f["id"] not in seen:
                    seen.add(f["id"])
                    out.append(f)
    return out


def finding_for(findings, case, outcome):
    """the listed finding whose region (rule x variant x context x outcome) contains this failure"""
    for f in findings:
        m = f.get("match", {})
        if m.get("outcomes") and outcome not in m["outcomes"]:
            continue
        if m.get("rules") and case["rule"] not in m["rules"]:
            continue
        if m.get("variants") and case["variant"] not in m["variants"]:
            continue
        if m.get("shape_prefix") is not None and not case["shape"].startswith(m["shape_prefix"]):
            continue
        if m.get("shape_not_prefix") is not None and case["shape"].startswith(m["shape_not_prefix"]):
            continue
        if m.get("not_shapes") and case["shape"] in m["not_shapes"]:
            continue
        return f
    return None


# ------------------------------------------------------------------ compiler outcome
def classify(res):
    """accepted | diagnostic | named (a Python exception whose message names the subject, outside the
    diagnostics channel) | crash"""
    if res[0] == "ok":
        return "accepted"
    if res[0] == "rejected":
        return "diagnostic"
    msg = res[1]
    if msg.startswith("SyntaxError:") or msg.startswith("RuntimeError: [") or \
            msg.startswith("RuntimeError: Unexpected error parsing"):
        return "diagnostic"
    if msg.startswith("ValueError: Variable '"):
        return "named"
    return "crash"


def looks_like_blueprint(s):
    if not isinstance(s, str):
        return False
    for line in s.splitlines():
        t = line.strip()
        if t.startswith("0e") and len(t) > 40:
            return True
        if t.startswith("{") and '"blueprint"' in t:
            return True
    return False


# ------------------------------------------------------------------ signal table (the oracle the rule names)
def write_signal_table():
    from draftsman.data import signals as sd

    names = sorted(set(sd.raw) | set(sd.type_of))
    names = [n for n in names if '"' not in n and "\\" not in n]
    path = os.path.join(H.CASES, "C14Sig.v")
    body = ("From Coq Require Import List String.\nImport ListNotations.\nOpen Scope string_scope.\n"
            "(* dumped from draftsman.data.signals of the venv on this run *)\n"
            "Definition sigtab : list string := [\n  " + ";\n  ".join(f'"{n}"' for n in names) + "].\n")
    old = open(path).read() if os.path.exists(path) else None
    if old != body or not os.path.exists(path[:-2] + ".vo"):
        os.makedirs(H.CASES, exist_ok=True)
        with open(path, "w") as fh:
            fh.write(body)
        r = H.run_coq_files(["Cases/C14Sig.v"], timeout=300)["Cases/C14Sig.v"]
        if r[0] != 0:
            return None, r[1][-1500:]
    return names, None


# ------------------------------------------------------------------ shrinking an accepted mutant
def _paths(stmts, pre=()):
    for i, s in enumerate(stmts):
        yield pre + (i,)
        if s[0] in ("func", "for"):
            yield from _paths(s[3], pre + (i,))


def _remove(stmts, path):
    i = path[0]
    if len(path) == 1:
        return stmts[:i] + stmts[i + 1:]
    s = stmts[i]
    return stmts[:i] + [s[:3] + (_remove(s[3], path[1:]),)] + stmts[i + 1:]


def shrink_accepted(stmts, keep_text, rounds=25):
    """drop statements while the compiler still accepts the program and the violating statement stays"""
    cur = stmts
    for _ in range(rounds):
        cands = []
        for p in _paths(cur):
            c = _remove(cur, p)
            t = G.text(c)
            if all(line.strip() in t for line in keep_text.splitlines()):
                cands.append(c)
        if not cands:
            break
        res = H.compile_many([(G.text(c), OPTS) for c in cands])
        nxt = None
        for c, r in zip(cands, res):
            if r[0] == "ok":
                nxt = c
                break
        if nxt is None:
            break
        cur = nxt
    return cur


# ------------------------------------------------------------------ CLI
def run_cli(text):
    p = subprocess.run([H.PY, "-m", "dsl_compiler", "-i", text], cwd=H.REPO, capture_output=True, text=True,
                       timeout=300, env={**os.environ, "PYTHONPATH": H.REPO})
    return p.returncode, p.stdout, p.stderr


# ------------------------------------------------------------------ main
def run(tier, seed, t0):
    rep = Report(PROP, tier, seed, t0)
    ok, bad, out = build_or_report(rep, FILES)
    if bad:
        rep.violation({"broken": [list(b) for b in bad], "log": out[-3000:],
                       "broken_obligation": "theorems of Props/C14.v / Proofs/WfProofs.v"}, False)
        return rep.finish()
    if not ok:
        rep.notes.append("coq build reported errors outside this property's files")
    n_thm = count_theorems(FILES)
    rep.obligations += n_thm
    rep.discharged += n_thm
    rep.checker_cmds.append("make -C coq -j16 (coqc 8.16.1, full .vo build)")
    names, err = write_signal_table()
    if names is None:
        rep.violation({"broken": "signal table Cases/C14Sig.v does not compile", "log": err}, False)
        return rep.finish()

    findings = load_findings()
    per_cell = 2 if tier == "quick" else 20
    n_syn = 30 if tier == "quick" else 300
    cases = G.cases(seed, per_cell, loop0=4 if tier == "quick" else 40)
    syn = G.syntax_cases(seed, n_syn)
    wit = [f for f in findings if "witness" in f and "text" in f["witness"]]

    # ---- the real compiler
    jobs = [(c["base_text"], OPTS) for c in cases] + [(c["mut_text"], OPTS) for c in cases] \
        + [(s["text"], OPTS) for s in syn] + [(s["base_text"], OPTS) for s in syn] \
        + [(f["witness"]["text"], OPTS) for f in wit]
    H.log(f"C14: {len(cases)} base/mutant pairs, {len(syn)} syntax mutants, {len(wit)} witnesses -> {len(jobs)} compilations")
    res = H.compile_many(jobs)
    n = len(cases)
    rb, rm = res[:n], res[n:2 * n]
    rs, rsb = res[2 * n:2 * n + len(syn)], res[2 * n + len(syn):2 * n + 2 * len(syn)]
    rw = res[2 * n + 2 * len(syn):]
    H.log("C14: compilations done")

    # ---- the model, kernel-checked per case
    coq_cases = []
    for c in cases:
        coq_cases.append((c["id"] + "b", f"Open Scope string_scope.\nDefinition p_{c['id']}b : program :=\n  {G.coq_program(c['base'])}.",
                          f"wf sigtab p_{c['id']}b"))
        coq_cases.append((c["id"] + "m", f"Definition p_{c['id']}m : program :=\n  {G.coq_program(c['mut'])}.",
                          f"negb (wf sigtab p_{c['id']}m)"))
    cres, clogs, ccmd = H.shard_cases(PROP, coq_cases, IMPORTS, per=60)
    rep.checker_cmds.append(ccmd)
    H.log("C14: Coq cases done")

    # ---- known-finding witnesses: replayed on every run
    active = {}
    for f, r in zip(wit, rw):
        o = classify(r)
        want = f.get("match", {}).get("outcomes") or ["accepted", "crash"]
        if o in want:
            active[f["id"]] = {"finding": f, "count": 0, "witness_outcome": o}

    # ---- classify
    matrix = {}
    hist = {"mutant": {}, "base": {}, "syntax": {}}
    over_rejected = []
    model_disagree = []
    subject_missing = []
    named = []
    samples = []
    good_pairs = set()
    n_shrunk = 0
    for c, b, m in zip(cases, rb, rm):
        ob, om = classify(b), classify(m)
        wf_base, wf_mut_false = cres.get(c["id"] + "b", False), cres.get(c["id"] + "m", False)
        cell = matrix.setdefault(c["rule"], {}).setdefault(c["shape"], {"n": 0, "rejected": 0, "known_finding": 0, "violation": 0})
        cell["n"] += 1
        hist["mutant"][om] = hist["mutant"].get(om, 0) + 1
        hist["base"][ob] = hist["base"].get(ob, 0) + 1
        rep.obligations += 2
        rep.discharged += int(wf_base) + int(wf_mut_false)
        info = {"rule": c["rule"], "variant": c["variant"], "context": c["shape"], "host": c["host"],
                "seeded_statement": c["bad_text"], "program": c["mut_text"], "base_program": c["base_text"],
                "compiler_on_base": b[0], "compiler_on_mutant": (m[0], "" if m[0] == "ok" else m[1][:400])}
        # the model must see the seeded violation and nothing else
        if not wf_base or not wf_mut_false:
            model_disagree.append(c["id"])
            rep.violation(dict(info, broken_obligation=f"Coq: wf base = true ({wf_base}); wf mutant = false ({wf_mut_false}) "
                                                       "-- the model / generator does not see exactly the seeded violation",
                               coq_log=clogs[:1]), False)
            cell["violation"] += 1
            continue
        if ob != "accepted":
            # over-rejection is measured, not part of the property
            over_rejected.append({"id": c["id"], "rule": c["rule"], "variant": c["variant"], "context": c["shape"],
                                  "message": b[1][:300], "program": c["base_text"]})
        if om in ("diagnostic", "named") and not looks_like_blueprint(m[1] if len(m) > 1 else ""):
            if om == "named":
                named.append({"id": c["id"], "rule": c["rule"], "variant": c["variant"], "message": m[1][:200]})
            sub = c.get("subject")
            if sub and sub not in m[1]:
                subject_missing.append({"id": c["id"], "rule": c["rule"], "variant": c["variant"], "subject": sub, "message": m[1][:300]})
            cell["rejected"] += 1
            if ob == "accepted":
                good_pairs.add(c["mut_text"])
            if len(samples) < 4:
                samples.append({"rule": c["rule"], "variant": c["variant"], "context": c["shape"],
                                "seeded_statement": c["bad_text"], "compiler": m[1][:160], "wf_mutant": False, "wf_base": True})
            continue
        # accepted, or refused only by an internal crash
        f = finding_for(findings, c, om)
        if f is not None and f["id"] in active:
            active[f["id"]]["count"] += 1
            cell["known_finding"] += 1
            continue
        cell["violation"] += 1
        payload = dict(info, outcome=om, expected="rejection with a diagnostic naming the problem; model: wf = false (proved)")
        if om == "accepted" and n_shrunk < 3:   # shrinking costs compilations: the first three only
            n_shrunk += 1
            small = shrink_accepted(c["mut"], c["bad_text"])
            payload["shrunk_program"] = G.text(small)
        rep.violation(payload, True)

    for s, r, r0 in zip(syn, rs, rsb):
        o = classify(r)
        hist["syntax"][o] = hist["syntax"].get(o, 0) + 1
        cell = matrix.setdefault("syntax", {}).setdefault(s["kind"], {"n": 0, "rejected": 0, "known_finding": 0, "violation": 0})
        cell["n"] += 1
        if o == "diagnostic" and not looks_like_blueprint(r[1]):
            cell["rejected"] += 1
            if r0[0] == "ok":
                good_pairs.add(s["text"])
            continue
        cell["violation"] += 1
        rep.violation({"rule": "syntax", "kind": s["kind"], "program": s["text"], "unmutated": s["base_text"], "outcome": o,
                       "compiler": (r[0], "" if r[0] == "ok" else r[1][:400])}, True)

    for fid, a in sorted(active.items()):
        f = a["finding"]
        rep.known_finding(fid, f"{f['what']} [witness: {a['witness_outcome']}; generated cases in the region this run: {a['count']}]")

    # ---- the CLI itself: exit status and stdout
    cli = []
    picks = []
    for want in ("reserved", "second-write"):
        picks += [c for c, m in zip(cases, rm) if classify(m) == "diagnostic" and c["rule"] == want][:1]
    texts = [("semantic:" + c["rule"], c["mut_text"]) for c in picks] + [("syntax:" + s["kind"], s["text"]) for s in syn[:1]]
    for tag, t in texts:
        try:
            rc, so, se = run_cli(t)
        except subprocess.TimeoutExpired:
            rc, so, se = None, "", "timeout"
        okc = rc not in (0, None) and not looks_like_blueprint(so)
        cli.append({"case": tag, "exit_status": rc, "stdout_bytes": len(so), "ok": okc, "stderr_tail": se.strip().splitlines()[-1:]})
        rep.obligations += 0
        if not okc:
            rep.violation({"rule": tag, "program": t, "cli_exit_status": rc, "cli_stdout": so[:500],
                           "expected": "non-zero exit status and no blueprint on stdout"}, True)

    n_prog = len(jobs)
    rep.samples = samples
    rep.cov.update({
        "programs": n_prog,
        "evaluations": n_prog + len(coq_cases) + len(cli),
        "distinct_nontrivial": len(good_pairs),
        "rule": "hosts: accepted programs of gen_rich / gen_scalar (shrunk to a cheap layout) and hand-written memory / bundle "
                "templates; one seeded violation of one rule (20 rule families incl. undefined variable/function/memory/entity) "
                "at a random statement position in a context of the given shape; base and mutant differ only in the seeded "
                "statement.  distinct_nontrivial = distinct mutant texts whose base the compiler accepted, whose mutant it refused "
                "with a diagnostic and for which Coq proved wf base = true and wf mutant = false (plus distinct syntax mutants "
                "of accepted texts).  Every pair contributes two kernel-checked obligations (Cases/C14_k.v).",
        "matrix": matrix,
        "status_histogram": hist,
        "over_rejected_bases": over_rejected[:10],
        "over_rejected_count": len(over_rejected),
        "refused_outside_diagnostics_channel": named[:10],
        "diagnostic_does_not_name_subject": subject_missing[:10],
        "cli_runs": cli,
        "coq_case_failures": [k for k, v in cres.items() if not v][:20],
        "coq_logs": clogs[:2],
        "theorems": ["C14_wf_compositional", "C14_plug_rejects", "C14_dead_context", "C14_recursion_anywhere", "C14_expression_depth"],
        "print_assumptions": print_assumptions("Props/C14.v"),
        "signal_table_size": len(names),
        "not_proved": "wf_sound (wf p = true -> denote p defined) of DESIGN.md section 6 is not part of this development",
    })
    for x in subject_missing:
        rep.violation({"rule": x["rule"], "variant": x["variant"], "message": x["message"], "subject": x["subject"],
                       "expected": "the error names the problem"}, True)
    return rep.finish(assumptions=[
        "the documented rule set is the one transcribed in coq/Facto/Wf.v",
        "py/gen_wf.py prints the same program as Facto text and as a Coq term (the two printers are trusted)",
        "the signal table is draftsman.data.signals of the venv (the oracle the rule names)",
        "syntax mutants are outside the grammar by construction (argument in py/gen_wf.py); no reference parser is run",
    ])


def replay(path):
    with open(path) as fh:
        p = json.load(fh)
    text = p.get("shrunk_program") or p.get("program")
    if not text:
        print(json.dumps(p, indent=1)[:4000])
        return 0
    r = H.compile_many([(text, OPTS)])[0]
    print(text)
    print("compiler:", r[0], "" if r[0] == "ok" else r[1][:500])
    o = classify(r)
    print("outcome:", o)
    return 1 if o in ("accepted", "crash") else 0
