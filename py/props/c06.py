"""C06 -- entities are driven by exactly the condition the program assigns.
The circuit condition of every placed entity, evaluated on the networks actually wired to it, is
validated for all inputs against `assigned expression > 0` (check_prog / pcond, Valid/CheckC01.v),
whether the compiler inlined the comparison into the entity or built combinators.
Partial: contents read through `.output` (bundles) are not generated here."""
from __future__ import annotations

import random

import bpexport
import engine
import facto_ast as fa
import facto_rich as fr
import gen_rich
from gen_scalar import SIGNALS, program_safe, s14_free
from props import c01

PROP = "C06"
PROTOS = ["small-lamp", "inserter", "fast-inserter", "transport-belt", "train-stop", "long-handed-inserter"]


def gen_entities(seed):
    for k in range(40):
        r = random.Random(seed * 40 + k)
        g = gen_rich.RichGen(r, max_depth=3)
        st = g.inputs(r.randint(1, 3))
        for _ in range(r.randint(0, 3)):
            nm = next(g.names)
            st.append(("sig", nm, g.sig_expr()))
            g.scope.append((nm, "sig", None))
        n = r.randint(2, 5)
        shared = g.cmp_expr() if r.random() < 0.5 else None
        for i in range(n):
            nm = next(g.names)
            st.append(("place", nm, r.choice(PROTOS), ("int", 4 * i - 4), ("int", r.choice([10, 14, -6])), None))
            x = r.random()
            if shared is not None and x < 0.3:
                cond = shared
            elif x < 0.6:
                cond = g.cmp_expr()
                if r.random() < 0.6:  # the inlinable shape: signal CMP constant
                    names = [n_ for n_, k_, _ in g.scope if k_ != "int"]
                    cond = ("cmp", r.choice(["<", ">", "==", ">=", "<=", "!="]), ("ref", r.choice(names)),
                            ("int", r.choice([0, 1, 5, 10, 100, -3])))
            elif x < 0.75:
                names = [n_ for n_, k_, _ in g.scope if k_ != "int"]
                cond = ("ref", r.choice(names))
            else:
                cond = g.sig_expr(2)
            st.append(("enable", nm, cond))
        el = fr.elaborate(st)
        flat_ok = program_safe(el.flat) and s14_free(el.flat) and all(
            program_safe(el.flat + [("sig", "_", e["enable"])]) and s14_free(el.flat + [("sig", "_", e["enable"])])
            for e in el.entities if e["enable"] is not None)
        pos = [(e["x"], e["y"]) for e in el.entities]
        if flat_ok and len(set(pos)) == len(pos) and max(fa.unfolded_size(el.flat)) < 300:
            return st, el
    return st, el


def s21_region(it):
    """known finding S21: `entity.enable = x` with x a plain item/fluid signal writes the signal id with
    type "virtual" into the entity's circuit condition"""
    if it.bpj is None:
        return False
    from draftsman.data import signals as sd
    for e in bpexport.entities_of(it.bpj):
        c = (e.get("control_behavior") or {}).get("circuit_condition") or {}
        s = c.get("first_signal")
        if s and s.get("type", "item") == "virtual" and s["name"] in sd.raw and sd.raw[s["name"]].get("type") not in ("virtual-signal", "virtual"):
            return True
    return False


def make_items(seed, n):
    items = []
    i = 0
    while len(items) < n:
        st, el = gen_entities(seed * 3571 + i)
        i += 1
        items.append(engine.Item(len(items), el.flat, text=fr.text(st), entities=el.entities))
    return items


def run(tier, seed, t0):
    holder = {}

    def pre(rep):
        holder["rep"] = rep

    def cov(items):
        rep = holder["rep"]
        n_s21 = sum(1 for it in items if s21_region(it))
        if n_s21:
            rep.known_finding("S21", "a plain item/fluid signal assigned to .enable is written into the circuit "
                                     f"condition with signal type \"virtual\" ({n_s21} blueprints in this run)")
        missing = [(it.id, p) for it in items for p in getattr(it, "meta", {}).get("entity_problems", [])]
        for iid, p in missing:
            it = next(x for x in items if x.id == iid)
            rep.obligations += 1
            rep.violation({"program": it.text, "missing_entity": p}, True)
        conds = sum(1 for it in items for e in (it.entities or []) if e["enable"] is not None)
        return {"entity_conditions_checked": conds, "malformed_signal_ids_seen": n_s21}

    return c01.run(tier, seed, t0, prop=PROP, n_quick=40, n_thorough=400, make_items=make_items,
                   props_file="Props/C01.v", extra_cov=cov, pre=pre,
                   rule="random programs placing 2-5 circuit-controlled entities (lamps, three inserter kinds, belts, train "
                        "stops) whose enable is an inlinable comparison, a plain signal, a shared comparison or a computed "
                        "expression; the entity's circuit condition on its wired networks is validated for all inputs; "
                        "pump / power-switch (S20) replayed as witnesses; known wiring findings classified per blueprint")


def replay(path):
    print(open(path).read()[:4000])
    return 0
