"""C13 -- compiler-chosen signals are fresh: renaming them changes nothing.
(static) the signal an untyped input is given is no wildcard, not the reserved write-enable signal,
not shared with another untyped input, (known finding S6: may coincide with a name the program uses
explicitly); typed inputs appear under exactly the name written.
(semantic) the program and its twin in which every untyped input gets a fresh explicit type are both
validated for all inputs against the same value semantics."""
from __future__ import annotations

import json
import re

import bpexport
import engine
import facto_ast as fa
import gen_scalar
from props import c01

PROP = "C13"
FRESH = ["signal-X", "signal-Y", "signal-Z", "signal-V", "signal-U", "signal-T", "signal-S", "signal-R"]
WILD = {"signal-each", "signal-anything", "signal-everything"}


def renamed(p):
    out = []
    fresh = iter(FRESH)
    for d in p:
        if d[0] == "in" and d[2] is None:
            out.append(("in", d[1], next(fresh), d[3]))
        else:
            out.append(d)
    return out


def many_untyped(seed):
    import random
    r = random.Random(seed)
    p = gen_scalar.gen_program(seed)
    # make about half of the inputs untyped and add a few more untyped ones
    q = []
    for d in p:
        if d[0] == "in" and r.random() < 0.5:
            q.append(("in", d[1], None, d[3]))
        else:
            q.append(d)
    return q


def make_items(seed, n):
    items = []
    i = 0
    while len(items) < 2 * n:
        p = many_untyped(seed * 32452843 + i)
        i += 1
        if max(fa.unfolded_size(p)) > 300 or not any(d[0] == "in" and d[2] is None for d in p):
            continue
        k = len(items) // 2
        items.append(engine.Item(f"{k}a", p, note="original"))
        items.append(engine.Item(f"{k}b", renamed(p), note="renamed"))
    # pool sweep: programs with many untyped values, so that the allocator walks far into its pool
    # (past the letters, digits and colours); every chosen name is checked and a few sums are validated
    import random
    r = random.Random(seed * 7 + 13)
    sizes = [r.randint(22, 27), r.randint(28, 40), r.choice([48, 64, 90])] + ([r.randint(100, 200)] if n > 30 else [])
    for j, k in enumerate(sizes):
        p = [("in", f"u{i}", None, i + 1) for i in range(k)]
        picks = [(0, k - 1), (22 % k, k // 2), (r.randrange(k), r.randrange(k)), (k - 2, 21 % k)]
        for a, b in picks:
            if a != b:
                p.append(("sig", f"s{len(p)}", ("bin", r.choice(["+", "-", "*"]), ("var", a), ("var", b))))
        items.append(engine.Item(f"sw{j}", p, note=f"pool sweep, {k} untyped inputs"))
    return items


def static_check(it):
    """returns (hard problems, s6 hits)"""
    hard, s6 = [], []
    if it.bpj is None:
        return hard, s6
    explicit = set(re.findall(r'"([a-z0-9-]+)"', it.text)) | {x for x in re.findall(r'"([A-Za-z0-9-]+)"', it.text)}
    chosen = {}
    for e in bpexport.entities_of(it.bpj):
        nm = bpexport.input_name(e)
        if nm is None:
            continue
        secs = ((e.get("control_behavior") or {}).get("sections") or {}).get("sections", [])
        fl = [f for s in secs for f in s.get("filters", [])]
        if len(fl) != 1:
            continue
        d = next((d for d in it.decls if d[0] == "in" and d[1] == nm), None)
        if d is None:
            continue
        sig = fl[0]["name"]
        if d[2] is not None:
            if sig != d[2]:
                hard.append(f"typed input {nm} declared on {d[2]} appears on {sig}")
            continue
        if sig in WILD or sig == "signal-W":
            hard.append(f"untyped input {nm} was given the reserved signal {sig}")
        if sig in chosen.values():
            hard.append(f"untyped inputs share the compiler-chosen signal {sig}")
        chosen[nm] = sig
        if sig in explicit:
            s6.append((nm, sig))
    return hard, s6


def extra_cov(items):
    hard_all, s6_n = [], 0
    for it in items:
        h, s = static_check(it)
        hard_all += [(it.id, x) for x in h]
        s6_n += len(s)
    extra_cov.hard = hard_all
    extra_cov.s6 = s6_n
    return {"static_name_checks": len(items), "static_problems": hard_all[:5], "s6_collisions_seen": s6_n}


def run(tier, seed, t0):
    from props.common import Report
    import harness as H
    holder = {}

    def pre(rep):
        holder["rep"] = rep

    def cov(items):
        c = extra_cov(items)
        rep = holder["rep"]
        for iid, msg in extra_cov.hard:
            it = next(x for x in items if x.id == iid)
            rep.obligations += 1
            rep.violation({"program": it.text, "static_problem": msg}, True)
        if extra_cov.s6:
            rep.known_finding("S6", "the implicit-signal pool does not exclude signal names the program uses explicitly "
                                    f"({extra_cov.s6} collisions in this run)")
        return c

    return c01.run(tier, seed, t0, prop=PROP, n_quick=25, n_thorough=250, make_items=make_items,
                   props_file="Props/C01.v", extra_cov=cov, pre=pre,
                   rule="random programs mixing untyped and typed inputs (explicit use of the first letter signals), "
                        "each compiled as written and with every untyped input renamed to a fresh explicit type; both "
                        "validated for all inputs; static name rules checked on every blueprint; plus pool-sweep programs with "
                        "22-90 (thorough: up to 200) untyped inputs whose chosen names are all checked")


def replay(path):
    return c01.replay(path)
