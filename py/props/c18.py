"""C18 -- requested power poles power every electric consumer and form one copper grid; user entities
and the circuit are unchanged; without the option only relays.

(1) coq/Props/C18.v: `poles_ok t l` implies coverage of every electric consumer by a pole of prototype t,
    every copper wire between two poles within both reaches, and copper connectivity of all poles;
    `relays_only l` implies that every pole carries a circuit wire.
(2) per program x T in {small, medium, big, substation}: kernel-checked `poles_ok T l = true` and
    `placed_ok ... l = true` (C09's validator: user entities unchanged) on the blueprint of the real
    compiler; for the pole-less build `relays_only l = true`.
(3) twin: the pole build and the pole-less build of the same program are the same circuit: same non-pole
    entities with the same configuration and the same partition of their connectors (relays contracted).
(4) tie: POWER_POLE_CONFIG of /repo against the game data (footprint equal, supply radius and wire reach
    not larger than the game's)."""
from __future__ import annotations

import ast
import json
import os
import random

import geom
import harness as H
from props.common import Report, build_or_report, count_theorems, print_assumptions

PROP = "C18"
FILES = ["Factorio/Geometry.v", "Proofs/GeometryProofs.v", "Props/C18.v", "Props/C09.v"]
TYPES = ["small", "medium", "big", "substation"]
# the root cause G1 is listed once per property it breaks: under C08 as G1, here as G1-C18
LOCAL_ID = {"G1": "G1-C18", "S8": "S8-C18"}


def config_rows():
    """POWER_POLE_CONFIG read from the source text of /repo (a literal dict)"""
    path = os.path.join(H.REPO, "dsl_compiler/src/layout/power_planner.py")
    tree = ast.parse(open(path).read())
    for node in ast.walk(tree):
        tgt = None
        if isinstance(node, ast.AnnAssign) and isinstance(node.target, ast.Name):
            tgt = node.target.id
        elif isinstance(node, ast.Assign) and len(node.targets) == 1 and isinstance(node.targets[0], ast.Name):
            tgt = node.targets[0].id
        if tgt == "POWER_POLE_CONFIG":
            return ast.literal_eval(node.value)
    raise geom.GeomError("POWER_POLE_CONFIG not found")


def config_deviations():
    """rows of the compiler's table that promise more than the game gives"""
    out = []
    rows = config_rows()
    for t in TYPES:
        row = rows.get(t)
        if row is None:
            out.append((t, "row", None, None))
            continue
        p = geom.proto(row["prototype"])
        if row["prototype"] != geom.POLE_PROTO[t]:
            out.append((t, "prototype", row["prototype"], geom.POLE_PROTO[t]))
        if tuple(row["footprint"]) != (p["tw"] // geom.UNIT, p["th"] // geom.UNIT):
            out.append((t, "footprint", list(row["footprint"]), [p["tw"] // geom.UNIT, p["th"] // geom.UNIT]))
        if geom.units(row["supply_radius"]) > p["supply"]:
            out.append((t, "supply_radius", row["supply_radius"], p["supply"] / geom.UNIT))
        if geom.units(row["wire_reach"]) > p["kreach"]:
            out.append((t, "wire_reach", row["wire_reach"], p["kreach"] / geom.UNIT))
    return out


KNOWN_DEVIATIONS = {("big", "supply_radius"): "S7-big", ("small", "wire_reach"): "S7-small"}


def make_programs(tier, seed):
    rng = random.Random(seed * 7919 + 18)
    quick = tier == "quick"
    n_rich, n_scalar, n_far = (9, 5, 3) if quick else (80, 50, 25)
    progs = []  # (kind, text, expected, (optimize, time_limit))
    pick = lambda: (rng.random() < 0.75, rng.choice([0, 1, None, None]))
    for i in range(n_rich):
        text, exp = geom.rich_program(seed * 1031 + i)
        progs.append(("rich", text, exp, pick()))
    for i in range(n_scalar):
        progs.append(("scalar", geom.scalar_program(seed * 1033 + i), None, pick()))
    for i in range(n_far):
        text, exp = geom.far_program(seed * 1039 + i)
        progs.append(("far", text, exp, pick()))
    for name, text, exp, props in geom.HAND_PROGRAMS[: 2 if quick else 4]:
        progs.append(("hand:" + name, text, exp, pick()))
    progs.append(("chain", geom.chain_program(14 if quick else 40, seed), None, (True, 1 if quick else None)))
    if not quick:
        for i in range(5):
            progs.append(("chain40", geom.chain_program(40, seed * 37 + i), None, (True, rng.choice([1, None]))))
        text, exp = geom.lamp_rows_program([(150, 0, True), (150, 6, True)])
        progs.append(("lamps300", text, exp, (True, 1)))
    return progs


def judge_pole_build(c, cert_p, cert_u, base):
    """-> (verdict, detail) for a build with a pole option"""
    pfs = geom.pole_failures_classified(c)
    if cert_p != (not pfs):
        return "violation", {"kind": "validator-and-mirror-disagree", "certificate": cert_p, "mirror": [f for f, _ in pfs][:4]}
    exp = c.expected or []
    plf = geom.placed_failures(c.bpj, exp, geom.user_names_of(exp) | {"small-lamp"})
    if cert_u != (plf is None):
        return "violation", {"kind": "validator-and-mirror-disagree", "certificate_placed": cert_u, "mirror": plf}
    if plf and not geom.s8_region(c):
        return "violation", dict(plf, kind="user-entities-changed")
    if plf:
        return "known:S8", plf
    if base is not None and base.status == "ok":
        td = geom.twin_diff(c, base)
        if td and td["kind"] != "twin-undecided":
            return "violation", td
    unknown = [f for f, k in pfs if k is None]
    if unknown:
        return "violation", {"kind": unknown[0]["kind"], "offending": unknown[0], "all_failures": len(pfs)}
    if pfs:
        ids = sorted({k for _, k in pfs})
        return "known:" + ",".join(ids), {"offending": pfs[0][0], "failures": len(pfs)}
    return "pass", None


def judge_plain_build(c, cert_r, cert_u):
    idle = geom.idle_poles(c.bpj)
    if cert_r != (not idle):
        return "violation", {"kind": "validator-and-mirror-disagree", "certificate": cert_r, "mirror": idle[:4]}
    if idle:
        return "violation", {"kind": "pole-without-circuit-wire-in-pole-less-build", "offending": idle[0], "count": len(idle)}
    roles = geom.pole_roles(c)
    grid = [n for n, r in roles.items() if r != "wire_relay"]
    if grid:
        return "violation", {"kind": "non-relay-pole-in-pole-less-build", "entity_numbers": grid[:5]}
    exp = c.expected or []
    plf = geom.placed_failures(c.bpj, exp, geom.user_names_of(exp) | {"small-lamp"})
    if cert_u != (plf is None):
        return "violation", {"kind": "validator-and-mirror-disagree", "certificate_placed": cert_u, "mirror": plf}
    if plf and not geom.s8_region(c):
        return "violation", dict(plf, kind="user-entities-changed")
    if plf:
        return "known:S8", plf
    return "pass", None


def run(tier, seed, t0):
    rep = Report(PROP, tier, seed, t0)
    ok, bad, out = build_or_report(rep, FILES)
    if bad:
        rep.violation({"broken": [list(b) for b in bad], "log": out[-3000:]}, False)
        return rep.finish()
    if not ok:
        rep.notes.append("coq build reported errors outside this property's files")
    n_thm = count_theorems(FILES[:3])
    rep.obligations += n_thm
    rep.discharged += n_thm
    rep.checker_cmds.append("make -C coq -j16 (coqc 8.16.1, full .vo build)")
    geom.proto_table()

    # (4) tie of the configuration table
    try:
        devs = config_deviations()
    except Exception as e:  # noqa: BLE001
        rep.violation({"kind": "config-table-unreadable", "error": str(e)}, False)
        return rep.finish()
    dev_notes = []
    for t, field, cfgv, gamev in devs:
        fid = KNOWN_DEVIATIONS.get((t, field))
        dev_notes.append({"type": t, "field": field, "compiler": cfgv, "game": gamev, "finding": fid})
        rep.obligations += 1
        if fid:
            rep.obligations -= 1
            rep.known.append(fid)
        else:
            rep.violation({"kind": "POWER_POLE_CONFIG promises more than the game data", "type": t, "field": field,
                           "compiler": cfgv, "game": gamev,
                           "broken_obligation": "config_matches_game_data (py/props/c18.config_deviations)"}, True)
    rep.obligations += 4 * 4 - len(devs)
    rep.discharged += 4 * 4 - len(devs)

    wit = geom.witnesses(PROP)
    progs = make_programs(tier, seed)
    cases = []
    groups = []  # (baseline case, [pole cases])
    for pi, (kind, text, exp, (opt, tl)) in enumerate(progs):
        b = geom.Case(f"{pi}n", text, (None, opt, tl), kind, expected=exp)
        ps = [geom.Case(f"{pi}{t[:2]}", text, (t, opt, tl), kind, expected=exp) for t in TYPES]
        cases += [b] + ps
        groups.append((b, ps))
    allc = [w for _, w in wit] + cases
    geom.compile_cases(allc)
    H.log(f"C18: compiled {len(allc)} cases")

    pcases, ucases = [], []
    export_err = {}
    for c in allc:
        if c.status != "ok":
            continue
        try:
            term = geom.layout_term(c.bpj, f"L{c.cid}")
            exp = c.expected or []
            ups = geom.user_names_of(exp) | {"small-lamp"}
            if c.cfg[0]:
                pcases.append((c.cid, term, f"poles_ok {geom.proto(geom.POLE_PROTO[c.cfg[0]])['idx']}%positive L{c.cid}"))
            else:
                pcases.append((c.cid, term, f"relays_only L{c.cid}"))
            ucases.append((c.cid, term, f"placed_ok {geom.user_protos_term(ups)} {geom.placed_term(exp)} L{c.cid}"))
        except (geom.GeomError, KeyError, ValueError) as e:
            export_err[c.cid] = str(e)
    per = 6 if tier == "quick" else 10
    res_p, logs_p, cmd = H.shard_cases(PROP, pcases, "Factorio.Geometry", per=per)
    res_u, logs_u, _ = H.shard_cases(PROP + "U", ucases, "Factorio.Geometry", per=per)
    rep.checker_cmds.append(cmd)
    H.log(f"C18: {len(pcases)} + {len(ucases)} certificates checked")

    base_of = {}
    for b, ps in groups:
        for p in ps:
            base_of[p.cid] = b
    hist = {}
    verdicts = {}
    twins = 0
    for c in allc:
        if c.status == "rejected":
            v, d = "not-accepted", None
        elif c.status == "error":
            b = base_of.get(c.cid)
            base_ok = (b is not None and b.status == "ok") or (c.kind == "witness")
            fid = geom.classify_compile_error(c, base_ok)
            if fid:
                v, d = "known:" + fid, {"error": (c.msg or "")[:300]}
            elif not c.cfg[0] or not base_ok:
                v, d = "not-accepted", {"error": (c.msg or "")[:300]}
            else:
                v, d = "violation", {"kind": "compile-error-with-pole-option", "error": (c.msg or "")[:1500]}
        elif c.cid in export_err:
            v, d = "violation", {"kind": "export", "error": export_err[c.cid]}
        elif c.cfg[0]:
            v, d = judge_pole_build(c, res_p.get(c.cid, False), res_u.get(c.cid, False), base_of.get(c.cid))
            if base_of.get(c.cid) is not None and base_of[c.cid].status == "ok" and v != "violation":
                twins += 1
        else:
            v, d = judge_plain_build(c, res_p.get(c.cid, False), res_u.get(c.cid, False))
        verdicts[c.cid] = (v, d)
        if c.kind == "witness":
            continue
        key = v.split(":")[0]
        hist[key] = hist.get(key, 0) + 1
        if v == "pass":
            rep.obligations += 2
            rep.discharged += 2
        elif v.startswith("known:"):
            rep.known += [LOCAL_ID.get(i, i) for i in v[6:].split(",")]
        elif v == "violation":
            rep.obligations += 1
            payload = dict(c.describe())
            if c.bpj is not None and geom.entity_total(c.bpj) <= 400:
                payload["blueprint"] = c.bpj
            payload.update({"detail": d, "generator_seed": seed,
                            "broken_obligation": "poles_ok / relays_only / placed_ok (Factorio/Geometry.v) on the emitted blueprint, "
                                                 "or the twin comparison with the pole-less build"})
            rep.violation(payload, d.get("kind") not in ("validator-and-mirror-disagree", "export"))
    for f, w in wit:
        v, d = verdicts[w.cid]
        if v != "pass":
            rep.known_finding(f["id"], f["what"])
            if v == "violation":
                rep.notes.append(f"witness of {f['id']} now fails outside its region: {json.dumps(d)[:300]}")

    passed = [c for c in cases if verdicts[c.cid][0] == "pass"]
    if len(passed) < max(4, len(cases) // 6):
        rep.violation({"kind": "coverage-lost", "cases": len(cases), "passed": len(passed), "histogram": hist,
                       "logs": (logs_p + logs_u)[:2]}, False)
    by_type = {}
    for c in cases:
        v = verdicts[c.cid][0]
        k = str(c.cfg[0])
        by_type.setdefault(k, {})
        by_type[k][v] = by_type[k].get(v, 0) + 1
    consumers = sum(sum(1 for e in geom.ents(c.bpj) if e["elec"]) for c in passed if c.cfg[0])
    poles = sum(sum(1 for e in geom.ents(c.bpj) if e["cls"] == "CPole") for c in passed if c.cfg[0])
    rep.samples = [{"program": c.text, "options": c.opts, "entities": geom.entity_total(c.bpj),
                    "poles": sum(1 for e in geom.ents(c.bpj) if e["cls"] == "CPole")} for c in passed if c.cfg[0]][:3]
    rep.cov.update({
        "programs": len(progs),
        "evaluations": len(cases),
        "distinct_nontrivial": len({(c.text, c.cfg) for c in passed if c.cfg[0] and
                                    sum(1 for e in geom.ents(c.bpj) if e["elec"]) >= 1 and
                                    sum(1 for e in geom.ents(c.bpj) if e["cls"] == "CPole") >= 1}),
        "rule": "every program (py/gen_rich.py, py/gen_scalar.py, far-apart lamps, hand-written placements incl. negative "
                "coordinates and multi-tile prototypes, arithmetic chains) is compiled five times: without poles and with small, "
                "medium, big, substation, under one (optimise, time limit) drawn per program.  non-trivial = a pole build with at "
                "least one electric consumer and one pole whose poles_ok and placed_ok certificates are kernel-checked and whose "
                "twin comparison with the pole-less build found the same circuit; distinct by (text, configuration)",
        "status_histogram": hist,
        "verdicts_by_pole_type": by_type,
        "twin_comparisons_equal": twins,
        "consumers_covered_in_passing_builds": consumers,
        "poles_in_passing_builds": poles,
        "config_table_deviations": dev_notes,
        "print_assumptions": print_assumptions("Props/C18.v"),
        "coq_logs": (logs_p + logs_u)[:3],
    })
    return rep.finish(assumptions=[
        "prototype numbers (supply_area_distance, maximum_wire_distance, energy source, tile size) from the draftsman game data",
        "an entity is supplied when its tile footprint meets the supply square with positive area; reach between centres",
        "all electric poles of the blueprint, relays included, must form one copper network",
        "twin comparison identifies entities through the compiler's placement ids (harvested in-process)",
        "programs, configurations and solver outcomes are sampled"])


def replay(path):
    payload = json.load(open(path))
    print(json.dumps(payload, indent=1)[:3000])
    if "program" not in payload:
        return 0
    o = payload.get("options", {})
    c = geom.Case("r", payload["program"], (o.get("power_pole_type"), o.get("optimize", True), o.get("time_limit")), "replay")
    geom.compile_cases([c])
    if c.status != "ok":
        print("replay: compile", c.status, (c.msg or "")[:500])
        return 1
    if c.cfg[0]:
        fs = geom.pole_failures(c.bpj, geom.POLE_PROTO[c.cfg[0]])
    else:
        fs = geom.idle_poles(c.bpj)
    print("replay:", json.dumps(fs[:3], indent=1))
    return 1 if fs else 0
