"""C20 -- every named result is exposed and labelled.
(spec) Facto/IO.v: the outputs of a program are its Signal declarations nobody mentions (theorem).
(validator) check_c20: every output with a non-constant producer has exactly one anchor, no name two;
run, kernel-checked, together with the all-inputs value check of the anchor networks (check_prog).
(labels) descriptions: producer carries name and line, inputs carry name and value."""
from __future__ import annotations

import random
import re

import bpexport
import engine
import facto_ast as fa
import gen_scalar
from props import c01, c10

PROP = "C20"
FILES = ["Facto/IO.v", "Props/C20.v"]


def with_aliases(seed):
    p = c10.with_repeats(seed)
    r = random.Random(seed ^ 0xA11A5)
    out = list(p)
    k = 0
    for i, d in enumerate(p):
        if d[0] != "int" and r.random() < 0.25:
            out.append(("sig", f"y{k}", ("var", i)))  # Signal y = x;  an alias
            k += 1
    return out


def entity_alias_item(k, seed, opt):
    """a named comparison that drives an entity (the compiler inlines it into the entity's condition) and has
    further names that nothing consumes: those names are results and need their anchors and labels"""
    import facto_rich as fr
    r = random.Random(seed)
    st = [("in", "a", r.choice(["signal-A", "iron-plate", "signal-C"]), r.choice([7, 20, 100])),
          ("in", "b", r.choice(["signal-B", "signal-D"]), r.choice([3, 9, 50]))]
    cmp_ = ("cmp", r.choice(["<", ">", ">=", "<=", "==", "!="]), ("ref", r.choice(["a", "b"])), ("int", r.choice([5, 10, 50])))
    st.append(("sig", "c", cmp_))
    alias_first = r.random() < 0.5
    if alias_first:
        st.append(("sig", "shown", ("ref", "c")))
    st.append(("place", "l", r.choice(["small-lamp", "inserter"]), ("int", 0), ("int", 12), None))
    st.append(("enable", "l", ("ref", "c")))
    if not alias_first:
        st.append(("sig", "shown", ("ref", "c")))
    if r.random() < 0.5:
        st.append(("sig", "again", ("ref", "shown")))
    el = fr.elaborate(st)
    return engine.Item(k, el.flat, text=fr.text(st), entities=el.entities, opts={"optimize": opt}, c20=True,
                       note="entity alias, " + ("optimize" if opt else "no-optimize"))


def make_items(seed, n):
    items = []
    i = 0
    while len(items) < n:
        opt = (len(items) % 2 == 0)
        if len(items) % 8 in (6, 7):
            items.append(entity_alias_item(len(items), seed * 977 + len(items), opt))
            continue
        p = with_aliases(seed * 49979687 + i)
        i += 1
        if max(fa.unfolded_size(p)) > 300:
            continue
        items.append(engine.Item(len(items), p, opts={"optimize": opt}, c20=True, note="optimize" if opt else "no-optimize"))
    return items


def is_const(decls, e):
    k = e[0]
    if k == "int":
        return True
    if k == "var":
        d = decls[e[1]]
        return d[0] == "int" or (d[0] == "sig" and is_const(decls, d[2]))
    return all(is_const(decls, x) for x in e[1:] if isinstance(x, tuple))


def label_problems(it):
    """description rules; returns list of problems"""
    out = []
    if it.bpj is None:
        return out
    descs = [e.get("player_description", "") or "" for e in bpexport.entities_of(it.bpj)]
    mentioned = set()

    def walk(e):
        if isinstance(e, tuple):
            if e[0] == "var":
                mentioned.add(e[1])
            for x in e[1:]:
                walk(x)

    for d in it.decls:
        if d[0] != "in":
            walk(d[2])
    for i, d in enumerate(it.decls):
        line = i + 1
        if d[0] == "in":
            pat = re.compile(rf":{line}\]\s*{re.escape(d[1])} \(value={d[3]} \(input\)\)")
            if i in mentioned and not any(pat.search(x) for x in descs):
                out.append(f"input {d[1]} (line {line}, value {d[3]}) has no labelled constant combinator")
        elif d[0] == "sig" and i not in mentioned:
            alias = d[2][0] == "var"
            if alias or is_const(it.decls, d[2]):
                continue
            # the producer, by the compiler's own logical edges: the single combinator feeding the anchor
            if not it.harvest or "edges" not in it.harvest:
                continue
            num = bpexport.id_to_number(it.bpj, it.harvest)
            ents = {e["entity_number"]: e for e in bpexport.entities_of(it.bpj)}
            anchors = [en for v, _, en in bpexport.Exporter(it.bpj).anchors() if v == d[1]]
            if len(anchors) != 1:
                continue  # anchor bookkeeping is check_c20's business
            srcs = {num.get(s) for s, k, *_ in it.harvest["edges"] if num.get(k) == anchors[0]}
            if len(srcs) != 1 or None in srcs:
                continue  # produced by a wire merge: no single producing combinator
            prod = ents[next(iter(srcs))]
            if prod["name"] not in ("arithmetic-combinator", "decider-combinator"):
                continue
            pat = re.compile(rf":{line}\]\s*{re.escape(d[1])} \(")
            if not pat.search(prod.get("player_description", "") or ""):
                out.append(f"output {d[1]} (line {line}) has no producer labelled with its name and line "
                           f"(producer says: {prod.get('player_description')})")
    return out


def resolve_alias(decls, e):
    while e[0] == "var" and decls[e[1]][0] == "sig" and decls[e[1]][2][0] == "var":
        e = decls[e[1]][2]
    return e


def s11_region(it):
    """known finding S11: with optimisation, a declaration whose expression equals an earlier
    declaration's expression is merged into it and loses its own anchor and label.  Returns the
    set of names affected (empty when not optimising)."""
    if not it.opts.get("optimize", True):
        return set()
    seen = {}
    out = set()

    def canon(e):
        # names that are plain aliases of an earlier value denote that value: a + c and a + d are one
        # expression when c and d both alias a
        if not isinstance(e, tuple):
            return e
        if e[0] == "var":
            return resolve_alias(it.decls, e)
        if e[0] == "proj":
            return canon(e[1])   # a projection folded into its producer only names the output signal
        e = tuple(canon(x) for x in e)
        if e[0] == "bin" and e[1] in ("+", "*", "AND", "OR", "XOR") and repr(e[3]) < repr(e[2]):
            e = (e[0], e[1], e[3], e[2])   # the optimiser's CSE treats these operators as commutative
        return e

    for d in it.decls:
        if d[0] != "sig":
            continue
        key = repr(canon(d[2]))
        if key in seen and d[2][0] != "var":
            out.add(d[1])
            out.add(seen[key])
        seen.setdefault(key, d[1])
    # aliases of an affected name are affected as well
    changed = True
    while changed:
        changed = False
        for d in it.decls:
            if d[0] == "sig" and d[2][0] == "var" and it.decls[d[2][1]][1] in out and d[1] not in out:
                out.add(d[1])
                changed = True
    return out


def s18_names(it):
    """known finding S18: the producer of `Signal z = x | "type"` (a projection of a named value) is
    labelled with x's name instead of z's"""
    def base(e):
        while e[0] == "proj":       # x | "t1" | "t2" is still a projection of the named value x
            e = e[1]
        return e
    return {d[1] for d in it.decls if d[0] == "sig" and d[2][0] == "proj" and base(d[2])[0] == "var"}


def run(tier, seed, t0):
    holder = {}

    def pre(rep):
        holder["rep"] = rep

    def cov(items):
        rep = holder["rep"]
        n = 0
        anchors_ok = 0
        for it in items:
            s11 = s11_region(it)
            s18 = s18_names(it)
            if getattr(it, "c20_ok", None) is True:
                anchors_ok += 1
                rep.obligations += 1
                rep.discharged += 1
            elif getattr(it, "c20_ok", None) is False:
                if (getattr(it, "detail", None) or {}).get("kind", "").startswith("the certificate's evaluation did not finish"):
                    pass  # already reported: no verdict for this blueprint
                elif s11:
                    rep.known.append("S11")
                else:
                    rep.obligations += 1
                    rep.violation({"program": it.text, "options": it.opts,
                                   "broken_obligation": "check_c20 (anchor bookkeeping) on the emitted blueprint",
                                   "anchors": [a[0] for a in bpexport.Exporter(it.bpj).anchors()]}, True)
            for pr in label_problems(it):
                name = pr.split()[1]
                if (s11 and name in s11) or name in s18:
                    rep.known.append("S11" if (s11 and name in s11) else "S18")
                    continue
                rep.obligations += 1
                rep.violation({"program": it.text, "options": it.opts, "label_problem": pr}, True)
            n += 1
        return {"label_checks": n, "anchor_certificates": anchors_ok}

    return c01.run(tier, seed, t0, prop=PROP, n_quick=40, n_thorough=400, make_items=make_items, files=FILES,
                   props_file="Props/C20.v", extra_cov=cov, pre=pre, witness_extra=lambda w: bool(label_problems(w)),
                   rule="random programs with consumed and unconsumed names, aliases of one value under several names, "
                        "repeated sub-expressions, optimisation on and off; per blueprint: anchor bookkeeping "
                        "(check_c20) and anchor values for all inputs in one kernel-checked certificate, plus label rules")


def replay(path):
    return c01.replay(path)
