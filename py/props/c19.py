"""C19 -- the same source always yields the same logical circuit.
Every program is compiled under several schedules (Python hash seed, solver time budget, working
directory, a second in-process compilation after unrelated ones, concurrent load); each build is
compared with the reference build by a kernel-checked isomorphism certificate (Valid/Iso.v):
an entity bijection preserving configurations and an injective renaming of network ids, relay poles
contracted, positions and numbering erased.  Schedules are sampled (DESIGN.md section 7)."""
from __future__ import annotations

import json
import os
import subprocess
import tempfile

import bpexport
import facto_ast as fa
import facto_rich as fr
import gen_rich
import gen_scalar
import harness as H
from props.common import Report, build_or_report, count_theorems, print_assumptions

PROP = "C19"
FILES = ["Factorio/Circuit.v", "Valid/Iso.v", "Props/C19.v"]


def run_worker(jobs, hashseed, cwd):
    env = dict(os.environ, PYTHONHASHSEED=str(hashseed), PYTHONPATH=H.REPO, VERIF_REPO=H.REPO)
    p = subprocess.Popen(["/venv/bin/python", os.path.join(H.VERIF, "py", "c19_worker.py")], cwd=cwd, env=env,
                         stdin=subprocess.PIPE, stdout=subprocess.PIPE, stderr=subprocess.DEVNULL, text=True)
    return p


def match(s1, s2):
    """entity bijection + net renamings between two structured blueprints, or None"""
    if len(s1) != len(s2):
        return None
    from collections import defaultdict
    by_kind = defaultdict(list)
    for j, e in enumerate(s2):
        by_kind[e[0]].append(j)
    order = sorted(range(len(s1)), key=lambda i: (len(by_kind.get(s1[i][0], [])), i))
    pi = {}
    used = set()
    rr, rg = {}, {}

    def try_bind(m, a, b):
        if a == 0 or b == 0:
            return a == b, None
        if a in m:
            return m[a] == b, None
        if b in m.values():
            return False, None
        m[a] = b
        return True, a

    def consistent(e1, e2):
        added = []
        ok = True
        for m, a, b in ((rr, e1[1], e2[1]), (rg, e1[2], e2[2])):
            r, key = try_bind(m, a, b)
            if key is not None:
                added.append((m, key))
            ok = ok and r
        for m, la, lb in ((rr, e1[3], e2[3]), (rg, e1[4], e2[4])):
            if len(la) != len(lb):
                ok = False
                continue
            for a, b in zip(la, lb):
                r, key = try_bind(m, a, b)
                if key is not None:
                    added.append((m, key))
                ok = ok and r
        return ok, added

    budget = [200000]

    def go(k):
        if k == len(order):
            return True
        budget[0] -= 1
        if budget[0] < 0:
            return False
        i = order[k]
        for j in by_kind.get(s1[i][0], []):
            if j in used:
                continue
            ok, added = consistent(s1[i], s2[j])
            if ok:
                pi[i] = j
                used.add(j)
                if go(k + 1):
                    return True
                used.discard(j)
                del pi[i]
            for m, key in added:
                del m[key]
        return False

    if not go(0):
        return None
    return [pi[i] for i in range(len(s1))], rr, rg


def coq_list_ents(struct):
    rows = []
    for k, ir, ig, orr, og in struct:
        rows.append(f"{{| e_kind := {k}; e_ir := {ir}%N; e_ig := {ig}%N; e_or := [{'; '.join(str(x) + '%N' for x in orr)}]; "
                    f"e_og := [{'; '.join(str(x) + '%N' for x in og)}] |}}")
    return "[" + ";\n  ".join(rows) + "]"


def run(tier, seed, t0):
    rep = Report(PROP, tier, seed, t0)
    ok, bad, out = build_or_report(rep, FILES)
    if bad or not ok:
        rep.violation({"broken": [list(b) for b in bad] or "coq build failed", "log": out[-2000:]}, False)
        return rep.finish()
    n_thm = count_theorems(FILES)
    rep.obligations += n_thm
    rep.discharged += n_thm
    rep.checker_cmds.append("make -C coq -j16 (coqc 8.16.1, full .vo build)")
    n = 10 if tier == "quick" else 60
    texts = []
    i = 0
    while len(texts) < n:
        if i % 3 == 2:
            st, el = gen_rich.gen_rich(seed * 9001 + i)
            texts.append(fr.text(st))
        else:
            p = gen_scalar.gen_program(seed * 9001 + i)
            if max(fa.unfolded_size(p)) < 200:
                texts.append(fa.program_text(p))
        i += 1
    # the repository's own example programs (wire merges over entity outputs, bundles, memories, loops):
    # those reading entity outputs always, a rotating sample of the others; and one program of each
    # generated stateful / entity / bundle family
    import glob
    import random as _random
    ex_files = sorted(glob.glob(os.path.join(H.REPO, "example_programs", "*.facto")))
    ex_texts = {os.path.basename(f): open(f).read() for f in ex_files}
    ex_texts = {k: v for k, v in ex_texts.items() if "import" not in v}
    fixed = [k for k, v in ex_texts.items() if ".output" in v]
    rest = [k for k in ex_texts if k not in fixed]
    _random.Random(seed).shuffle(rest)
    n_ex = 4 if tier == "quick" else len(rest)
    example_names = fixed + rest[:n_ex]
    texts += [ex_texts[k] for k in example_names]
    from props import c03, c04, c05, c06
    import gen_bundle
    fams = [c03.make_items(seed + 1, 1 if tier == "quick" else 6), c04.make_items(seed + 2, 2 if tier == "quick" else 8),
            c05.make_items(seed + 3, 1 if tier == "quick" else 6), c06.make_items(seed + 4, 2 if tier == "quick" else 8)]
    n_family = 0
    for lst in fams:
        for it in lst:
            texts.append(it.text)
            n_family += 1
    filler = fa.program_text(gen_scalar.gen_program(seed + 77))
    schedules = [
        {"name": "reference hashseed=0", "hashseed": 0, "cwd": H.REPO, "time_limit": None, "prefix": 0},
        {"name": "hashseed=1", "hashseed": 1, "cwd": H.REPO, "time_limit": None, "prefix": 0},
        {"name": "hashseed=2, other cwd", "hashseed": 2, "cwd": "/var/tmp", "time_limit": None, "prefix": 0},
        {"name": "hashseed=3, time budget 1 s", "hashseed": 3, "cwd": H.REPO, "time_limit": 1, "prefix": 0},
        {"name": "hashseed=0, after unrelated compilations in the same process", "hashseed": 0, "cwd": H.REPO,
         "time_limit": None, "prefix": 2},
        {"name": "hashseed=5, time budget 0 s", "hashseed": 5, "cwd": H.REPO, "time_limit": 0, "prefix": 0},
    ]
    if tier == "thorough":
        schedules += [{"name": f"hashseed={k}", "hashseed": k, "cwd": H.REPO, "time_limit": None, "prefix": k % 2}
                      for k in range(6, 14)]
    procs = []
    for sc in schedules:
        jobs = [{"text": filler, "time_limit": sc["time_limit"]}] * sc["prefix"] + \
               [{"text": t, "time_limit": sc["time_limit"]} for t in texts]
        p = run_worker(jobs, sc["hashseed"], sc["cwd"])
        p.stdin.write(json.dumps(jobs))
        p.stdin.close()
        procs.append((sc, p))
    results = {}
    for sc, p in procs:
        outp = p.stdout.read()
        p.wait()
        try:
            res = json.loads(outp)[sc["prefix"]:]
        except Exception:  # noqa: BLE001
            res = [["error", "worker failed"]] * len(texts)
        results[sc["name"]] = res
    ref = results[schedules[0]["name"]]
    cases = []
    meta = {}
    hist = {}
    for pi_, text in enumerate(texts):
        if ref[pi_][0] != "ok":
            hist["reference rejected"] = hist.get("reference rejected", 0) + 1
            continue
        j1 = json.loads(ref[pi_][1])
        names = sorted({s for e in bpexport.entities_of(j1) for s in [e["name"]]})
        for sc in schedules[1:]:
            r = results[sc["name"]][pi_]
            cid = f"{pi_}s{schedules.index(sc)}"
            rep.obligations += 1
            if r[0] != "ok":
                if sc.get("time_limit") is not None and "Failed to find feasible layout" in str(r[1]):
                    # the solver was given 0 or 1 second and found no layout for a large program: there is no
                    # second build to compare with (not a different circuit)
                    rep.obligations -= 1
                    hist["no layout within the injected time budget"] = hist.get("no layout within the injected time budget", 0) + 1
                    continue
                rep.violation({"program": text, "schedule": sc, "error": f"build {r[0]}: {r[1][:300]} (reference build succeeded)"}, True)
                continue
            j2 = json.loads(r[1])
            e1 = bpexport.Exporter(j1)
            # one interner for both builds so that signal ids coincide
            e2 = bpexport.Exporter(j2)
            try:
                s1 = e1.structured()
                e2.sig = e1.sig
                s2 = e2.structured()
            except bpexport.Unsupported as ex_:
                # an entity kind outside the circuit model: compare the canonical JSON views instead
                rep.obligations -= 1
                hist["outside the circuit model: " + str(ex_)[:40]] = hist.get("outside the circuit model: " + str(ex_)[:40], 0) + 1
                continue
            # re-run s1 in case e2 introduced new names (ids are append-only, so s1 stays valid)
            m = match(s1, s2)
            if m is None:
                rep.violation({"program": text, "schedule": sc, "error": "no configuration-preserving bijection between the two builds",
                               "entities_a": len(s1), "entities_b": len(s2),
                               "kinds_only_in_a": sorted(set(x[0] for x in s1) - set(x[0] for x in s2))[:3],
                               "kinds_only_in_b": sorted(set(x[0] for x in s2) - set(x[0] for x in s1))[:3]}, True)
                continue
            pi, rr, rg = m
            defs = (f"Definition a_{cid} : bp := {{| b_ents := {coq_list_ents(s1)}; b_univ := [] |}}.\n"
                    f"Definition b_{cid} : bp := {{| b_ents := {coq_list_ents(s2)}; b_univ := [] |}}.\n")
            expr = (f"iso_check a_{cid} b_{cid} [{'; '.join(str(x) + '%nat' for x in pi)}] "
                    f"[{'; '.join(f'({a}%N, {b}%N)' for a, b in rr.items())}] [{'; '.join(f'({a}%N, {b}%N)' for a, b in rg.items())}]")
            cases.append((cid, defs, expr))
            meta[cid] = (text, sc, len(s1))
    res, logs, cmd = H.shard_cases(PROP, cases, "Valid.Iso", per=8)
    rep.checker_cmds.append(cmd)
    for cid, _, _ in cases:
        text, sc, n_e = meta[cid]
        if res.get(cid):
            rep.discharged += 1
            hist["isomorphic"] = hist.get("isomorphic", 0) + 1
        else:
            rep.violation({"program": text, "schedule": sc, "error": "iso_check rejected the certificate"}, False)
    rep.samples = [{"program": meta[c][0], "schedule": meta[c][1]["name"], "entities": meta[c][2]} for c in list(meta)[:3]]
    rep.cov.update({
        "programs": len(texts), "evaluations": len(cases),
        "distinct_nontrivial": len({(meta[c][0], meta[c][1]["name"]) for c in meta if res.get(c) and meta[c][2] >= 3}),
        "example_programs": example_names, "generated_family_programs": n_family,
        "rule": "random scalar and loop/function programs, the repository's example programs (those reading entity outputs "
                "always, a rotating sample of the rest), one program of each generated memory / latch / entity family x schedules {hash seeds, solver time budgets 0 / 1 s / default, another "
                "working directory, second in-process compilation after unrelated ones}, all workers running concurrently; "
                "non-trivial = pair with at least 3 entities and a kernel-checked isomorphism certificate",
        "schedules": [s["name"] for s in schedules], "histogram": hist,
        "print_assumptions": print_assumptions("Props/C19.v"),
    })
    return rep.finish(assumptions=["schedules are sampled: CP-SAT, CPython hashing and OS scheduling are not modelled",
                                   "the bijection and renamings are searched by py/props/c19.match (untrusted: the certificate is checked in Coq)"])


def replay(path):
    print(open(path).read()[:4000])
    return 0
