"""C11 -- compile-time arithmetic equals run-time arithmetic.
Theorems: coq/Props/C11.v over the regenerated Gen/Fold.v (translator tie).  End to end: constant
expressions at every folding site are compiled and the emitted circuit is validated (for all
values of the other inputs) against the specification in which the constant expression is
evaluated with Int32.arith inside Coq."""
from __future__ import annotations

import json
import random
import re

import engine
import facto_ast as fa
import harness as H
from props.c01 import to_tuple, witness_items
from props.common import Report, build_or_report, count_theorems, print_assumptions

PROP = "C11"
FILES = ["Base/Int32.v", "Gen/Fold.v", "Proofs/FoldProofs.v", "Props/C11.v"]
OPS = ["+", "-", "*", "/", "%", "**", "<<", ">>", "AND", "OR", "XOR", "==", "!=", "<", "<=", ">", ">=", "&&", "||"]
BOUND = [0, 1, 2, 3, 7, 10, 12, 255, 1000, 65535, 46340, 2147483647, -1, -2, -7, -1000, -2147483648]


def in32(z):
    return -(1 << 31) <= z < (1 << 31)


def in_domain(op, a, b):
    """the region outside known finding S2"""
    if op in ("/", "%"):
        return b == 0 or (a >= 0 and b > 0)
    if op == "**":
        return 0 <= b <= 6 and in32(a ** b)
    if op == "<<":
        return 0 <= b < 32 and a >= 0 and in32(a << b)
    if op == ">>":
        return 0 <= b < 32
    if op == "+":
        return in32(a + b)
    if op == "-":
        return in32(a - b)
    if op == "*":
        return in32(a * b)
    return True


def mk(op, a, b):
    if op in fa.AOPS:
        return ("bin", op, ("int", a), ("int", b))
    if op in fa.COPS:
        return ("cmp", op, ("int", a), ("int", b))
    return ("and" if op == "&&" else "or", ("int", a), ("int", b))


def site_programs(op, a, b):
    """the same constant expression at each folding site; `i` is an input so that a real circuit
    is emitted around the folded constant"""
    k = mk(op, a, b)
    inp = ("in", "i", "signal-A", 5)
    return {
        "signal-literal": [inp, ("sig", "x", ("bin", "+", ("var", 0), ("lit", "signal-B", k)))],
        "operand": [inp, ("sig", "x", ("bin", "+", ("var", 0), k))],
        # comparisons and logical operators yield signals (LANGUAGE_SPEC): declared as Signal, not int
        "declaration": [inp, ("int" if op in fa.AOPS else "sig", "k", k), ("sig", "x", ("bin", "-", ("var", 0), ("var", 1)))],
        "condition": [inp, ("sig", "x", ("cond", ("cmp", ">", ("var", 0), k), ("int", 7)))],
        "projection": [inp, ("sig", "x", ("bin", "*", ("proj", k, "signal-C"), ("var", 0)))],
    }


def grid_search_model(which):
    """after a broken proof: evaluate the regenerated folder and the specification on the boundary
    grid inside Coq and return the first disagreement inside the proved domain"""
    names = {"+": "Add", "-": "Sub", "*": "Mul", "/": "Div", "%": "Mod", "**": "Pow", "<<": "Shl", ">>": "Shr",
             "AND": "And", "OR": "Or", "XOR": "Xor"}
    out = []
    for op, cn in names.items():
        pairs = [(a, b) for a in BOUND for b in BOUND if in_domain(op, a, b)]
        lst = "[" + "; ".join(f"({fa.zc(a)}, {fa.zc(b)})" for a, b in pairs) + "]"
        irn = "^" if op == "**" else op
        expr = (f'map (fun p => match {which} "{op if which == "ast_fold" else irn}"%string (fst p) (snd p) with '
                f"Some v => orb (negb (in32b v)) (Z.eqb v (arith {cn} (fst p) (snd p))) | None => "
                f"{'false' if which == 'ast_fold' else 'true'} end) {lst}")
        rc, res, text = H.coq_eval("From FV Require Import Gen.Fold.", [expr], "", tag="c11grid")
        if res and res[0]:
            flags = re.findall(r"true|false", res[0])
            for (a, b), f in zip(pairs, flags):
                if f == "false":
                    out.append((op, a, b))
                    break
    return out


def impl_grid_search():
    """the implementation itself (the two folders in /repo, called in a subprocess) against the documented
    run-time arithmetic on the boundary grid, inside the proved domain"""
    import subprocess
    code = (
        "import sys, json; sys.path.insert(0, %r)\n"
        "from dsl_compiler.src.lowering.constant_folder import ConstantFolder\n"
        "from dsl_compiler.src.ir.optimizer import ConstantPropagationOptimizer\n"
        "B = %r\n"
        "out = []\n"
        "o = ConstantPropagationOptimizer()\n"
        "for op in ['+','-','*','/','%%','**','<<','>>','AND','OR','XOR']:\n"
        "  for a in B:\n"
        "    for b in B:\n"
        "      if op == '**' and not (0 <= b <= 6): continue\n"
        "      try: v = ConstantFolder.fold_binary_operation(op, a, b, None, None)\n"
        "      except Exception as e: v = 'error'\n"
        "      try: w = o._fold_arithmetic('^' if op == '**' else op, a, b)\n"
        "      except Exception as e: w = 'error'\n"
        "      out.append([op, a, b, v, w])\n"
        "print(json.dumps(out))\n" % (H.REPO, BOUND))
    p = subprocess.run(["/venv/bin/python", "-c", code], capture_output=True, text=True, timeout=300)
    try:
        rows = json.loads(p.stdout)
    except Exception:  # noqa: BLE001
        return []
    out = []
    seen = set()
    for op, a, b, v, w in rows:
        if not in_domain(op, a, b) or op in seen:
            continue
        want = fa.arith(op, a, b)
        if v != want:
            out.append((op, a, b))
            seen.add(op)
        elif w is not None and w != want:
            out.append(("ir", op, a, b))
            seen.add(op)
    return out


def run(tier, seed, t0):
    rep = Report(PROP, tier, seed, t0)
    ok, bad, out = build_or_report(rep, FILES)
    rng = random.Random(seed)
    extra_items = []
    if bad:
        # broken translator tie or broken theorem: look for a concrete operand pair
        cands = []
        if not any(b[0] == "translator" for b in bad):
            cands = grid_search_model("ast_fold") + [("ir",) + c for c in grid_search_model("ir_fold_arith")]
        if not cands:
            cands = impl_grid_search()
        confirmed = None
        for c in cands:
            if c[0] == "ir":
                _, op, a, b = c
                decls = [("in", "i", "signal-A", 5), ("sig", "x", ("bin", "+", ("var", 0), ("bin", op, ("lit", "signal-B", ("int", a)), ("int", b))))]
            else:
                op, a, b = c
                decls = site_programs(op, a, b)["signal-literal"]
            it = engine.Item("g", decls)
            engine.check_items(PROP, [it], seed=seed)
            if it.status == "violation":
                confirmed = (c, it)
                break
        payload = {"broken": [list(b) for b in bad], "model_counterexamples": [list(c) for c in cands]}
        if confirmed:
            payload.update({"program": confirmed[1].text, "detail": confirmed[1].detail, "operands": list(confirmed[0])})
        rep.violation(payload, bool(confirmed))
        return rep.finish()
    if not ok:
        rep.notes.append("coq build reported errors outside this property's files")
    n_thm = count_theorems(FILES)
    rep.obligations += n_thm
    rep.discharged += n_thm
    rep.checker_cmds.append("make -C coq -j16 (coqc 8.16.1, full .vo build)")
    # known findings: replay the witnesses
    for f, w in witness_items(PROP):
        engine.check_items(PROP + "W", [w], seed=seed, do_search=False)
        if w.status != "pass":
            rep.known_finding(f["id"], f["what"])
    # end to end over the sites
    per_op = 2 if tier == "quick" else 12
    from props.c01 import corpus_items
    items = corpus_items(PROP)
    for op in OPS:
        pairs = [(a, b) for a in BOUND for b in BOUND if in_domain(op, a, b)]
        rng.shuffle(pairs)
        for a, b in pairs[:per_op]:
            for site, decls in site_programs(op, a, b).items():
                if site in ("condition",) and op in ("&&", "||"):
                    pass
                items.append(engine.Item(f"{len(items)}", decls, note=(op, a, b, site)))
    cmd, logs = engine.check_items(PROP, items, seed=seed)
    rep.checker_cmds.append(cmd)
    hist = {}
    for it in items:
        hist[it.status] = hist.get(it.status, 0) + 1
        if it.status == "pass":
            rep.obligations += 1
            rep.discharged += 1
        elif it.status == "violation":
            rep.obligations += 1
            found = bool(it.detail.get("failing_input")) or it.detail.get("kind", "").startswith("compile-")
            rep.violation({"program": it.text, "decls": it.decls, "site": it.note, "detail": it.detail,
                           "broken_obligation": "check_c01 on the blueprint of a constant expression at a folding site"}, found)
    rep.samples = [{"program": it.text, "site": it.note, "status": it.status} for it in items[:4]]
    rep.cov.update({
        "programs": len(items), "evaluations": len(items),
        "distinct_nontrivial": len({it.text for it in items if it.status == "pass"}),
        "rule": "19 operators x boundary operand pairs inside the proved domain x 5 folding sites; each program is "
                "validated for all values of its input by a kernel-checked certificate; the operand domain itself is "
                "covered by the theorems of Props/C11.v (all int32 operands)",
        "status_histogram": hist,
        "print_assumptions": print_assumptions("Props/C11.v"),
        "refuted_theorems": ["C11_div_negative_refuted", "C11_mod_negative_refuted", "C11_overflow_refuted"],
    })
    return rep.finish(assumptions=["py2v translation of the two folders (fail-closed)", "Int32.arith is Factorio's arithmetic"])


def replay(path):
    print(open(path).read()[:4000])
    return 0
