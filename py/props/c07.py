"""C07 -- the printed blueprint string carries the whole circuit.
For programs whose in-process build is certified (check_prog, all inputs), the text printed by every
CLI variant is decoded (base64 + zlib + JSON, or plain JSON) and the DECODED blueprint is itself
validated, for all inputs, against the source semantics with a kernel-checked certificate -- so the
emitted text carries every configuration and wire the behaviour needs; the string and --json forms
must decode to the same blueprint (modulo positions chosen by the solver)."""
from __future__ import annotations

import base64
import json
import os
import shutil
import subprocess
import tempfile
import zlib

import bpexport
import engine
import facto_ast as fa
import gen_scalar
import harness as H
from props import c01
from props.common import Report, build_or_report, count_theorems, print_assumptions

PROP = "C07"


def decode(text):
    t = text.strip()
    if t.startswith("{"):
        return json.loads(t)
    if not t.startswith("0"):
        raise ValueError("not a blueprint string (version byte)")
    return json.loads(zlib.decompress(base64.b64decode(t[1:])).decode("utf-8"))


def canon(bpj):
    """logical content: multiset of entity configurations and the partition of their connectors,
    positions / numbering / relay poles erased"""
    ents = {e["entity_number"]: e for e in bpexport.entities_of(bpj)}
    cfg = {}
    for n, e in ents.items():
        if e["name"] in bpexport.POLES:
            continue
        # descriptions are left out: they embed the source name (<string> / file path)
        cfg[n] = json.dumps({"name": e["name"], "cb": e.get("control_behavior")}, sort_keys=True)
    part = bpexport.partition_actual(bpj)
    classes = sorted(sorted((cfg[en], c) for en, c in g if en in cfg) for g in part)
    return json.dumps({"entities": sorted(cfg.values()), "classes": classes}, sort_keys=True)


def variants(tier):
    v = []
    for runner in ("module", "compile.py"):
        for inp in ("file", "-i"):
            if runner == "compile.py" and inp == "-i":
                continue
            for fmt in ("string", "--json"):
                for out in ("stdout", "-o"):
                    v.append({"runner": runner, "input": inp, "format": fmt, "out": out, "extra": []})
    v.append({"runner": "module", "input": "file", "format": "--json", "out": "stdout", "extra": ["--no-optimize"]})
    v.append({"runner": "module", "input": "-i", "format": "string", "out": "stdout", "extra": ["--name", "My Circuit"]})
    v.append({"runner": "module", "input": "file", "format": "string", "out": "-o", "extra": ["--power-poles", "medium"]})
    if tier == "thorough":
        for t in ("small", "big", "substation"):
            v.append({"runner": "module", "input": "file", "format": "--json", "out": "stdout", "extra": ["--power-poles", t]})
        v.append({"runner": "compile.py", "input": "file", "format": "--json", "out": "-o", "extra": ["--no-optimize"]})
    return v


def run_cli(text, var, scratch, k):
    src = os.path.join(scratch, f"p{k}.facto")
    with open(src, "w") as fh:
        fh.write(text)
    outp = os.path.join(scratch, f"o{k}.txt")
    cmd = ["/venv/bin/python"]
    if var["runner"] == "module":
        cmd += ["-m", "dsl_compiler"]
    else:
        cmd += [os.path.join(H.REPO, "compile.py")]
    cmd += ["-i", text] if var["input"] == "-i" else [src]
    if var["format"] == "--json":
        cmd.append("--json")
    if var["out"] == "-o":
        cmd += ["-o", outp]
    cmd += var["extra"]
    env = dict(os.environ, PYTHONPATH=H.REPO)
    p = subprocess.run(cmd, cwd=H.REPO, capture_output=True, text=True, env=env, timeout=600)
    if p.returncode != 0:
        return None, f"exit {p.returncode}: {p.stderr[-500:]}"
    if var["out"] == "-o":
        if not os.path.exists(outp):
            return None, "no output file"
        data = open(outp).read()
        os.unlink(outp)
    else:
        lines = [ln for ln in p.stdout.splitlines() if ln.strip()]
        data = lines[-1] if lines else ""
    return data, None


def run(tier, seed, t0):
    rep = Report(PROP, tier, seed, t0)
    ok, bad, out = build_or_report(rep, c01.FILES)
    if bad or not ok:
        rep.violation({"broken": [list(b) for b in bad] or "coq build failed", "log": out[-2000:]}, False)
        return rep.finish()
    n_thm = count_theorems(c01.FILES)
    rep.obligations += n_thm
    rep.discharged += n_thm
    rep.checker_cmds.append("make -C coq -j16 (coqc 8.16.1, full .vo build)")
    # corpus: repaired S1 would show as an undecodable / empty configuration
    n_prog = 4 if tier == "quick" else 20
    base_items = []
    i = 0
    while len(base_items) < 3 * n_prog:
        p = gen_scalar.gen_program(seed * 7001 + i)
        i += 1
        if max(fa.unfolded_size(p)) < 150 and len(p) <= 7:
            base_items.append(engine.Item(f"b{len(base_items)}", p))
    # stateful and entity programs too: feedback rings of every length, gated cells, latches, placed entities
    from props import c03, c04, c05, c06
    n_rich = 1 if tier == "quick" else 5
    fam = {"ring": c04.make_items(seed * 11 + 1, 8 * n_rich), "cell": c03.make_items(seed * 11 + 2, 4 * n_rich),
           "latch": c05.make_items(seed * 11 + 3, 4 * n_rich), "entity": c06.make_items(seed * 11 + 4, 4 * n_rich)}
    for k, lst in fam.items():
        for j, it in enumerate(lst):
            it.id = f"{k}{j}"
            it.family = k
            it.opts = {}
    rich_items = [it for lst in fam.values() for it in lst]
    engine.check_items(PROP + "B", base_items + rich_items, seed=seed, do_search=False)
    good = [it for it in base_items if it.status == "pass"][:n_prog]
    # a build whose emitted wiring is not the wiring the compiler planned: the circuit idealised from the
    # compiler's own logical edges is certified, the emitted blueprint is not, and the partition of connectors
    # differs from the one those edges imply -- the emitted blueprint does not carry every planned wire
    for it in base_items + rich_items:
        d_ = getattr(it, "detail", None) or {}
        if it.status == "violation" and d_.get("ideal_circuit_passes") is True and d_.get("partition_matches_design") is False:
            rep.obligations += 1
            h_ = None
            try:
                import history
                import random as _r
                if getattr(it, "mems", None):
                    h_ = history.ring_history(it, _r.Random(1)) or history.gated_cell_history(it, _r.Random(1))
            except Exception:  # noqa: BLE001
                h_ = None
            rep.violation({"program": it.text, "detail": dict(d_, failing_input=h_),
                           "error": "the emitted blueprint is not the planned circuit: the circuit built from the compiler's own "
                                    "logical edge list is certified for this program, the emitted blueprint is not, and its "
                                    "connector partition differs from the one the planned edges imply (a planned wire is missing "
                                    "or an extra one is present)",
                           "planned_edges": (it.harvest or {}).get("edges"),
                           "emitted_wires": (it.bpj or {}).get("blueprint", {}).get("wires")}, bool(h_))
    seen_ring = set()
    for k, lst in fam.items():
        ok_ = [it for it in lst if it.status == "pass"]
        if k == "ring":
            # one program per ring shape (lengths of its feedback rings), so that every ring length is printed
            for it in ok_:
                sig_ = tuple(it.meta.get("rings") or [])
                if sig_ not in seen_ring and len(seen_ring) < 4 * n_rich:
                    seen_ring.add(sig_)
                    good.append(it)
        else:
            good.extend(ok_[:n_rich])
    scratch = tempfile.mkdtemp(prefix=f"verif-{os.getpid()}-", dir="/var/tmp")
    items = []
    vs = variants(tier)
    # the in-process build under each option set the variants use: a decoded output is only held against
    # the source when the build the compiler planned under the same options is itself certified
    OPTSETS = {"--no-optimize": {"optimize": False}, "--power-poles": None}
    opt_items = {}
    for pi, base in enumerate(good):
        for var in vs:
            ex_ = var["extra"]
            if "--no-optimize" in ex_ or "--power-poles" in ex_:
                o = {}
                if "--no-optimize" in ex_:
                    o["optimize"] = False
                if "--power-poles" in ex_:
                    o["power_pole_type"] = ex_[ex_.index("--power-poles") + 1]
                key = (pi, json.dumps(o, sort_keys=True))
                if key not in opt_items:
                    opt_items[key] = engine.Item(f"o{len(opt_items)}", base.decls, text=base.text, opts=o,
                                                 entities=base.entities, mems=getattr(base, "mems", None))
    if opt_items:
        engine.check_items(PROP + "O", list(opt_items.values()), seed=seed, do_search=False)
    jobs = []
    skipped = 0
    try:
        for pi, base in enumerate(good):
            for vi, var in enumerate(vs):
                ex_ = var["extra"]
                if "--no-optimize" in ex_ or "--power-poles" in ex_:
                    o = {}
                    if "--no-optimize" in ex_:
                        o["optimize"] = False
                    if "--power-poles" in ex_:
                        o["power_pole_type"] = ex_[ex_.index("--power-poles") + 1]
                    if opt_items[(pi, json.dumps(o, sort_keys=True))].status != "pass":
                        skipped += 1
                        continue
                jobs.append((pi, vi, base, var))
        from concurrent.futures import ThreadPoolExecutor

        def work(job):
            pi, vi, base, var = job
            return job, run_cli(base.text, var, scratch, f"{pi}_{vi}")

        with ThreadPoolExecutor(max_workers=8) as ex:
            results = list(ex.map(work, jobs))
    finally:
        shutil.rmtree(scratch, ignore_errors=True)
    canon_by_prog = {}
    for (pi, vi, base, var), (data, err) in results:
        tag = f"{pi}v{vi}"
        if err:
            rep.obligations += 1
            rep.violation({"program": base.text, "variant": var, "error": err}, True)
            continue
        try:
            bpj = decode(data)
        except Exception as e:  # noqa: BLE001
            rep.obligations += 1
            rep.violation({"program": base.text, "variant": var, "error": f"output does not decode: {e}", "head": data[:200]}, True)
            continue
        ver = bpj.get("blueprint", {}).get("version")
        if ver is None or (ver >> 48, (ver >> 32) & 0xFFFF) != (2, 0):
            rep.obligations += 1
            rep.violation({"program": base.text, "variant": var, "error": f"blueprint version {ver} is not 2.0"}, True)
        it = engine.Item(tag, base.decls, text=base.text, note=var, entities=base.entities, mems=getattr(base, "mems", None))
        it.preset_bpj = bpj
        items.append(it)
        key = (pi, "--no-optimize" in var["extra"], "--power-poles" in var["extra"])
        canon_by_prog.setdefault(key, []).append((var, canon(bpj)))
    cmd, logs = engine.check_items(PROP, items, seed=seed)
    rep.checker_cmds.append(cmd)
    hist = {}
    for it in items:
        hist[it.status] = hist.get(it.status, 0) + 1
        rep.obligations += 1
        if it.status == "pass":
            rep.discharged += 1
        else:
            rep.violation({"program": it.text, "variant": it.note, "detail": it.detail, "status": it.status,
                           "broken_obligation": "check_prog on the blueprint decoded from the CLI output"},
                          bool(it.detail.get("failing_input")))
    for key, lst in canon_by_prog.items():
        ref = lst[0][1]
        for var, c in lst[1:]:
            rep.obligations += 1
            if c != ref:
                rep.violation({"program": good[key[0]].text, "variant_a": lst[0][0], "variant_b": var,
                               "error": "two invocation forms describe different blueprints"}, True)
            else:
                rep.discharged += 1
    rep.samples = [{"program": it.text, "variant": it.note, "status": it.status} for it in items[:4]]
    rep.cov.update({
        "programs": len(good), "evaluations": len(items),
        "distinct_nontrivial": len({(it.text, json.dumps(it.note, sort_keys=True)) for it in items if it.status == "pass"}),
        "rule": "programs (stateless scalar, feedback rings of each length generated, gated cells, latches, placed entities) "
                "whose in-process build is certified x CLI matrix {python -m dsl_compiler, compile.py} x {file, -i} x "
                "{string, --json} x {stdout, -o} plus --no-optimize / --name / --power-poles; non-trivial = decoded output "
                "certified for all inputs against the source semantics",
        "variants": len(vs), "status_histogram": hist,
        "program_families": {k: sum(1 for g in good if getattr(g, "family", "scalar") == k)
                             for k in ("scalar", "ring", "cell", "latch", "entity")},
        "ring_shapes_printed": sorted(str(list(s_)) for s_ in seen_ring),
        "variants_skipped_because_the_in_process_build_under_those_options_is_not_certified": skipped,
        "print_assumptions": print_assumptions("Props/C01.v"),
    })
    return rep.finish(assumptions=["base64 / zlib / json decoding is Python's", "the `factompile` console script is the same "
                                   "click command as `python -m dsl_compiler` (dsl_compiler.cli:main) and is not installed in /venv/bin"])


def replay(path):
    print(open(path).read()[:4000])
    return 0
