"""C12 -- independent computations do not interfere.
P and Q are generated over disjoint variable names but overlapping signal types and constants;
they are compiled together under a random order-preserving interleaving.  The specification of the
interleaved program restricted to P's names is P's own specification (Denote.v evaluates a declaration
from the earlier declarations it references only), so validating the joint blueprint against the
interleaved specification for all inputs IS the statement that Q does not disturb P and vice versa."""
from __future__ import annotations

import random

import engine
import facto_ast as fa
import gen_scalar
from props import c01

PROP = "C12"


def rename(p, suffix):
    return [(d[0], d[1] + suffix) + tuple(d[2:]) for d in p]


def shift(e, m):
    if not isinstance(e, tuple):
        return e
    if e[0] == "var":
        return ("var", m[e[1]])
    return tuple(shift(x, m) for x in e)


def interleave(P, Q, rng):
    order = ["P"] * len(P) + ["Q"] * len(Q)
    rng.shuffle(order)
    ip = iq = 0
    mp, mq, out = {}, {}, []
    for o in order:
        if o == "P":
            d = P[ip]
            mp[ip] = len(out)
            out.append(d if d[0] == "in" else (d[0], d[1], shift(d[2], mp)))
            ip += 1
        else:
            d = Q[iq]
            mq[iq] = len(out)
            out.append(d if d[0] == "in" else (d[0], d[1], shift(d[2], mq)))
            iq += 1
    return out


def make_items(seed, n):
    items = []
    i = 0
    rng = random.Random(seed)
    while len(items) < n:
        P = rename(gen_scalar.gen_program(seed * 15485863 + 2 * i), "p")
        Q = rename(gen_scalar.gen_program(seed * 15485863 + 2 * i + 1), "q")
        i += 1
        parts = [P, Q]
        if rng.random() < 0.25:
            parts.append(rename(gen_scalar.gen_program(seed * 15485863 + 7 * i + 3), "r"))
        prog = parts[0]
        for nxt in parts[1:]:
            prog = interleave(prog, nxt, rng)
        if max(fa.unfolded_size(prog)) > 250 or len(prog) > 16:
            continue
        items.append(engine.Item(len(items), prog))
    return items


def run(tier, seed, t0):
    return c01.run(tier, seed, t0, prop=PROP, n_quick=30, n_thorough=300, make_items=make_items,
                   props_file="Props/C01.v",
                   rule="pairs (a quarter: triples) of random programs over disjoint names but shared signal types, "
                        "interleaved order-preservingly and compiled together; the joint blueprint is validated for all "
                        "inputs against the interleaved specification; known-finding regions classified per blueprint")


def replay(path):
    print(open(path).read()[:4000])
    return 0
