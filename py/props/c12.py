"""C12 -- independent computations do not interfere.
P and Q are generated over disjoint variable names but overlapping signal types and constants;
they are compiled together under a random order-preserving interleaving.  The specification of the
interleaved program restricted to P's names is P's own specification (Denote.v evaluates a declaration
from the earlier declarations it references only), so validating the joint blueprint against the
interleaved specification for all inputs IS the statement that Q does not disturb P and vice versa.
Props/C12.v proves that statement: a part embedded in a program (checked per case by `embeds`, Proofs/
EmbedProofs.v) keeps inside it exactly the values it has alone (`embedded_values`), and with the
certificate of the joint blueprint every output of the part shows the part's own value
(`C12_part_unaffected_by_the_rest`)."""
from __future__ import annotations

import random

import engine
import facto_ast as fa
import gen_scalar
from props import c01

PROP = "C12"
FILES = ["Proofs/FrameProofs.v", "Proofs/EmbedProofs.v", "Props/C12.v"]


def rename(p, suffix):
    return [(d[0], d[1] + suffix) + tuple(d[2:]) for d in p]


def shift(e, m):
    if not isinstance(e, tuple):
        return e
    if e[0] == "var":
        return ("var", m[e[1]])
    return tuple(shift(x, m) for x in e)


def interleave(P, Q, rng, maps=None):
    """order-preserving random interleaving; maps (if given) receives the two position maps"""
    order = ["P"] * len(P) + ["Q"] * len(Q)
    rng.shuffle(order)
    ip = iq = 0
    mp, mq, out = {}, {}, []
    if maps is not None:
        maps.append(mp)
        maps.append(mq)
    for o in order:
        if o == "P":
            d = P[ip]
            mp[ip] = len(out)
            out.append(d if d[0] == "in" else (d[0], d[1], shift(d[2], mp)))
            ip += 1
        else:
            d = Q[iq]
            mq[iq] = len(out)
            out.append(d if d[0] == "in" else (d[0], d[1], shift(d[2], mq)))
            iq += 1
    return out


def make_items(seed, n):
    items = []
    i = 0
    rng = random.Random(seed)
    while len(items) < n:
        P = rename(gen_scalar.gen_program(seed * 15485863 + 2 * i), "p")
        Q = rename(gen_scalar.gen_program(seed * 15485863 + 2 * i + 1), "q")
        i += 1
        parts = [P, Q]
        if rng.random() < 0.25:
            parts.append(rename(gen_scalar.gen_program(seed * 15485863 + 7 * i + 3), "r"))
        prog = parts[0]
        rhos = [list(range(len(parts[0])))]          # position of every declaration of each part in `prog`
        for nxt in parts[1:]:
            maps = []
            prog = interleave(prog, nxt, rng, maps)
            mp, mq = maps
            rhos = [[mp[x] for x in r_] for r_ in rhos] + [[mq[k_] for k_ in range(len(nxt))]]
        if max(fa.unfolded_size(prog)) > 250 or len(prog) > 16:
            continue
        it = engine.Item(len(items), prog)
        # every part, as written on its own, with its position list: the case also checks (in Coq) that the
        # compiled program embeds each part, so that Props/C12.v applies to it
        it.parts = list(zip(parts, rhos))
        items.append(it)
    return items


def run(tier, seed, t0):
    return c01.run(tier, seed, t0, prop=PROP, n_quick=30, n_thorough=300, make_items=make_items,
                   props_file="Props/C12.v", files=FILES,
                   rule="pairs (a quarter: triples) of random programs over disjoint names but shared signal types, "
                        "interleaved order-preservingly and compiled together; the joint blueprint is validated for all "
                        "inputs against the interleaved specification, and each part is checked (in Coq) to be embedded in the "
                        "compiled program so that Props/C12.v applies; known-finding regions classified per blueprint")


def replay(path):
    return c01.replay(path)
