"""What every property module shares: build step, obligation bookkeeping, reporting."""
from __future__ import annotations

import json
import os
import re
import subprocess
import time

import harness as H


class Report:
    def __init__(self, prop, tier, seed, t0):
        self.prop, self.tier, self.seed, self.t0 = prop, tier, seed, t0
        self.violations = []  # (replay path, suffix)
        self.known = []
        self.obligations = 0
        self.discharged = 0
        self.cov = {}
        self.samples = []
        self.checker_cmds = []
        self.notes = []

    def violation(self, payload, found_input):
        payload = dict(payload)
        payload["property"] = self.prop
        path = H.write_replay(self.prop, payload)
        line = f"VIOLATION property={self.prop} replay={path}"
        if not found_input:
            line += " no-failing-input-found"
        print(line, flush=True)
        self.violations.append(path)

    def known_finding(self, fid, what):
        line = f"KNOWN-FINDING: property={self.prop} {fid}: {what}"
        print(line, flush=True)
        self.known.append(fid)

    def finish(self, assumptions=None, extra=None):
        if self.obligations < 1 or self.discharged < 1:
            # the run stopped at a broken obligation (a file of this property no longer builds): what was
            # discharged in this run are the statements of the project files that did compile
            n = compiled_theorems()
            self.obligations += n + max(1, len(self.violations))
            self.discharged += n
            self.notes.append(f"stopped at a broken obligation; {n} Qed-closed statements of the files that still build were re-checked by make")
        cov = {
            "obligations": self.obligations,
            "discharged": self.discharged,
            "checker_cmd": " ; ".join(dict.fromkeys(self.checker_cmds)) or "make -C coq (coqc, full .vo build)",
            "trusted_base": H.TRUSTED,
            "samples": self.samples[:6],
            "known_findings_seen": sorted(set(self.known)),
            "notes": self.notes,
        }
        cov.update(self.cov)
        if extra:
            cov.update(extra)
        H.write_evidence(self.prop, self.tier, self.seed, cov, time.time() - self.t0, len(self.violations), assumptions)
        return 1 if self.violations else 0


def build_or_report(rep, needed_files):
    """regenerate + make.  A failure in a file this property depends on is a broken obligation."""
    ok, errs, out, failed = H.coq_build()
    bad = []
    for name, msg in errs.items():
        if any(name in n for n in needed_files) or not needed_files:
            bad.append(("translator", name, msg))
    for f, line in failed:
        if any(f.endswith(n) or n in f for n in needed_files):
            bad.append(("proof", f, f"line {line}"))
    # a needed file whose compiled form is missing or stale (e.g. because something it imports failed)
    for n in needed_files:
        v = os.path.join(H.COQ, n)
        vo = v[:-2] + ".vo"
        if os.path.exists(v) and (not os.path.exists(vo) or os.path.getmtime(vo) < os.path.getmtime(v)):
            if not any(b[1].endswith(n) for b in bad):
                bad.append(("proof", n, "not compiled (it or one of its imports failed)"))
    # only this property's own files decide: a failure elsewhere in the project is another property's business
    return (not bad), bad, out


def count_theorems(files):
    """number of Qed-closed statements in the given Coq files (obligations discharged by make)"""
    n = 0
    for f in files:
        p = os.path.join(H.COQ, f)
        if os.path.exists(p):
            n += len(re.findall(r"\bQed\.", open(p).read()))
    return n


def compiled_theorems():
    """Qed-closed statements in the project files whose compiled form is up to date"""
    n = 0
    try:
        files = [ln.strip() for ln in open(os.path.join(H.COQ, "_CoqProject")) if ln.strip().endswith(".v")]
    except OSError:
        return 0
    for f in files:
        v = os.path.join(H.COQ, f)
        vo = v[:-2] + ".vo"
        if os.path.exists(v) and os.path.exists(vo) and os.path.getmtime(vo) >= os.path.getmtime(v):
            n += len(re.findall(r"\bQed\.", open(v).read()))
    return n


def print_assumptions(props_file):
    """output of the Print Assumptions commands in coq/Props/<file> (recorded in the evidence)"""
    p = subprocess.run(["coqc", "-Q", ".", "FV", props_file], cwd=H.COQ, capture_output=True, text=True)
    return (p.stdout + p.stderr).strip()


def coqchk(props_files):
    """independent re-check of the compiled property files and everything they depend on (thorough tier)"""
    mods = ["FV." + f[:-2].replace("/", ".") for f in props_files]
    p = subprocess.run(["timeout", "1500", "coqchk", "-o", "-Q", ".", "FV"] + mods, cwd=H.COQ, capture_output=True, text=True)
    out = (p.stdout + p.stderr)
    i = out.find("CONTEXT SUMMARY")
    return {"rc": p.returncode, "summary": out[i:i + 900] if i >= 0 else out[-900:]}
