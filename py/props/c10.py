"""C10 -- optimisation never changes what the circuit does.
Both builds of every program (optimize on / off) are validated, for all inputs, against the same
specification program with the kernel-checked validator: two blueprints that provably compute the
source's values on every output for every input are observationally equivalent.  Programs are rich
in repeated sub-expressions (same expression under several names, with and without projection) so
that CSE and constant propagation fire, and in NEAR MISSES of expressions already present (operands
exchanged under the same operator, sibling operators on the same operands, x op k next to k op x),
which a common-subexpression key must keep apart."""
from __future__ import annotations

import random

import engine
import facto_ast as fa
import gen_scalar
from props import c01

PROP = "C10"


def with_repeats(seed):
    p = gen_scalar.gen_program(seed)
    r = random.Random(seed ^ 0x5EED)
    out = list(p)
    names = iter([f"z{i}" for i in range(60)])
    sigs = [i for i, d in enumerate(p) if d[0] == "sig"]
    for i in sigs:
        if r.random() < 0.6:
            e = p[i][2]
            x = r.random()
            if x < 0.4:
                out.append(("sig", next(names), e))  # the very same expression again
            elif x < 0.7:
                out.append(("sig", next(names), ("proj", e, r.choice(gen_scalar.SIGNALS))))
            else:
                out.append(("sig", next(names), ("bin", "+", e, ("var", i))))
        # near misses of an expression that is already there: the same operator with the operands
        # exchanged, or the same operands under a sibling operator -- values a common-subexpression
        # key must keep apart
        if r.random() < 0.5:
            v = near_miss(p[i][2], r)
            if v is not None:
                out.append(("sig", next(names), v))
    # direct pairs  x op k / k op x  and  x op y / y op x  on one output type
    pool = [i for i, d in enumerate(p) if d[0] in ("in", "sig")]
    for _ in range(r.randint(0, 2)):
        if not pool:
            break
        # (no shifts here: exchanging the operands would make the shift amount a run-time value, which the
        #  arithmetic model leaves unspecified outside 0..31)
        op = r.choice(["-", "/", "%", "**", "-", "**"])
        x = ("var", r.choice(pool))
        y = ("var", r.choice(pool)) if r.random() < 0.4 else ("int", r.choice([2, 3, 5, 7]))
        if y == x:
            continue
        out.append(("sig", next(names), ("bin", op, x, y)))
        out.append(("sig", next(names), ("bin", op, y, x)))
        # ... each with a consumer of its own (a merged node shows in what its consumers read)
        u, v = len(out) - 2, len(out) - 1
        if r.random() < 0.8:
            out.append(("sig", next(names), ("proj", ("var", u), r.choice(gen_scalar.SIGNALS))))
            out.append(("sig", next(names), ("proj", ("var", v), r.choice(gen_scalar.SIGNALS))))
        else:
            out.append(("sig", next(names), ("bin", "-", ("var", v), ("bin", "*", ("var", u), ("int", 3)))))
    if gen_scalar.program_safe(out) and gen_scalar.s14_free(out):
        return out
    return p


NONCOMM = ["-", "/", "%", "**", "<<", ">>"]


def near_miss(e, r):
    """a copy of e with one binary / comparison node changed: operands exchanged, or a sibling operator"""
    paths = []

    def walk(x, path):
        if not isinstance(x, tuple):
            return
        if x[0] in ("bin", "cmp"):
            paths.append(path)
        for k, y in enumerate(x):
            walk(y, path + (k,))

    walk(e, ())
    # exchanging the operands of a shift would make the amount a run-time value (unspecified outside 0..31)
    def node_at(x, path):
        for k in path:
            x = x[k]
        return x
    paths = [p_ for p_ in paths if not (node_at(e, p_)[0] == "bin" and node_at(e, p_)[1] in ("<<", ">>"))]
    if not paths:
        return None
    path = r.choice(paths)

    def rebuild(x, path):
        if not path:
            if r.random() < 0.7:
                return (x[0], x[1], x[3], x[2])
            if x[0] == "bin":
                return ("bin", r.choice([o for o in ["+", "-", "*", "/", "%"] if o != x[1]]), x[2], x[3])
            return ("cmp", r.choice([o for o in ["<", ">", "==", ">=", "<=", "!="] if o != x[1]]), x[2], x[3])
        k = path[0]
        return tuple(rebuild(y, path[1:]) if j == k else y for j, y in enumerate(x))

    return rebuild(e, path)


def make_items(seed, n):
    items = []
    i = 0
    while len(items) < 2 * n:
        p = with_repeats(seed * 104729 + i)
        i += 1
        if max(fa.unfolded_size(p)) > 300:
            continue
        k = len(items) // 2
        items.append(engine.Item(f"{k}o", p, opts={"optimize": True}, note="optimize"))
        items.append(engine.Item(f"{k}n", p, opts={"optimize": False}, note="no-optimize"))
    return items


def extra_cov(items):
    both = 0
    by = {}
    for it in items:
        by.setdefault(it.id[:-1], []).append(it)
    for k, pair in by.items():
        if len(pair) == 2 and all(x.status == "pass" for x in pair):
            both += 1
    sizes = [(a.meta["entities"], b.meta["entities"]) for a, b in
             [tuple(v) for v in by.values() if len(v) == 2 and all(hasattr(x, "meta") for x in v)]]
    return {"pairs_both_builds_certified": both,
            "pairs_where_optimisation_changed_the_entity_count": sum(1 for a, b in sizes if a != b)}


def run(tier, seed, t0):
    return c01.run(tier, seed, t0, prop=PROP, n_quick=25, n_thorough=250, make_items=make_items,
                   props_file="Props/C01.v", extra_cov=extra_cov,
                   rule="random scalar programs with repeated sub-expressions and near-miss variants (operands exchanged, "
                        "sibling operator, x op k beside k op x), each compiled with and without "
                        "optimisation; both blueprints validated for all inputs against the same specification; "
                        "non-trivial = certified pair; known-finding regions classified per blueprint")


def replay(path):
    return c01.replay(path)
