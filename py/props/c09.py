"""C09 -- user-placed entities appear exactly once, at the tile the program says, with the given
static properties.

(1) coq/Props/C09.v: `placed_ok` -- the expected placements are pairwise different, each occurs exactly
    once among the blueprint's entities (prototype and top-left tile), and every blueprint entity of a
    user prototype is an expected placement.
(2) per blueprint x configuration: a kernel-checked `placed_ok ups expected l = true`, where `expected`
    is the generator's own elaboration of the program (loops unrolled, calls inlined, constant
    coordinates evaluated by the specification arithmetic) and `l` the blueprint the real compiler
    returned; static properties are compared on the JSON."""
from __future__ import annotations

import json
import random

import geom
import harness as H
from props.common import Report, build_or_report, count_theorems, print_assumptions

PROP = "C09"
FILES = ["Factorio/Geometry.v", "Proofs/GeometryProofs.v", "Props/C09.v"]


def two_groups(n1, n2, y2):
    """two separately wired groups of lamps placed by loops (two connected components)"""
    lines = ['Signal g1 = ("signal-A", 1);', 'Signal g2 = ("signal-B", 1);', "Signal a = g1 * 2;", "Signal b = g2 * 3;",
             f"for i in 0..{n1} {{", '    Entity l = place("small-lamp", i, 0);', "    l.enable = a > 0;", "}",
             f"for j in 0..{n2} {{", f'    Entity m = place("small-lamp", j, {y2});', "    m.enable = b > 0;", "}"]
    return "\n".join(lines) + "\n", [("small-lamp", x, 0) for x in range(n1)] + [("small-lamp", x, y2) for x in range(n2)]


def make_cases(tier, seed):
    rng = random.Random(seed * 7919 + 9)
    quick = tier == "quick"
    n_rich, n_far, k = (14, 4, 4) if quick else (120, 30, 8)
    cfgs = list(geom.ALL_CONFIGS)
    rng.shuffle(cfgs)
    cases = []
    ci = 0

    def add(text, kind, expected, props=None, n=k, only=None):
        nonlocal ci
        for _ in range(n):
            cfg = only if only is not None else cfgs[ci % len(cfgs)]
            ci += 1
            cases.append(geom.Case(len(cases), text, cfg, kind, expected=expected, props=props))

    for i in range(n_rich):
        text, exp = geom.rich_program(seed * 1019 + i, need_lamps=1)
        add(text, "rich", exp)
    for i in range(n_far):
        text, exp = geom.far_program(seed * 1021 + i)
        add(text, "far", exp, n=3 if quick else 5)
    for name, text, exp, props in geom.HAND_PROGRAMS:
        add(text, "hand:" + name, exp, props=props, n=3 if quick else 10)
    # just below the decomposition threshold of the layout engine: two wired groups, 245 + 240 lamps
    text, exp = two_groups(120, 60, 7) if quick else two_groups(245, 240, 5)
    add(text, "two-groups", exp, n=1, only=(None, True, None))
    if not quick:
        add(text, "two-groups", exp, n=1, only=("substation", True, 1))
        # above it (region of S8): the placements are compared all the same and classified
        text, exp = two_groups(520, 5, 60)
        add(text, "two-groups-525", exp, n=1, only=(None, True, None))
        text, exp = geom.lamp_rows_program([(300, 0, True), (300, 2, False), (8, 40, True)])
        add(text, "lamps608", exp, n=1, only=(None, True, 1))
        text, exp = geom.lamp_rows_program([(100, -3, True), (100, 9, True), (100, 21, False)])
        add(text, "lamps300", exp, n=1, only=("medium", True, None))
    return cases


def classify(case):
    """S8: more than 500 entities (planned grid poles included) send the layout through
    _optimize_with_decomposition"""
    return "S8" if geom.s8_region(case) else None


def run(tier, seed, t0):
    rep = Report(PROP, tier, seed, t0)
    ok, bad, out = build_or_report(rep, FILES)
    if bad:
        rep.violation({"broken": [list(b) for b in bad], "log": out[-3000:]}, False)
        return rep.finish()
    if not ok:
        rep.notes.append("coq build reported errors outside this property's files")
    n_thm = count_theorems(FILES)
    rep.obligations += n_thm
    rep.discharged += n_thm
    rep.checker_cmds.append("make -C coq -j16 (coqc 8.16.1, full .vo build)")
    geom.proto_table()

    wit = geom.witnesses(PROP)
    cases = make_cases(tier, seed)
    allc = [w for _, w in wit] + cases
    geom.compile_cases(allc)
    H.log(f"C09: compiled {len(allc)} cases")

    coq_cases = []
    export_err = {}
    ups = {}
    for c in allc:
        if c.status != "ok":
            continue
        ups[c.cid] = geom.user_names_of(c.expected) | {"small-lamp"}
        try:
            coq_cases.append((c.cid, geom.layout_term(c.bpj, f"L{c.cid}"),
                              f"placed_ok {geom.user_protos_term(ups[c.cid])} {geom.placed_term(c.expected)} L{c.cid}"))
        except (geom.GeomError, KeyError, ValueError) as e:
            export_err[c.cid] = str(e)
    results, logs, cmd = H.shard_cases(PROP, coq_cases, "Factorio.Geometry", per=6 if tier == "quick" else 10)
    rep.checker_cmds.append(cmd)
    H.log(f"C09: {len(coq_cases)} certificates checked")

    hist = {}
    verdicts = {}
    for c in allc:
        if c.status != "ok":
            v, d = "no-blueprint", {"status": c.status, "message": (c.msg or "")[:200]}
        elif c.cid in export_err:
            v, d = "violation", {"kind": "export", "error": export_err[c.cid]}
        else:
            cert = results.get(c.cid, False)
            pf = geom.placed_failures(c.bpj, c.expected, ups[c.cid])
            sp = geom.static_props_failures(c)
            if cert != (pf is None):
                v, d = "violation", {"kind": "validator-and-mirror-disagree", "certificate": cert, "mirror": pf}
            elif cert and not sp:
                v, d = "pass", None
            else:
                fid = classify(c) if pf else None
                d = pf or sp[0]
                v = "known:" + fid if fid else "violation"
        verdicts[c.cid] = (v, d)
        if c.kind == "witness":
            continue
        key = v.split(":")[0]
        hist[key] = hist.get(key, 0) + 1
        if v == "pass":
            rep.obligations += 1
            rep.discharged += 1
        elif v.startswith("known:"):
            rep.known.append(v[6:])
        elif v == "violation":
            rep.obligations += 1
            payload = dict(c.describe())
            payload.update({"expected_placements": [list(x) for x in c.expected][:60], "detail": d, "generator_seed": seed,
                            "broken_obligation": "placed_ok (Factorio/Geometry.v) on the emitted blueprint"})
            rep.violation(payload, d.get("kind") not in ("validator-and-mirror-disagree", "export"))
    for f, w in wit:
        v, d = verdicts[w.cid]
        if v != "pass":
            rep.known_finding(f["id"], f["what"])
            if v == "violation":
                rep.notes.append(f"witness of {f['id']} now fails outside its region: {json.dumps(d)[:300]}")

    passed = [c for c in cases if verdicts[c.cid][0] == "pass"]
    if len(passed) < max(4, len(cases) // 5):
        rep.violation({"kind": "coverage-lost", "cases": len(cases), "passed": len(passed), "histogram": hist, "logs": logs[:2]}, False)
    placed_counts = sorted(len(c.expected) for c in passed)
    cfg_hist = {}
    for c in passed:
        cfg_hist[str(c.cfg)] = cfg_hist.get(str(c.cfg), 0) + 1
    rep.samples = [{"program": c.text, "options": c.opts, "expected": [list(x) for x in c.expected][:12],
                    "entities": geom.entity_total(c.bpj)} for c in passed[:3]]
    rep.cov.update({
        "programs": len({c.text for c in cases}),
        "evaluations": len(cases),
        "distinct_nontrivial": len({(c.text, c.cfg) for c in passed if len(c.expected) >= 1
                                    and geom.entity_total(c.bpj) > len(c.expected)}),
        "rule": "programs: py/gen_rich.py with at least one placed lamp (coordinates from literals, iterators, nested loops, "
                "arithmetic on them; descending ranges carry an explicit step), far-apart lamps, hand-written multi-tile / negative / "
                "int-variable placements with static properties, two separately wired groups of lamps placed by loops; each "
                "compiled under configurations drawn round-robin from 5 pole options x optimise on/off x time limit {0, 1, default}.  "
                "non-trivial = kernel-checked placed_ok certificate with at least one expected placement and at least one "
                "compiler-made entity beside them, distinct by (text, configuration)",
        "status_histogram": hist,
        "configurations_passed": cfg_hist,
        "placements_per_program": {"min": placed_counts[0] if placed_counts else 0,
                                   "median": placed_counts[len(placed_counts) // 2] if placed_counts else 0,
                                   "max": placed_counts[-1] if placed_counts else 0,
                                   "total": sum(placed_counts)},
        "static_properties_compared": sum(len(v) for c in passed for v in c.props.values()),
        "largest_blueprint_entities": max([geom.entity_total(c.bpj) for c in passed] or [0]),
        "print_assumptions": print_assumptions("Props/C09.v"),
        "coq_logs": logs[:3],
    })
    return rep.finish(assumptions=[
        "expected placements are the generator's elaboration (py/facto_rich.py) of its own AST; tile sizes from the game data",
        "user entities are recognised by prototype: the generators never place a prototype the compiler itself emits",
        "programs and configurations are sampled"])


def replay(path):
    payload = json.load(open(path))
    print(json.dumps(payload, indent=1)[:3000])
    if "program" not in payload:
        return 0
    o = payload.get("options", {})
    exp = [tuple(x) for x in payload.get("expected_placements", [])]
    c = geom.Case("r", payload["program"], (o.get("power_pole_type"), o.get("optimize", True), o.get("time_limit")), "replay",
                  expected=exp)
    geom.compile_cases([c])
    if c.status != "ok":
        print("replay: compile", c.status, (c.msg or "")[:500])
        return 1
    pf = geom.placed_failures(c.bpj, exp, geom.user_names_of(exp) | {"small-lamp"})
    print("replay:", json.dumps(pf))
    return 1 if pf else 0
