"""C01 -- scalar expressions compute what the source says, for every input."""
from __future__ import annotations

import json
import os

import engine
import facto_ast as fa
import gen_scalar
import harness as H
from props.common import Report, build_or_report, count_theorems, print_assumptions

PROP = "C01"
FILES = ["Base/Int32.v", "Factorio/Circuit.v", "Factorio/Nets.v", "Valid/Hom.v", "Valid/Term.v", "Valid/SymExec.v",
         "Facto/Syntax.v", "Facto/Denote.v", "Valid/CheckC01.v", "Props/C01.v"]


def to_tuple(x):
    return tuple(to_tuple(y) for y in x) if isinstance(x, list) else x


def witness_items(prop):
    out = []
    for f in H.known_findings(prop):
        if f.get("kind") != "finding" or "witness" not in f:
            continue
        w = f["witness"]
        if "rich" in w:
            import facto_rich as fr
            st = [to_tuple(s) for s in w["rich"]]
            el = fr.elaborate(st)
            out.append((f, engine.Item("w" + f["id"], el.flat, text=fr.text(st), opts=w.get("opts"), entities=el.entities,
                                       mems=el.mems)))
            continue
        decls = [to_tuple(d) for d in w["decls"]]
        ents = None
        if w.get("entities"):
            ents = [dict(e, enable=to_tuple(e["enable"]) if e.get("enable") is not None else None) for e in w["entities"]]
        out.append((f, engine.Item("w" + f["id"], decls, text=w.get("text"), opts=w.get("opts"), c20=bool(w.get("c20")),
                                   entities=ents)))
    return out


def corpus_items(prop):
    """witnesses of repaired defects: ordinary cases that must pass (a failure is reported again)"""
    out = []
    for f in H.known_findings(prop):
        if f.get("kind") == "fixed" and "witness" in f:
            w = f["witness"]
            if "rich" in w:
                import facto_rich as fr
                st = [to_tuple(s) for s in w["rich"]]
                el = fr.elaborate(st)
                out.append(engine.Item("fx" + f["id"], el.flat, text=fr.text(st), entities=el.entities, mems=el.mems,
                                       note="corpus: repaired " + f["id"]))
                continue
            decls = [to_tuple(d) for d in w["decls"]]
            out.append(engine.Item("fx" + f["id"], decls, note="corpus: repaired " + f["id"]))
    return out


def op_histogram(progs):
    h = {}

    def walk(e):
        if isinstance(e, (tuple, list)):
            if e and e[0] == "blit":
                h["blit"] = h.get("blit", 0) + 1
                for member in e[1]:
                    walk(member[1])
            elif e and isinstance(e[0], str):
                key = e[0] if e[0] not in ("bin", "cmp") else e[1]
                if isinstance(key, str):
                    h[key] = h.get(key, 0) + 1
                for x in e[1:]:
                    walk(x)
            else:
                for x in e:
                    walk(x)

    for p in progs:
        for d in p:
            if d[0] != "in":
                walk(d[2])
    return h


def run(tier, seed, t0, prop=PROP, n_quick=60, n_thorough=600, opts=None, gen=None, make_items=None,
        files=None, props_file="Props/C01.v", rule=None, extra_cov=None, pre=None, witness_extra=None,
        reclassify=None, on_broken=None):
    """generic driver: build, replay witnesses, generate items, run the validator, classify, report.
    make_items(seed, n) -> list of engine.Item (default: random scalar programs)"""
    rep = Report(prop, tier, seed, t0)
    FILES_ = FILES + (files or [])
    ok, bad, out = build_or_report(rep, FILES_)
    if bad or not ok:
        found = None
        if on_broken is not None and bad:
            found = on_broken(rep, bad)
        payload = {"broken": [list(b) for b in bad] or "coq build failed", "log": out[-3000:]}
        if found:
            payload.update(found)
        rep.violation(payload, bool(found))
        return rep.finish()
    rep.obligations += count_theorems(FILES_)
    rep.discharged += count_theorems(FILES_)
    rep.checker_cmds.append("make -C coq -j16 (coqc 8.16.1, full .vo build)")
    if pre is not None:
        pre(rep)
    # known-finding witnesses first
    wit = witness_items(prop)
    n = n_quick if tier == "quick" else n_thorough
    progs = []
    if make_items is not None:
        gen_items = make_items(seed, n)
    else:
        i = 0
        while len(progs) < n:
            p = (gen or gen_scalar.gen_program)(seed * 1000003 + i)
            i += 1
            if max(fa.unfolded_size(p)) < 300:
                progs.append(p)
        gen_items = [engine.Item(k, p, opts=dict(opts or {})) for k, p in enumerate(progs)]
    items = corpus_items(prop) + gen_items
    allitems = [w for _, w in wit] + items
    cmd, logs = engine.check_items(prop, allitems, seed=seed)
    rep.checker_cmds.append(cmd)
    if reclassify is not None:
        reclassify(allitems)
    for f, w in wit:
        if w.status != "pass" or getattr(w, "c20_ok", None) is False or (witness_extra and witness_extra(w)):
            rep.known_finding(f["id"], f["what"])
    stats = {}
    for it in items:
        stats[it.status.split(":")[0] if it.status.startswith("skipped") else it.status] = \
            stats.get(it.status.split(":")[0] if it.status.startswith("skipped") else it.status, 0) + 1
        if it.status == "pass":
            rep.obligations += 1
            rep.discharged += 1
        elif it.status.startswith("known:"):
            rep.known.append(it.status[6:])
        elif it.status == "violation":
            rep.obligations += 1
            found = bool(it.detail.get("failing_input")) or it.detail.get("kind", "").startswith("compile-")
            rep.violation({"program": it.text, "decls": it.decls, "entities": it.entities, "mems": getattr(it, "mems", None),
                           "options": it.opts, "detail": it.detail,
                           "broken_obligation": "check_c01 (Valid/CheckC01.v) on the emitted blueprint",
                           "generator_seed": seed}, found)
    for s in sorted(set(rep.known)):
        if s not in [f["id"] for f, _ in wit]:
            pass
    rep.samples = [{"program": it.text, "status": it.status, "outputs": getattr(it, "meta", {}).get("outputs")}
                   for it in items[:3]]
    rep.cov.update({
        "programs": len(items),
        "evaluations": len(items),
        "distinct_nontrivial": len({it.text for it in items if it.status == "pass" and it.meta["entities"] >= 3}),
        "rule": "random well-typed stateless scalar programs (py/gen_scalar.py), one PRNG seeded from VERIF_SEED; "
                "non-trivial = at least 3 entities and a kernel-checked all-inputs certificate; "
                "excluded regions = known findings S2/S13/S14 (generator) and S10/S12 (classified per blueprint)"
                if rule is None else rule,
        "status_histogram": stats,
        "operator_histogram": op_histogram([it.decls for it in items]),
        "print_assumptions": print_assumptions(props_file),
        "coq_logs": logs[:3],
        "shards_that_did_not_finish": sum(1 for l_ in logs if "rc=124" in l_[:60]),
    })
    if extra_cov:
        rep.cov.update(extra_cov(items))
    if tier == "thorough":
        from props.common import coqchk
        rep.cov["coqchk"] = coqchk([props_file])
    return rep.finish(assumptions=["Factorio 2.0 semantics as modelled in coq/Factorio/Circuit.v",
                                   "programs are sampled; inputs and ticks are universally quantified"])


def replay(path):
    """re-execute a replay file: compile the recorded program with the recorded options from /repo's current
    tree, run the same kernel-checked certificate, print the verdict (exit 1 when it still fails)"""
    payload = json.load(open(path))
    print(json.dumps({k: v for k, v in payload.items() if k not in ("decls", "entities", "mems", "planned_edges", "emitted_wires")},
                     indent=1)[:3000])
    if "decls" not in payload or "program" not in payload:
        return 0
    decls = [to_tuple(d) for d in payload["decls"]]
    ents = None
    if payload.get("entities"):
        ents = []
        for e in payload["entities"]:
            e = dict(e, enable=to_tuple(e["enable"]) if e.get("enable") is not None else None)
            if e.get("content"):
                e["content"] = [tuple(c) for c in e["content"]]
            else:
                e.pop("content", None)
            ents.append(e)
    mems = None
    if payload.get("mems"):
        mems = {k: {kk: (to_tuple(vv) if isinstance(vv, list) else vv) for kk, vv in v.items()} for k, v in payload["mems"].items()}
    it = engine.Item("rp", decls, text=payload["program"], opts=payload.get("options") or {}, entities=ents, mems=mems)
    engine.check_items(payload.get("property", "RP") + "RP", [it], seed=int(payload.get("generator_seed") or 0))
    print("REPLAY verdict on the current tree:", it.status)
    if it.status != "pass":
        print(json.dumps(it.detail, indent=1, default=str)[:3000])
    return 1 if it.status == "violation" else 0
