"""C08 -- every emitted blueprint can be pasted.

(1) coq/Props/C08.v: `valid_layout` decides "entity numbers unique, collision boxes pairwise disjoint,
    every wire joins existing entities at connectors their classes have with one colour class, circuit
    wires within both reaches" (exact integer geometry, prototype numbers from the game data).
(2) per blueprint x configuration: a kernel-checked `valid_layout l = true` on what the real compiler
    returned (pole option x optimise x solver time limit), after which the offending pair / wire is
    named by the Python mirror of the validator when the certificate fails.
(3) relay clause: the partition of non-pole connectors induced by the blueprint's wires equals the
    partition implied by the compiler's own logical edges (oracle internal to the compiler)."""
from __future__ import annotations

import json
import random

import geom
import harness as H
from props.common import Report, build_or_report, count_theorems, print_assumptions

PROP = "C08"
FILES = ["Factorio/Geometry.v", "Proofs/GeometryProofs.v", "Props/C08.v"]


def make_cases(tier, seed):
    rng = random.Random(seed * 7919 + 8)
    quick = tier == "quick"
    n_rich, n_scalar, k = (16, 8, 4) if quick else (120, 60, 8)
    cfgs = list(geom.ALL_CONFIGS)
    rng.shuffle(cfgs)
    cases = []
    ci = 0

    def add(text, kind, expected, n=k, only=None, fault=0):
        nonlocal ci
        for j in range(n + fault):
            cfg = only if only is not None else cfgs[ci % len(cfgs)]
            ci += 1
            c = geom.Case(len(cases), text, cfg, kind, expected=expected)
            c.fault = j >= n  # solver outcomes after failed attempts (harness-side fault injection)
            cases.append(c)

    for i in range(n_rich):
        text, exp = geom.rich_program(seed * 1009 + i)
        add(text, "rich", exp, fault=1 if quick else 2)
    for i in range(n_scalar):
        add(geom.scalar_program(seed * 1013 + i), "scalar", None, fault=1 if quick else 2)
    for i in range(5 if quick else 40):
        # far-apart lamps on two producers: relay chains of different networks next to each other
        text, exp = geom.far_program(seed * 1017 + i)
        add(text, "far", exp, n=3 if quick else 6)
    for i in range(6 if quick else 40):
        # a block of user-placed entities across the way of a relay chain, in all eight directions
        text, exp = geom.obstacle_program(seed * 1019 + i)
        add(text, "obstacle", exp, n=2 if quick else 4)
    for name, text, exp, props in geom.HAND_PROGRAMS:
        add(text, "hand:" + name, exp, n=2 if quick else 10)
    if not quick:
        # bigger programs: 40-statement chains under every pole option, and the two-group lamp program
        for i in range(6):
            for p in geom.POLES:
                add(geom.chain_program(40, seed * 31 + i), "chain40", None, n=1, only=(p, True, rng.choice([0, 1, None])))
        text, exp = geom.lamp_rows_program([(260, 0, True), (260, 3, True), (5, 60, True)])
        add(text, "lamps525", exp, n=1, only=(None, True, None))
        add(text, "lamps525", exp, n=1, only=("substation", True, 1))
        text, exp = geom.lamp_rows_program([(120, 0, True), (120, 4, True)])
        add(text, "lamps240", exp, n=1, only=(None, True, None))
        add(text, "lamps240", exp, n=1, only=("medium", True, 1))
    else:
        add(geom.chain_program(18, seed), "chain18", None, n=2)
    return cases


def judge(case, cert_ok):
    """-> (verdict, detail): pass | known:<ids> | violation"""
    fails = geom.layout_failures(case.bpj, limit=50)
    if cert_ok and not fails:
        return "pass", None
    if cert_ok != (not fails):
        return "violation", {"kind": "validator-and-mirror-disagree", "certificate": cert_ok, "mirror": fails[:5]}
    ids = [geom.classify_layout_failure(case, f) for f in fails]
    unknown = [f for f, i in zip(fails, ids) if i is None]
    if unknown:
        return "violation", {"kind": unknown[0]["kind"], "offending": unknown[0], "all_failures": len(fails)}
    return "known:" + ",".join(sorted(set(ids))), {"offending": fails[0], "failures": len(fails)}


def run(tier, seed, t0):
    rep = Report(PROP, tier, seed, t0)
    ok, bad, out = build_or_report(rep, FILES)
    if bad:
        rep.violation({"broken": [list(b) for b in bad], "log": out[-3000:]}, False)
        return rep.finish()
    if not ok:
        rep.notes.append("coq build reported errors outside this property's files")
    n_thm = count_theorems(FILES)
    rep.obligations += n_thm
    rep.discharged += n_thm
    rep.checker_cmds.append("make -C coq -j16 (coqc 8.16.1, full .vo build)")
    geom.proto_table()

    wit = geom.witnesses(PROP)
    cases = make_cases(tier, seed)
    allc = [w for _, w in wit] + cases
    geom.compile_cases([c for c in allc if not c.fault])
    geom.compile_cases_faulty([c for c in allc if c.fault])
    H.log(f"C08: compiled {len(allc)} cases ({sum(1 for c in allc if c.fault)} with injected solver failures)")

    # certificates
    coq_cases = []
    export_err = {}
    for c in allc:
        if c.status != "ok":
            continue
        try:
            coq_cases.append((c.cid, geom.layout_term(c.bpj, f"L{c.cid}"), f"valid_layout L{c.cid}"))
        except (geom.GeomError, KeyError, ValueError) as e:
            export_err[c.cid] = str(e)
    results, logs, cmd = H.shard_cases(PROP, coq_cases, "Factorio.Geometry", per=6 if tier == "quick" else 10)
    rep.checker_cmds.append(cmd)
    H.log(f"C08: {len(coq_cases)} certificates checked")

    # baselines for compile errors under a pole option
    errs = [c for c in allc if c.status == "error" and c.cfg[0]]
    base = {}
    if errs:
        texts = sorted({c.text for c in errs})
        bcs = [geom.Case(f"b{i}", t, (None, True, 1), "baseline") for i, t in enumerate(texts)]
        geom.compile_cases(bcs)
        base = {b.text: b.status == "ok" for b in bcs}

    hist = {}
    part = {"equal": 0, "differs": 0, "undecided": 0}
    verdicts = {}
    for c in allc:
        is_w = c.kind == "witness"
        if c.status == "rejected":
            v, d = "not-accepted", None
        elif c.status == "error":
            fid = geom.classify_compile_error(c, base.get(c.text, False))
            if fid:
                v, d = "known:" + fid, {"error": (c.msg or "")[:300]}
            elif not c.cfg[0] or not base.get(c.text, False):
                # no blueprint under the default pole-less build either: the program is not accepted by this
                # tree (the crash itself belongs to the properties that own that construct)
                v, d = "not-accepted", {"error": (c.msg or "")[:300]}
            else:
                v, d = "violation", {"kind": "compile-error-with-pole-option", "error": (c.msg or "")[:1500],
                                     "pole_less_build_ok": base.get(c.text, False)}
        elif c.cid in export_err:
            v, d = "violation", {"kind": "export", "error": export_err[c.cid]}
        else:
            v, d = judge(c, results.get(c.cid, False))
            if v == "pass":
                st, pd = geom.partition_check(c.bpj, c.harvest)
                if st == "differs" and geom.extra_wires_region(c.bpj, c.harvest):
                    st = "undecided"
                part[st] += 1
                if st == "differs":
                    v, d = "violation", {"kind": "relay-partition", "detail": pd}
        verdicts[c.cid] = (v, d)
        if is_w:
            continue
        key = v.split(":")[0] if v.startswith("known") else v
        hist[key] = hist.get(key, 0) + 1
        if v == "pass":
            rep.obligations += 1
            rep.discharged += 1
        elif v.startswith("known:"):
            rep.known += v[6:].split(",")
        elif v == "violation":
            rep.obligations += 1
            payload = dict(c.describe())
            if c.bpj is not None and geom.entity_total(c.bpj) <= 400:
                payload["blueprint"] = c.bpj
            payload.update({"detail": d, "generator_seed": seed,
                            "broken_obligation": "valid_layout (Factorio/Geometry.v) on the emitted blueprint / relay partition"})
            rep.violation(payload, d.get("kind") not in ("validator-and-mirror-disagree", "export"))
    for f, w in wit:
        v, d = verdicts[w.cid]
        if v != "pass":
            rep.known_finding(f["id"], f["what"])
            if v == "violation":
                rep.notes.append(f"witness of {f['id']} now fails outside its region: {json.dumps(d)[:300]}")

    passed = [c for c in cases if verdicts[c.cid][0] == "pass"]
    if len(passed) < max(4, len(cases) // 5):
        rep.violation({"kind": "coverage-lost", "cases": len(cases), "passed": len(passed), "histogram": hist,
                       "logs": logs[:2]}, False)
    cfg_hist = {}
    for c in passed:
        cfg_hist[str(c.cfg)] = cfg_hist.get(str(c.cfg), 0) + 1
    sizes = sorted(geom.entity_total(c.bpj) for c in passed)
    rep.samples = [{"program": c.text, "options": c.opts, "entities": geom.entity_total(c.bpj),
                    "wires": len(c.bpj["blueprint"].get("wires", [])), "verdict": verdicts[c.cid][0]} for c in passed[:3]]
    rep.cov.update({
        "programs": len({c.text for c in cases}),
        "evaluations": len(cases),
        "distinct_nontrivial": len({(c.text, c.cfg) for c in passed if geom.entity_total(c.bpj) >= 3
                                    and c.bpj["blueprint"].get("wires")}),
        "rule": "programs: py/gen_rich.py (loops, functions, lamps at fixed tiles), py/gen_scalar.py, hand-written multi-tile / "
                "far-apart / negative-coordinate placements, arithmetic chains; each compiled by the real compiler under "
                "configurations drawn round-robin from {no poles, small, medium, big, substation} x {optimise on, off} x "
                "{solver time limit 0, 1, default}, plus one build per generated program in which the first two solver calls of every "
                "layout attempt are made to fail (relaxation ladder); one PRNG seeded from VERIF_SEED.  non-trivial = a kernel-checked "
                "valid_layout certificate on a blueprint with at least 3 entities and one wire, distinct by (text, configuration)",
        "status_histogram": hist,
        "configurations_passed": cfg_hist,
        "entities_per_blueprint": {"min": sizes[0] if sizes else 0, "median": sizes[len(sizes) // 2] if sizes else 0,
                                   "max": sizes[-1] if sizes else 0},
        "relay_partition": part,
        "observation_entities_off_tile_grid": {
            "count": sum(len(geom.off_grid(c.bpj)) for c in passed),
            "by_prototype": sorted({e["name"] for c in passed[:40] for e in geom.off_grid(c.bpj)}),
            "note": "not part of the property text: constant combinators (1x1 in the game data) are planned with a 1x2 "
                    "footprint and emitted with an integer y centre"},
        "passed_after_injected_solver_failures": sum(1 for c in passed if c.fault),
        "blueprints_with_relay_poles": sum(1 for c in passed if not c.cfg[0] and any(
            e["name"] in geom.bx.POLES for e in geom.bx.entities_of(c.bpj))),
        "print_assumptions": print_assumptions("Props/C08.v"),
        "coq_logs": logs[:3],
    })
    return rep.finish(assumptions=[
        "prototype numbers (collision box, tile size, wire reaches) are those of the draftsman game data in /venv",
        "wire reach is measured between entity centres; boxes that only touch do not collide",
        "relay clause: the compiler's own logical edge list is the intended partition (harvested in-process)",
        "programs, configurations and solver outcomes are sampled"])


def replay(path):
    payload = json.load(open(path))
    print(json.dumps(payload, indent=1)[:3000])
    if "program" not in payload:
        return 0
    o = payload.get("options", {})
    c = geom.Case("r", payload["program"], (o.get("power_pole_type"), o.get("optimize", True), o.get("time_limit")), "replay")
    geom.compile_cases([c])
    if c.status != "ok":
        print("replay: compile", c.status, (c.msg or "")[:500])
        return 1
    fails = geom.layout_failures(c.bpj)
    st, pd = geom.partition_check(c.bpj, c.harvest)
    print("replay:", json.dumps(fails[:3], indent=1), st)
    return 1 if fails or st == "differs" else 0
