"""C15 -- calling a function equals substituting its body: compiled programs with calls are validated
(all inputs) against the specification-side inlining (py/facto_rich.py: parameters bound to the
arguments, locals renamed apart, return expression in place of the call)."""
from __future__ import annotations

import engine
import facto_ast as fa
import facto_rich as fr
import gen_rich
from props import c01

PROP = "C15"


def make_items(seed, n):
    items = []
    i = 0
    while len(items) < n:
        st, el = gen_rich.gen_rich(seed * 6007 + i, loops=(i % 3 == 0), funcs=True, local_state=(i % 2 == 1))
        i += 1
        if max(fa.unfolded_size(el.flat)) > 300 or "(" not in fr.text(st):
            continue
        it = engine.Item(len(items), el.flat, text=fr.text(st), entities=el.entities, mems=el.mems or None)
        # known finding S5: a memory declared in a function body is one cell shared by all call sites
        it.s5 = bool(el.renamed_cells)
        items.append(it)
    return items


def run(tier, seed, t0):
    return c01.run(tier, seed, t0, prop=PROP, n_quick=40, n_thorough=400, make_items=make_items,
                   props_file="Props/C01.v",
                   rule="random programs with 1-2 functions (Signal/int parameters, int<->Signal coercion at call "
                        "sites, locals, local memory cells and locally placed lamps, nested use of results, calls feeding loops) validated for all inputs against "
                        "the inlined specification program; known-finding regions classified per blueprint")


def replay(path):
    return c01.replay(path)
