"""Random programs with for-loops, functions and circuit-controlled entities (C06, C09, C15, C16)."""
from __future__ import annotations

import random

import facto_rich as fr
from gen_scalar import Gen, SIGNALS, program_safe, s14_free

PROTOS = ["small-lamp"]


def var_to_ref(e, names):
    if not isinstance(e, tuple):
        return e
    if e[0] == "var":
        return ("ref", names[e[1]])
    return tuple(var_to_ref(x, names) for x in e)


class RichGen:
    def __init__(self, rng, max_depth=3):
        self.r = rng
        self.max_depth = max_depth
        self.scope = []  # (name, kind, const)  kind: 'sig' | 'int' | 'bool'
        self.names = iter(
            [c for c in "abcdefghijklmnopqrstuvwxyz"] + [f"v{i}" for i in range(200)]
        )
        self.row = 0
        self.funcs = []  # (name, params)

    def sub(self, extra=()):
        g = Gen(self.r, self.max_depth)
        sc = self.scope + list(extra)
        g.kinds = [k for _, k, _ in sc]
        g.consts = [c for _, _, c in sc]
        g.decls = [("sig", n, None) for n, _, _ in sc]
        return g, [n for n, _, _ in sc]

    def sig_expr(self, depth=None, extra=()):
        g, names = self.sub(extra)
        e = g.sig_expr(self.max_depth if depth is None else depth)
        if g.is_const(e):
            e = ("bin", "+", g.sig_leaf(), e)
        return var_to_ref(e, names)

    def cmp_expr(self, extra=()):
        g, names = self.sub(extra)
        return var_to_ref(g.cmp_expr(2), names)

    def inputs(self, n):
        out = []
        for _ in range(n):
            nm = next(self.names)
            ty = self.r.choice(SIGNALS[:5]) if self.r.random() < 0.85 else None
            out.append(("in", nm, ty, self.r.choice([2, 3, 5, 7, 9, 11, 20, -4, 100])))
            self.scope.append((nm, "sig", None))
        return out

    def iterator(self):
        r = self.r
        if r.random() < 0.3:
            vals = r.sample(range(-3, 8), r.randint(0, 4))
            return ("list", vals), vals
        a, b = r.randint(-4, 6), r.randint(-4, 6)
        s = r.choice([None, None, 1, 2, 3, -1, -2, -3])
        return ("range", a, b, s), fr.range_values(a, b, s)

    def loop(self, depth=1, outer=()):
        r = self.r
        it = next(self.names)
        itr, vals = self.iterator()
        body = []
        extra = list(outer) + [(it, "int", 0)]
        row = self.row
        self.row += 1
        if r.random() < 0.5:
            t = next(self.names)
            body.append(("sig", t, self.sig_expr(2, extra)))
            extra = extra + [(t, "sig", None)]
        lamp = next(self.names)
        if depth < 2 and r.random() < 0.25 and not outer:
            inner = self.loop(depth + 1, extra)
            body.append(inner)
        else:
            # x = iterator (distinct per iteration), y = this loop's row (+ outer iterator offset)
            ycoord = ("int", row * 1) if not outer else ("bin", "+", ("int", row * 12), ("ref", outer[-1][0]))
            if outer:
                ycoord = ("bin", "+", ("int", row * 12 + 4), ("ref", [n for n, k, _ in outer if k == "int"][-1]))
                self.row += 12
            body.append(("place", lamp, "small-lamp", ("ref", it), ycoord, None))
            cond = self.cmp_expr(extra) if r.random() < 0.7 else self.sig_expr(2, extra)
            if getattr(self, "local_state", False) and r.random() < 0.35:
                # a memory cell declared in the body: every iteration has a cell of its own
                m = "m" + next(self.names)
                sg = r.choice(SIGNALS[:5])
                body.append(("mem", m, sg))
                body.append(("write", m, ("bin", r.choice(["+", "-"]), ("read", m), ("bin", "+", ("ref", it), ("int", 1))), None))
                cond = ("cmp", r.choice([">", "<", "=="]), ("read", m), ("int", r.choice([0, 5, 10])))
            body.append(("enable", lamp, cond))
        return ("for", it, itr, body)

    def func(self):
        r = self.r
        fname = "f" + next(self.names)
        # a parameter may carry the name of a value of the caller (it shadows it inside the body): arguments
        # that mention that outer name must still mean the caller's value
        outer = [n for n, k_, _ in self.scope if k_ == "sig"]
        def pname():
            if outer and r.random() < 0.35:
                return r.choice(outer)
            return next(self.names)
        first = pname()
        params = [("Signal", first)]
        if r.random() < 0.6:
            second = pname()
            if second == first:
                second = next(self.names)
            params.append((r.choice(["int", "Signal"]), second))
        saved = self.scope
        self.scope = [(n, "int" if k == "int" else "sig", 0 if k == "int" else None) for k, n in params]
        body = []
        for _ in range(r.randint(0, 2)):
            t = next(self.names)
            body.append(("sig", t, self.sig_expr(2)))
            self.scope.append((t, "sig", None))
        ret = self.sig_expr(2)
        if getattr(self, "local_state", False):
            x = ("ref", params[0][1])
            if r.random() < 0.35:
                # a memory cell declared in the body: every call site gets a cell of its own
                m = "m" + next(self.names)
                sg = r.choice(SIGNALS[:5])
                body.append(("mem", m, sg))
                if r.random() < 0.6:
                    body.append(("write", m, ("bin", r.choice(["+", "-", "XOR"]), ("read", m), x), None))
                else:
                    body.append(("write", m, ("proj", x, sg), ("cmp", ">", x, ("int", r.choice([0, 3, 10])))))
                ret = ("read", m) if r.random() < 0.5 else ("bin", "+", ("read", m), ("int", r.choice([1, 2, 5])))
            ints = [n for k, n in params if k == "int"]
            if ints and r.random() < 0.4:
                # an entity placed by the body at a position given by an int parameter
                l = next(self.names)
                body.append(("place", l, "small-lamp", ("ref", ints[0]), ("int", 8 + 2 * self.row), None))
                self.row += 1
                body.append(("enable", l, ("cmp", r.choice([">", "<", "=="]), x, ("int", r.choice([0, 2, 10])))))
        self.scope = saved
        self.funcs.append((fname, params))
        # known finding S36: a Signal parameter bound to an int argument and compared inside a && / || chain
        # makes the compiler raise (a constant lands in a row of a multi-condition decider): such parameters
        # are always given signal arguments
        chain = set()

        def walk(e, inside):
            if not isinstance(e, tuple):
                return
            if e[0] in ("and", "or"):
                for x in e[1:]:
                    walk(x, True)
                return
            if e[0] == "cmp" and inside:
                for x in e[2:]:
                    if isinstance(x, tuple) and x[0] == "ref":
                        chain.add(x[1])
            for x in e[1:]:
                walk(x, False if e[0] != "cond" else False)

        for s_ in body:
            for x in s_[2:]:
                walk(x, False)
        walk(ret, False)
        self.chain_params = getattr(self, "chain_params", {})
        self.chain_params[fname] = chain
        return ("func", fname, params, body, ret)

    def call(self):
        r = self.r
        fname, params = r.choice(self.funcs)
        args = []
        for i, (k, _) in enumerate(params):
            if k == "int":
                args.append(("int", r.choice([0, 1, 2, 3, 5, -2])))
            elif params[i][1] in getattr(self, "chain_params", {}).get(fname, ()):
                # a run-time value for certain: a named input (an all-literal expression folds to a constant)
                ins = [n for n, k_, _ in self.scope if k_ == "sig"]
                args.append(("ref", r.choice(ins)) if ins else self.sig_expr(1))
            elif i == 0:
                # the first argument is never constant, so that a call never folds to a compound
                # constant (region of known finding S14)
                args.append(self.sig_expr(1))
            else:
                args.append(self.sig_expr(1) if r.random() < 0.6 else ("int", r.choice([1, 2, 7])))
        return ("call", fname, args)

    def program(self, loops=True, funcs=True):
        r = self.r
        stmts = self.inputs(r.randint(1, 3))
        if funcs:
            for _ in range(r.randint(1, 2)):
                stmts.append(self.func())
        n = r.randint(2, 5)
        for _ in range(n):
            x = r.random()
            if loops and x < 0.45:
                stmts.append(self.loop())
            elif funcs and x < 0.8 and self.funcs:
                nm = next(self.names)
                e = self.call()
                if r.random() < 0.4:
                    e = ("bin", r.choice(["+", "*", "-"]), e, self.sig_expr(1))
                stmts.append(("sig", nm, e))
                self.scope.append((nm, "sig", None))
            else:
                nm = next(self.names)
                stmts.append(("sig", nm, self.sig_expr()))
                self.scope.append((nm, "sig", None))
        return stmts


def gen_rich(seed, local_state=False, **kw):
    for k in range(60):
        g = RichGen(random.Random(seed * 60 + k))
        g.local_state = local_state
        st = g.program(**kw)
        try:
            el = fr.elaborate(st)
        except Exception:  # noqa: BLE001
            continue
        if not program_safe(el.flat) or not s14_free(el.flat):
            continue
        ok = all(program_safe(el.flat + [("sig", "_", e["enable"])]) and s14_free(el.flat + [("sig", "_", e["enable"])])
                 for e in el.entities if e["enable"] is not None)
        pos = [(e["x"], e["y"]) for e in el.entities]
        if ok and len(set(pos)) == len(pos):
            return st, el
    return st, el
